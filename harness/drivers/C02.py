"""C02 -- emission / direct-image spectra equal the documented layered thermal integral.

Spec: spec/Dyad.tla (exact sums of n/d 2^-k), spec/Emission.tla (operators, actions Surface / Layer(l) /
      Integrate / Normalise(kind), clauses), spec/MC_Emission.tla (+cfgs), spec/Trace_Emission.tla.
Binding A: TLC-exported (layer optical depths in ln 2 units, temperature indices, quadrature, exact
      intensity / flux / normalised output as B-sums) replayed into EmissionModel.partial_model(),
      EmissionModel.model() and DirectImageModel.model() with exact per-layer opacities; the Planck
      table is the harness's own plain-Python evaluation.
Binding B: seeded random atmospheres (T-profiles, compositions, opacity magnitudes, layer counts,
      ngauss 1..8, stars, planets, distances) -> isothermal identity, hot/cold bounds, the
      Gauss-Legendre facts and the direct-image proportionality law, each logged event validated by
      TLC (spec/Trace_Emission.tla) + canary.
Correlated-k mode (the statement quantifies over both opacity modes): spec/EmissionK.tla (extends KTable /
      Emission: the same state machine with weight-averaged slant transmittances, no clamp), exhaustive
      configs + expected counterexample (slant factor applied outside the k-sum), exported vectors with
      NON-degenerate coefficients over visible surfaces replayed through pickle k-tables into
      EmissionModel / DirectImageModel, and random k-table atmospheres in binding B.
Binding C (spec/EmissionCalls.tla): TLC-generated walks over the public entry points of ONE long-lived model with three
      opacity sources (model / partial_model / model_contrib / model_full_contrib / bare path_integral: several path
      integrals per initialisation of the star); every path integral compared with the exact documented integral of its
      sub-composition over the stellar blackbody, every array the integrals share (the star's stored spectrum, profiles,
      opacity arrays handed in, quadrature) re-read after every call; expected counterexamples: a shared array rescaled in place.
Readings of the Planck table (spec/MC_Emission.tla: InterpTable, exported as INTERP records; spec/PlanckTol.tla): the
      specification's table is uninterpreted (every clause holds for every positive increasing table), so the exported exact
      B-sums are replayed under several readings -- layer temperatures 1e-3 .. 1e-8 apart (clause PerLayerSource; expected
      counterexample: the source function of an earlier layer kept while the temperature "has not changed") and the
      Rayleigh-Jeans / Wien regimes of planet and star -- each at the tolerance the specification derives for it
      (1e-12 for the arithmetic of the sum + the rounding the documented Planck formula may carry at that h c nu / k T).
      The repository's Planck function itself is judged by TLC pair by pair over x = 1e-4 .. 480 (`planck` events).
Quadrature routes and sizes: every random model is evaluated with the rule asked for through the constructor keyword and,
      afterwards, through set_num_gauss(n) on the same object; n walks through the size classes 1, 2-4, 5-8, 9-16, 17-32,
      33-64; Trace_Emission reports the (route, class) cells and decades of x a trace does not cover (machinery failure).
TLC runs are started ahead (class Prefetch) and consumed in order; the design-level runs are checked at the end.
Settings walks (spec/EmissionSettings.tla, harness/fx_emsettings.py): TLC-generated walks over the SETTINGS of one long-lived
      model -- planet radius through model['planet_radius'] and planet.radius, star temperature, star distance, the angle
      quadrature through set_num_gauss(n) and set_quadratures(mu, w) in any order (also: the count the object remembers asked
      for again), the global opacity mode xsec <-> ktables -- with evaluations in between; every evaluation equals a freshly
      built model of the CURRENT settings and, isothermal, B(T)/B(T*)(Rp/Rs)^2 of the current planet and star; expected
      counterexamples: geometry factor computed at build, set_num_gauss skipping a "same" count, opacity branch memoised.
History independence (spec/Functional.tla, harness/history.py): long-lived Emission / DirectImage models
      whose spectral window (equally long windows passed to model(wngrid=..)), star temperature, planet
      radius, temperature parameter and k-table set change between evaluations equal freshly built ones.
"""
import math
import os
import random
from fractions import Fraction

import numpy as np

from ..core import Machinery, frac, close, validate_trace
from .. import fx_emission as fx
from .. import fx_ktable as fxk
from .. import fx_emcalls as fxc
from .. import fx_emsettings as fxs

WN = [800.0, 2500.0]
TK = {1: 600.0, 2: 1100.0, 3: 1700.0}
STAR_T = 5000.0
# Comparison with the exact B-sums exported by TLC.  Derived from the arithmetic, not from what happens to pass: every term of
# the layered sum is non-negative and carries a relative error <= 4 (6 tau/mu + 1) u (u = 2^-53; <= 4.4e-13 for the largest
# slant depth of the exported vectors, 240 ln 2), and the Planck values of the reading mir_wide may differ from the
# documented formula by <= 1.55e-14 (spec/PlanckTol.tla): 1e-12 + 2 * 1.55e-14, rounded up.  Measured on the unchanged
# tree over all thorough vectors: <= 1.3e-15.
REL = 1.04e-12
S_TRACE = 1000000
EXP_M10 = math.exp(-10.0)


def bcols():
    """B[t][w] of the specification filled by the harness's Planck evaluation (per unit pi)."""
    return [dict((t, fx.planck_b(WN[w], TK[t])) for t in TK) for w in range(len(WN))]


U16 = 1e-16          # unit of the tolerances exported by spec/PlanckTol.tla
REL_SUM = 1e-12      # arithmetic of the layered sum (see the comment on InterpTable in spec/MC_Emission.tla)


class Interp:
    """One reading of the specification's uninterpreted Planck table (spec/MC_Emission.tla: InterpTable, exported by
    TLC as INTERP records): wavenumbers, the temperature behind every table index, the star, and the comparison
    tolerance the specification licenses for it.  Interp() is the reading every exported vector is replayed under
    (the driver's WN / TK / STAR_T at 1e-9); the others span the spacing of the layer temperatures and the regime of
    h c nu / k T and are compared at 1e-12 + twice the largest licensed Planck rounding."""

    def __init__(self, d=None):
        if d is None:
            self.id, self.idx, self.wn, self.tk, self.star, self.rel, self.prefix = 'mir_wide', 1, list(WN), dict(TK), STAR_T, REL, ''
            self.iso_tol = 1e-12
            return
        self.id, self.idx = d['id'], d['idx']
        self.wn = [float(x) for x in d['wn']]
        self.tk = dict((t + 1, float(Fraction(int(b) * int(n), int(dd)))) for t, (b, n, dd) in enumerate(d['temps']))
        self.star = float(d['star'])
        tol = max(max(max(r) for r in d['tolu']), max(d['startolu'])) * U16
        self.rel = REL_SUM + 2.0 * tol
        self.iso_tol = REL_SUM + 2.0 * tol
        self.prefix = 'interp:%s:' % self.id
        ts = [self.tk[t] for t in sorted(self.tk)]
        if not all(a < b for a, b in zip(ts, ts[1:])):
            raise Machinery('interpretation %s: temperatures %r are not strictly increasing as floats' % (self.id, ts))

    def bcols(self):
        return [dict((t, fx.planck_b(self.wn[w], self.tk[t])) for t in self.tk) for w in range(len(self.wn))]

    def matches_driver(self):
        return self.wn == list(WN) and self.tk == dict(TK) and self.star == STAR_T



def code_raised(ctx, ex, cls, vec):
    """An exception raised by the code under test on a valid configuration is a violation (clause
    evaluates_without_error); an exception raised inside the harness is re-raised (machinery)."""
    import traceback
    if isinstance(ex, Machinery):
        raise ex
    tb = traceback.extract_tb(ex.__traceback__)
    if '/harness/' in tb[-1].filename:
        raise ex
    ctx.verdict('evaluates_without_error', False, cls=cls,
                detail='%s: %s at %s:%s' % (type(ex).__name__, ex, os.path.basename(tb[-1].filename), tb[-1].name), vector=vec)


def cls_of(v):
    return '%s:%s:%s:q%d:n%d' % ('iso' if v['isothermal'] else 'noniso', 'sat' if v['saturated'] else 'unsat',
                                 v['kind'], v['qid'], len(v['e']))


# ----------------------------------------------------------------------------
# binding A
# ----------------------------------------------------------------------------

def check_vector_group(ctx, tp, vecs, cache, ip=None):
    """All exported vectors with one temperature profile: one emission + one direct-image model, under the reading
    `ip` of the Planck table (default: the driver's WN / TK / STAR_T)."""
    from taurex.cache import OpacityCache
    ip = ip or Interp()
    WN, TK, STAR_T, REL = ip.wn, ip.tk, ip.star, ip.rel         # shadow the module constants: everything below is per reading
    ISO = ip.iso_tol
    bc = ip.bcols()
    temps = [TK[t] for t in tp]
    v0 = vecs[0]
    rp, rs, dist, kd = v0['rp'], v0['rs'], v0['dist'], v0['kd']
    fx.reset_all()
    em = fx.Atmos('emission', temps, WN, star_T=STAR_T, rp_over_rs=Fraction(rp, rs))
    di = fx.Atmos('direct', temps, WN, star_T=STAR_T, rp_over_d=Fraction(rp, dist), register=False)
    di.table = em.table
    bstar = [fx.planck_b(w, STAR_T) for w in WN]
    done_I = set()
    for v in vecs:
      if ip.prefix:
          v = dict(v, interp=ip.idx)
      try:
        e = v['e']
        cls = ip.prefix + cls_of(v)
        em.set_layer_tau(e)
        di.table = em.table
        mu_raw, w_raw = fx.raw_quadrature(v['quad'])
        key = (repr(e), v['qid'])
        if key not in done_I:
            done_I.add(key)
            em.model.set_quadratures(mu_raw, w_raw)
            I, imu, w, _ = em.model.partial_model()
            ok_q = (np.allclose(np.ravel(imu), [q[0] for q in v['quad']], rtol=1e-14) and
                    np.allclose(np.ravel(w), [float(frac(q[1])) for q in v['quad']], rtol=1e-14))
            ctx.verdict('quadrature_mapping', ok_q, cls=cls, detail='1/mu %r w %r' % (np.ravel(imu), np.ravel(w)),
                        vector=dict(v, what='quad'))
            for a in range(len(v['quad'])):
                for wi in range(len(WN)):
                    exp, scale = fx.bsum_float(v['inten'][a][wi], bc[wi])
                    got = float(I[a][wi])
                    ok = abs(got - exp) <= REL * abs(exp)
                    ctx.verdict('intensity_formula', ok, cls=cls,
                                detail='angle 1/mu=%s wn=%s got %r expected %r' % (v['quad'][a][0], WN[wi], got, exp),
                                vector=dict(v, what='intensity', a=a, w=wi))
                    # the property's consequences, on the real numbers
                    lo, hi = bc[wi][v['tmin']], bc[wi][v['tmax']]
                    okb = lo * (1 - ISO) <= got <= hi * (1 + (EXP_M10 if v['saturated'] else 0.0) + ISO)
                    ctx.verdict('hot_cold_bounds', okb, cls=cls, detail='got %r not in [%r, %r(1+e^-10)]' % (got, lo, hi),
                                vector=dict(v, what='intensity', a=a, w=wi))
        if v['kind'] == 'eclipse':
            em.model.set_quadratures(mu_raw, w_raw)
            _, flux, _, _ = em.model.model()
            for wi in range(len(WN)):
                exp, _ = fx.bsum_float(v['out'][wi], bc[wi])
                # substitute the uninterpreted stellar table entry of the config by the harness's value
                exp = exp * cache['bstar_spec'][wi] / bstar[wi]
                got = float(flux[wi])
                ctx.verdict('eclipse_flux_formula', abs(got - exp) <= REL * abs(exp), cls=cls,
                            detail='wn=%s got %r expected %r' % (WN[wi], got, exp), vector=dict(v, what='eclipse', w=wi))
                if v['isothermal'] and v['weightsok']:
                    ratio = fx.planck_b(WN[wi], temps[0]) / bstar[wi] * (Fraction(rp, rs) ** 2)
                    r = got / float(ratio)
                    oki = 1 - ISO <= r <= 1 + (EXP_M10 if v['saturated'] else 0.0) + ISO
                    ctx.verdict('isothermal_identity', oki, cls=cls, detail='flux/blackbody ratio = %r' % r,
                                vector=dict(v, what='eclipse', w=wi))
        else:
            di.model.set_quadratures(mu_raw, w_raw)
            _, dflux, _, _ = di.model.model()
            for wi in range(len(WN)):
                fl, _ = fx.bsum_float(v['flux'][wi], bc[wi])
                # law: direct / (2 pi F Rp^2 / d^2) is one constant (not pinned)
                denom = 2.0 * math.pi * fl * (di.rp_m / di.d_m) ** 2
                cache['direct_ratios'].append((float(dflux[wi]) / denom, cls, dict(v, what='direct', w=wi), REL))
      except Exception as ex:
        code_raised(ctx, ex, ip.prefix + 'vector:' + cls_of(v), dict(v, what='raise'))
    ctx.add_sample(dict(vector=dict(e=v0['e'], tp=tp, quad=v0['quad'], kind=v0['kind'], reading=ip.id,
                                    intensity_terms=v0['inten'][0][0])))


def run_vectors(ctx, cfg, label, ratios, res=None):
    if res is None:
        res = ctx.check_spec('export-' + label, 'MC_Emission', cfg, workers=1, deque=True)
    vecs = res.tagged('VEC')
    if not vecs:
        raise Machinery('no vectors exported by ' + cfg)
    groups = {}
    for v in vecs:
        groups.setdefault(tuple(v['tp']), []).append(v)
    cache = dict(bstar_spec=[7, 11], direct_ratios=ratios)
    for tp, g in sorted(groups.items()):
        check_vector_group(ctx, list(tp), g, cache)
    fx.reset_all()
    return len(vecs)


_INTERPS = {}


def interps_of(res, cfg):
    """INTERP records exported by TLC (spec/MC_Emission.tla: InterpExport) -> {idx: Interp}; the first entry of the
    specification's table must be the reading the driver uses for every other export."""
    out = {}
    for d in res.tagged('INTERP'):
        out[d['idx']] = Interp(d)
    if 1 in out and out[1].rel > REL:
        raise Machinery('%s: the tolerance the specification derives for the driver\'s own reading (%r) exceeds REL' % (cfg, out[1].rel))
    if 1 not in out or not out[1].matches_driver():
        raise Machinery('%s: entry 1 of InterpTable is not the driver\'s reading WN=%r TK=%r star=%r' % (cfg, WN, TK, STAR_T))
    if len(out) < 4 or not any(len(d['decades']) >= 3 for d in res.tagged('INTERP')) or \
            sum(1 for d in res.tagged('INTERP') if d['spacing'] == 'close') < 2:
        raise Machinery('%s exports too few readings of the Planck table (%r)' % (cfg, sorted(i.id for i in out.values())))
    _INTERPS[cfg] = out
    return out


def run_interp_vectors(ctx, cfg, label, ratios, res=None):
    """Binding A over the readings of the Planck table: every vector of the (small) export is replayed under every
    exported reading other than the driver's own -- layer temperatures 1e-3 .. 1e-8 apart, Rayleigh-Jeans and Wien
    regimes -- and compared with the exact B-sum at the tolerance the specification derives for that reading."""
    if res is None:
        res = ctx.check_spec('export-' + label, 'MC_Emission', cfg, workers=1, deque=True)
    vecs = res.tagged('VEC')
    ips = interps_of(res, cfg)
    if not vecs:
        raise Machinery('no vectors exported by ' + cfg)
    # what makes a stale / approximate source function observable: distinct temperatures in layers that all carry weight
    sharp = [v for v in vecs if not v['isothermal'] and not v['saturated'] and all(any(x > 0 for x in row) for row in v['e'])]
    if len(sharp) < 20 or not any(v['isothermal'] for v in vecs):
        raise Machinery('%s exports too few vectors in which every layer at its own temperature carries weight (%d)' % (cfg, len(sharp)))
    groups = {}
    for v in vecs:
        groups.setdefault(tuple(v['tp']), []).append(v)
    cache = dict(bstar_spec=[7, 11], direct_ratios=ratios)
    for idx in sorted(ips):
        if idx == 1:
            continue
        for tp, g in sorted(groups.items()):
            check_vector_group(ctx, list(tp), g, cache, ips[idx])
    fx.reset_all()
    return len(vecs) * (len(ips) - 1)


def finish_direct_law(ctx, ratios):
    if not ratios:
        return
    ref = sorted(it[0] for it in ratios)[len(ratios) // 2]
    ok_ref = ref > 0 and math.isfinite(ref)
    for it in ratios:
        r, cls, vec = it[:3]
        tol = it[3] if len(it) > 3 else REL          # readings of the Planck table carry their own licensed rounding
        ctx.verdict('direct_image_proportional', ok_ref and abs(r - ref) <= tol * abs(ref), cls=cls,
                    detail='direct/(flux Rp^2/d^2) = %r, median %r' % (r, ref), vector=vec)


# ----------------------------------------------------------------------------
# binding A in correlated-k mode (spec/EmissionK.tla)
# ----------------------------------------------------------------------------

def kcls_of(v):
    return 'ktable:%s:%s:%s:%s:q%d:n%d:ng%d' % ('iso' if v['isothermal'] else 'noniso', 'visible' if v['visible'] else 'opaque',
                                               'degenerate' if v['degenerate'] else 'generic', v['kind'], v['qid'],
                                               len(v['kk']), v['ng'])


def check_kvector_group(ctx, d, tp, vecs, cache, ip=None):
    """All exported k-table vectors with one temperature profile: one emission + one direct-image model, both
    constructed and evaluated under opacity_method='ktables' on a pickle table written per vector; `ip` = reading of
    the Planck table (default: the driver's)."""
    ip = ip or Interp()
    WN, TK, STAR_T, REL, ISO = ip.wn, ip.tk, ip.star, ip.rel, ip.iso_tol
    nw = len(vecs[0]['kk'][0])
    ng = vecs[0]['ng']
    wn = WN[:nw]
    bc = ip.bcols()
    temps = [TK[t] for t in tp]
    v0 = vecs[0]
    rp, rs, dist = v0['rp'], v0['rs'], v0['dist']
    fx.reset_all()
    em = fxk.KAtmos(d, 'emission', temps, wn, ng, star_T=STAR_T, rp_over_rs=Fraction(rp, rs), with_grey=True)
    di = fxk.KAtmos(d, 'direct', temps, wn, ng, star_T=STAR_T, rp_over_d=Fraction(rp, dist), with_grey=True)
    bstar = [fx.planck_b(w, STAR_T) for w in wn]
    done = {}
    for v in vecs:
      if ip.prefix:
          v = dict(v, interp=ip.idx)
      cls = ip.prefix + kcls_of(v)
      try:
        key = (repr(v['kk']), repr(v['c']), v['wid'], v['qid'])
        if key not in done:
            em.write(v['kk'], [float(frac(x)) for x in v['wts']])
            em.set_grey(v['c'])
            di.set_grey(v['c'])
            mu_raw, w_raw = fx.raw_quadrature(v['quad'])
            em.model.set_quadratures(mu_raw, w_raw)
            di.model.set_quadratures(mu_raw, w_raw)
            I, imu, w, _ = em.model.partial_model()
            _, flux, _, _ = em.model.model()
            _, dflux, _, _ = di.model.model()
            done[key] = (np.array(I), np.array(flux), np.array(dflux))
            for a in range(len(v['quad'])):
                for wi in range(nw):
                    exp, _ = fx.bsum_float(v['kint'][a][wi], bc[wi])
                    got = float(I[a][wi])
                    ctx.verdict('intensity_formula', abs(got - exp) <= REL * abs(exp), cls=cls,
                                detail='k-table mode, angle 1/mu=%s wn=%s got %r expected %r' % (v['quad'][a][0], wn[wi], got, exp),
                                vector=dict(v, what='kintensity', a=a, w=wi))
                    lo, hi = bc[wi][v['tmin']], bc[wi][v['tmax']]       # no clamp in this branch: no slack
                    ctx.verdict('hot_cold_bounds', lo * (1 - ISO) <= got <= hi * (1 + ISO), cls=cls,
                                detail='k-table mode, got %r not in [%r, %r]' % (got, lo, hi), vector=dict(v, what='kintensity', a=a, w=wi))
        I, flux, dflux = done[key]
        if v['kind'] == 'eclipse':
            for wi in range(nw):
                exp, _ = fx.bsum_float(v['out'][wi], bc[wi])
                exp = exp * cache['bstar_spec'][wi] / bstar[wi]
                got = float(flux[wi])
                ctx.verdict('eclipse_flux_formula', abs(got - exp) <= REL * abs(exp), cls=cls,
                            detail='k-table mode, wn=%s got %r expected %r' % (wn[wi], got, exp), vector=dict(v, what='keclipse', w=wi))
                if v['isothermal'] and v['weightsok']:
                    ratio = fx.planck_b(wn[wi], temps[0]) / bstar[wi] * (Fraction(rp, rs) ** 2)
                    r = got / float(ratio)
                    ctx.verdict('isothermal_identity', 1 - ISO <= r <= 1 + ISO, cls=cls,
                                detail='k-table mode, flux/blackbody ratio = %r' % r, vector=dict(v, what='keclipse', w=wi))
        else:
            for wi in range(nw):
                fl, _ = fx.bsum_float(v['flux'][wi], bc[wi])
                denom = 2.0 * math.pi * fl * (di.a.rp_m / di.a.d_m) ** 2
                cache['direct_ratios'].append((float(dflux[wi]) / denom, cls, dict(v, what='kdirect', w=wi), REL))
      except Exception as ex:
        code_raised(ctx, ex, 'vector:' + cls, dict(v, what='kraise'))
        fx.set_mode('xsec')
    ctx.add_sample(dict(vector=dict(kk=v0['kk'], wts=v0['wts'], c=v0['c'], tp=tp, quad=v0['quad'], kind=v0['kind'],
                                    intensity_terms=v0['kint'][0][0])))


def run_kvectors(ctx, cfg, label, ratios, res=None, interps=()):
    """`interps`: further readings of the Planck table (exported from spec/MC_Emission.tla) under which the vectors
    that pin the formula down (visible surface, coefficients differing across the points) are replayed as well."""
    if res is None:
        res = ctx.check_spec('export-' + label, 'MC_EmissionK', cfg, workers=1, deque=True)
    vecs = res.tagged('VEC')
    # what makes the position of the slant factor observable: coefficients that differ across the points,
    # a surface that is still seen, an angle with 1/mu > 1
    sharp = [v for v in vecs if v['visible'] and not v['degenerate'] and any(q[0] > 1 for q in v['quad'])]
    if len(sharp) < 20 or not any(v['isothermal'] for v in sharp):
        raise Machinery('%s exports too few non-degenerate vectors with a visible surface (%d)' % (cfg, len(sharp)))
    groups = {}
    for v in vecs:
        groups.setdefault((tuple(v['tp']), v['ng'], len(v['kk'][0])), []).append(v)
    cache = dict(bstar_spec=[7, 11], direct_ratios=ratios)
    with fx.TempDir() as d:
        for (tp, ng, nw), g in sorted(groups.items()):
            check_kvector_group(ctx, d, list(tp), g, cache)
            gs = [v for v in g if v['visible'] and (not v['degenerate'] or v['isothermal'])]
            for ip in interps:
                if gs:
                    check_kvector_group(ctx, d, list(tp), gs, cache, ip)
    fx.reset_all()
    return len(vecs)


# ----------------------------------------------------------------------------
# binding C: call walks on ONE long-lived model (spec/EmissionCalls.tla)
# ----------------------------------------------------------------------------

ENTRY_NAME = dict(model='model()', partial='partial_model()', contrib='model_contrib()', fullc='model_full_contrib()',
                  path='path_integral()')


def shape_ok(got, shape):
    return got is not None and getattr(got, 'shape', None) == tuple(shape)


def check_shared(ctx, before, a_model, given, grid, star_T, cls, vec, star_initialised=True):
    """After a public call: every array the path integrals share is what it was (private copies / re-read
    properties), and the star still exposes the stellar blackbody on the grid of the evaluation."""
    bad = fxc.changed_inputs(before, a_model, given)
    ctx.verdict('shared_inputs_read_only', not bad, cls=cls + (':' + ','.join(bad)[:80] if bad else ''),
                detail='arrays shared by the path integrals changed during the call: %s' % ', '.join(bad), vector=vec)
    if star_initialised:
        ok, detail = fxc.star_is_blackbody(a_model, grid, star_T)
        ctx.verdict('shared_inputs_read_only', ok, cls=cls + ('' if ok else ':star_sed'),
                    detail='after the call the star does not hold the stellar blackbody: ' + detail, vector=vec)


def check_walk_group(ctx, kind, tp, sid, walks, cache):
    """All exported walks of one (model class, temperature profile, source set): ONE model object, the walks
    replayed one after the other (their concatenation is a behaviour of the specification for a larger MaxCalls:
    no walk starts with path_integral)."""
    bc = bcols()
    temps = [TK[t] for t in tp]
    w0 = walks[0]
    rp, rs, dist, kd = w0['rp'], w0['rs'], w0['dist'], w0['kd']
    fx.reset_all()
    mkind = 'emission' if kind == 'eclipse' else 'direct'
    a = fxc.SourceAtmos(mkind, temps, WN, star_T=STAR_T, rp_over_rs=Fraction(rp, rs), rp_over_d=Fraction(rp, dist))
    a.set_sources(w0['src'])
    m = a.model
    bstar = [fx.planck_b(w, STAR_T) for w in WN]
    nm = len(a.mols)
    for wk in walks:
        vec0 = dict(calls_walk=True, kind=kind, tp=tp, sid=sid, qid=wk['qid'], calls=wk['calls'])
        trail = []
        last_grid = None
        try:
            mu_raw, w_raw = fx.raw_quadrature(wk['quad'])
            m.set_quadratures(mu_raw, w_raw)
            na = len(wk['quad'])
            for ci, entry in enumerate(wk['calls']):
                trail.append(entry)
                logs = [r for r in wk['log'] if r['call'] == ci + 1]
                groups = [(fxc.GREY if min(r['sub']) > nm else 'Absorption') for r in logs] if entry == 'contrib' else []
                comps = [((fxc.GREY, 'grey') if r['sub'][0] > nm else ('Absorption', a.mols[r['sub'][0] - 1])) for r in logs] \
                    if entry == 'fullc' else []
                base = 'calls:%s:%s' % (kind, '>'.join(trail))
                vec = dict(vec0, call=ci)
                before = fxc.exposed(m)
                o = fxc.run_entry(m, entry, last_grid, groups, comps)
                if len(o.items) != len(logs):
                    raise Machinery('walk %r: the specification logs %d path integrals for %s, the harness ran %d'
                                    % (wk['calls'], len(logs), entry, len(o.items)))
                last_grid = o.grid
                gok = o.grid is not None and np.asarray(o.grid).shape == (len(WN),) and np.allclose(o.grid, WN, rtol=0, atol=0)
                check_shared(ctx, before, m, a.given, WN, STAR_T, base, vec)
                for r, (label, got) in zip(logs, o.items):
                    sub = '+'.join(a.names_of(r['sub']))
                    cls = '%s:%s[%s]:%s:%s' % (base, entry, sub, 'iso' if wk['isothermal'] else 'noniso', 'sat' if r['sat'] else 'unsat')
                    v = dict(vec, sub=r['sub'])
                    if entry == 'partial':
                        if not (gok and shape_ok(got, (na, len(WN)))):
                            ctx.verdict('intensity_formula', False, cls=cls, detail='%s returned %r on grid %r' % (label, got, o.grid), vector=v)
                            continue
                        for ai in range(na):
                            for wi in range(len(WN)):
                                exp, _ = fx.bsum_float(r['res'][ai][wi], bc[wi])
                                g_ = float(got[ai][wi])
                                ctx.verdict('intensity_formula', abs(g_ - exp) <= REL * abs(exp), cls=cls,
                                            detail='%s after %s: angle 1/mu=%s wn=%s got %r expected %r'
                                                   % (label, ' '.join(trail[:-1]) or 'construction', wk['quad'][ai][0], WN[wi], g_, exp), vector=v)
                        continue
                    if not (gok and shape_ok(got, (len(WN),))):
                        ctx.verdict('eclipse_flux_formula' if kind == 'eclipse' else 'direct_image_proportional', False, cls=cls,
                                    detail='%s returned %r on grid %r' % (label, got, o.grid), vector=v)
                        continue
                    for wi in range(len(WN)):
                        exp, _ = fx.bsum_float(r['res'][wi], bc[wi])
                        g_ = float(got[wi])
                        if kind == 'eclipse':
                            exp = exp * cache['bstar_spec'][wi] / bstar[wi]
                            ctx.verdict('eclipse_flux_formula', abs(g_ - exp) <= REL * abs(exp), cls=cls,
                                        detail='%s after %s: wn=%s got %r, documented integral of the sources {%s} over the stellar blackbody %r'
                                               % (label, ' '.join(trail[:-1]) or 'construction', WN[wi], g_, sub, exp), vector=v)
                            lo = bc[wi][wk['tmin']] / bstar[wi] * float(Fraction(rp, rs) ** 2)
                            hi = bc[wi][wk['tmax']] / bstar[wi] * float(Fraction(rp, rs) ** 2)
                            if wk['weightsok']:
                                slack = EXP_M10 if r['sat'] else 0.0
                                ctx.verdict('hot_cold_bounds', lo * (1 - 1e-12) <= g_ <= hi * (1 + slack + 1e-12), cls=cls,
                                            detail='%s: wn=%s got %r not in [%r, %r(1+e^-10)]' % (label, WN[wi], g_, lo, hi), vector=v)
                                if wk['isothermal']:
                                    q_ = g_ / lo
                                    ctx.verdict('isothermal_identity', 1 - 1e-12 <= q_ <= 1 + slack + 1e-12, cls=cls,
                                                detail='%s of an isothermal atmosphere (sources {%s}): flux/blackbody ratio = %r' % (label, sub, q_), vector=v)
                        else:
                            # out = 2 F Rp^2 / (KD d^2) in the specification: F = out KD d^2 / (2 Rp^2)
                            fl = exp * kd * dist * dist / (2.0 * rp * rp)
                            denom = 2.0 * math.pi * fl * (a.rp_m / a.d_m) ** 2
                            cache['direct_ratios'].append((g_ / denom, cls, v))
        except fxc.BadReturn as ex:
            ctx.verdict('evaluates_without_error', False, cls='calls:%s:%s' % (kind, '>'.join(trail)), detail=str(ex), vector=dict(vec0, what='raise'))
        except Exception as ex:
            code_raised(ctx, ex, 'calls:%s:%s' % (kind, '>'.join(trail)), dict(vec0, what='raise'))
    ctx.traces += len(walks)


def run_calls(ctx, cfg, label, ratios, only=None, res=None):
    if res is None:
        res = ctx.check_spec('calls-' + label, 'MC_EmissionCalls', cfg, workers=1, deque=True)
    walks = res.tagged('WALK')
    if cfg == 'MC_EmissionCalls_quick.cfg':
        call_walks(ctx, res)
    # what makes a write to a shared array observable: a second path integral after ONE initialisation of the star
    multi = [w for w in walks if any(c in ('contrib', 'fullc', 'path') for c in w['calls'])]
    if len(multi) < 10 or not any('path' in w['calls'] for w in walks) or not any(w['isothermal'] for w in multi):
        raise Machinery('%s exports too few walks with several path integrals per initialisation (%d of %d)' % (cfg, len(multi), len(walks)))
    groups = {}
    for w in walks:
        groups.setdefault((w['kind'], tuple(w['tp']), w['sid']), []).append(w)
    cache = dict(bstar_spec=[7, 11], direct_ratios=ratios)
    for (kind, tp, sid), g in sorted(groups.items()):
        if only is not None and (kind, list(tp), sid) != only:
            continue
        check_walk_group(ctx, kind, list(tp), sid, g, cache)
    ctx.add_sample(dict(walk=dict(calls=walks[0]['calls'], kind=walks[0]['kind'], tp=walks[0]['tp'], src=walks[0]['src'],
                                  first_path=dict(sub=walks[0]['log'][0]['sub'], terms=walks[0]['log'][0]['res'][0]))))
    fx.reset_all()
    return len(walks)



HC_K_CM = fx.H_PLANCK * fx.C_LIGHT / fx.K_BOLTZ * 100.0        # h c / k in cm K


def planck_events(ctx, add, rng):
    """The repository's black_body against the harness's plain-Python evaluation over the whole regime of
    x = h c nu / k T (1e-4 .. 480: 1 .. 50000 cm^-1, 50 .. 40000 K; jittered per seed so that a switch-over point of a
    series / asymptotic form can sit anywhere), one `planck` event per pair, judged by TLC against the rounding the
    documented formula may carry (spec/PlanckTol.tla)."""
    from taurex.util.emission import black_body
    wns = [f * rng.uniform(0.7, 1.4) for f in (1, 2, 5, 10, 20, 50, 100, 200, 500, 1000, 2000, 5000, 10000, 20000, 45000)]
    wns += [10 ** rng.uniform(0.0, 4.6) for _ in range(6)]
    Ts = [f * rng.uniform(0.75, 1.3) for f in (50, 100, 200, 400, 800, 1500, 3000, 6000, 12000, 25000, 40000)]
    wn = np.array(sorted(wns))
    n = 0
    for T in Ts:
        try:
            got = np.asarray(black_body(wn, T), dtype=float)
            if got.shape != wn.shape:
                raise fxc.BadReturn('black_body(array of %d wavenumbers, %r) returned shape %r' % (len(wn), T, got.shape))
        except fxc.BadReturn as ex:
            ctx.verdict('planck_table', False, cls='planck:shape', detail=str(ex), vector=dict(what='planck', T=T))
            continue
        except Exception as ex:
            code_raised(ctx, ex, 'planck', dict(what='planck', T=T))
            continue
        for i, w in enumerate(wn):
            x = HC_K_CM * w / T
            if not 1.05e-4 <= x <= 480.0:
                continue
            exp = fx.planck_flux(w, T)
            dev = abs(float(got[i]) / exp - 1.0) if math.isfinite(float(got[i])) else float('inf')
            err = 2 ** 30 - 1 if not dev < 1e-7 else int(math.ceil(dev / U16))
            add(dict(ev='planck', xu=int(x * 1e4), err=err), 'planck:x~1e%d' % int(math.floor(math.log10(x))),
                'wn=%r T=%r x=%.4g: got %r, documented formula %r (relative deviation %.3g)' % (float(w), T, x, float(got[i]), exp, dev),
                dict(what='planck', wn=float(w), T=T, seed=ctx.seed))
            n += 1
    if n < 100:
        raise Machinery('only %d Planck pairs inside the regime 1e-4 <= x <= 480' % n)


# ----------------------------------------------------------------------------
# binding B
# ----------------------------------------------------------------------------

def random_atmos(rng, kind, iso):
    """Random layer count, temperatures, opacity magnitudes (transparent .. saturated), star, planet."""
    n = rng.randint(2, 30)
    nw = rng.randint(2, 5)
    wn = sorted(rng.uniform(300.0, 9000.0) for _ in range(nw))
    if iso:
        temps = [rng.uniform(300.0, 2500.0)] * n
    else:
        style = rng.random()
        if style < 0.4:
            temps = [rng.uniform(300.0, 2500.0) for _ in range(n)]
        elif style < 0.7:   # inversion-free decreasing
            t0 = rng.uniform(800.0, 2500.0)
            temps = [t0 * (1.0 - 0.6 * i / n) for i in range(n)]
        else:               # thermal inversion
            t0 = rng.uniform(400.0, 1200.0)
            temps = [t0 * (1.0 + 0.9 * i / n) for i in range(n)]
    a = fx.Atmos(kind, temps, wn, star_T=rng.uniform(3000.0, 7000.0), mix=10 ** rng.uniform(-6, -2),
                 planet_radius=rng.uniform(0.3, 2.0), planet_mass=rng.uniform(0.3, 3.0),
                 star_radius=rng.uniform(0.3, 2.0), distance=rng.uniform(1.0, 50.0),
                 pmin=10 ** rng.uniform(-2, 1), pmax=10 ** rng.uniform(4, 6.5), ngauss=rng.randint(1, 8),
                 with_grey=rng.random() < 0.4)
    mag = rng.choice([0.0, 1e-3, 0.1, 1.0, 1.0, 3.0, 20.0, 60.0])
    e = [[mag * rng.choice([0.0, 0.2, 1.0, 1.7]) * rng.uniform(0.5, 1.5) for _ in range(nw)] for _ in range(n)]
    a.set_layer_tau(e)
    tot = np.sum(np.array(e), axis=0) * fx.LN2
    a.tau_of = {'Absorption': tot.copy()}           # per contribution (sub-composition) column depth
    if a.grey is not None:
        c = [[rng.choice([0.0, 0.05, 0.5]) * rng.uniform(0.5, 1.5) for _ in range(nw)] for _ in range(n)]
        a.set_grey_tau(c)
        a.tau_of['LayerGrey'] = np.sum(np.array(c), axis=0) * fx.LN2
        tot = tot + a.tau_of['LayerGrey']
    a.total_tau = tot
    a.saturated = bool(tot.min() >= 10.0 - 1e-9)
    a.maybe_saturated = bool(tot.min() >= 10.0 - 1e-6)
    return a


def extreme_atmos(rng, kind, iso, j):
    """The ends of the quantifier that the uniform draws of random_atmos never reach: many emission angles asked for
    through the constructor keyword (size classes of spec/Trace_Emission.tla), 20..60 layers whose temperatures differ
    by 1e-3 .. 1e-7 relative from layer to layer (finely layered nearly-isothermal stretches), far-infrared and
    ultraviolet grids with cool / hot stars (Rayleigh-Jeans and Wien regimes of planet and star)."""
    ngauss = pick_ngauss(rng, j)
    regime = ('far_ir', 'uv', 'mid')[(j + j // 6) % 3]
    n = rng.randint(20, 60)
    nw = rng.randint(2, 5)
    if regime == 'far_ir':
        wn = sorted(10 ** rng.uniform(1.0, 2.5) for _ in range(nw))
        star_T = rng.uniform(3000.0, 7000.0)
    elif regime == 'uv':
        wn = sorted(10 ** rng.uniform(3.95, 4.6) for _ in range(nw))
        star_T = rng.uniform(3000.0, 12000.0)
    else:
        wn = sorted(rng.uniform(300.0, 9000.0) for _ in range(nw))
        star_T = rng.uniform(3000.0, 7000.0)
    t0 = rng.uniform(300.0, 2500.0)
    if iso:
        temps, prof = [t0] * n, 'isothermal'
    else:
        k = rng.choice([3, 4, 5, 6, 7])
        step = 10.0 ** -k * rng.choice([-1.0, 1.0])
        temps, prof = [t0 * (1.0 + step * i) for i in range(n)], 'steps1e-%d' % k
    a = fx.Atmos(kind, temps, wn, star_T=star_T, mix=10 ** rng.uniform(-6, -2),
                 planet_radius=rng.uniform(0.3, 2.0), planet_mass=rng.uniform(0.3, 3.0),
                 star_radius=rng.uniform(0.3, 2.0), distance=rng.uniform(1.0, 50.0),
                 pmin=10 ** rng.uniform(-2, 1), pmax=10 ** rng.uniform(4, 6.5), ngauss=ngauss,
                 with_grey=rng.random() < 0.4)
    mag = rng.choice([0.0, 1e-3, 0.1, 0.3, 1.0, 3.0])
    e = [[mag * rng.choice([0.0, 0.2, 1.0, 1.7]) * rng.uniform(0.5, 1.5) for _ in range(nw)] for _ in range(n)]
    a.set_layer_tau(e)
    tot = np.sum(np.array(e), axis=0) * fx.LN2
    a.tau_of = {'Absorption': tot.copy()}
    if a.grey is not None:
        c = [[rng.choice([0.0, 0.05, 0.5]) * rng.uniform(0.5, 1.5) for _ in range(nw)] for _ in range(n)]
        a.set_grey_tau(c)
        a.tau_of['LayerGrey'] = np.sum(np.array(c), axis=0) * fx.LN2
        tot = tot + a.tau_of['LayerGrey']
    a.total_tau = tot
    a.saturated = bool(tot.min() >= 10.0 - 1e-9)
    a.maybe_saturated = bool(tot.min() >= 10.0 - 1e-6)
    a.klass = 'extreme:%s:%s' % (regime, prof)
    return a


def scaled(x):
    m = int(round(x * S_TRACE))
    if abs(m) >= 2 ** 30:
        return 2 ** 30 - 1 if m > 0 else -(2 ** 30 - 1)
    return m


def random_katmos(rng, path, kind, iso):
    """Random atmosphere in correlated-k mode: 2..12 layers, 1..6 quadrature points, coefficients that differ
    across the points by up to three decades, columns from transparent (surface seen) to opaque."""
    n = rng.randint(2, 12)
    nw = rng.randint(2, 4)
    ngk = rng.randint(1, 6)
    wn = sorted(rng.uniform(300.0, 9000.0) for _ in range(nw))
    temps = [rng.uniform(300.0, 2500.0)] * n if iso else [rng.uniform(300.0, 2500.0) for _ in range(n)]
    k = fxk.KAtmos(path, kind, temps, wn, ngk, star_T=rng.uniform(3000.0, 7000.0), mix=10 ** rng.uniform(-6, -2),
                   planet_radius=rng.uniform(0.3, 2.0), planet_mass=rng.uniform(0.3, 3.0),
                   star_radius=rng.uniform(0.3, 2.0), distance=rng.uniform(1.0, 50.0),
                   pmin=10 ** rng.uniform(-2, 1), pmax=10 ** rng.uniform(4, 6.5), ngauss=rng.randint(1, 8),
                   with_grey=rng.random() < 0.4)
    if rng.random() < 0.4:
        wts = [float(x) / 2.0 for x in np.polynomial.legendre.leggauss(ngk)[1]]
    else:
        r = [rng.uniform(0.05, 1.0) for _ in range(ngk)]
        wts = [x / sum(r) for x in r]
    mag = rng.choice([1e-3, 0.05, 0.3, 1.0, 1.0, 3.0, 12.0])
    spread = rng.choice([0.0, 1.0, 2.0, 3.0])
    kk = [[[mag * rng.choice([0.0, 0.3, 1.0, 2.5]) * rng.uniform(0.2, 1.8) * 10 ** (spread * ((g + 0.5) / ngk - 0.5))
            for g in range(ngk)] for _ in range(nw)] for _ in range(n)]
    k.write(kk, wts)
    if k.grey is not None:
        k.set_grey([[rng.choice([0.0, 0.05, 0.5]) * rng.uniform(0.5, 1.5) for _ in range(nw)] for _ in range(n)])
    a = k.a
    a.saturated = a.maybe_saturated = False        # the k-table branch never clamps: no slack
    return a


_CALL_WALKS = {}


def call_walks(ctx=None, res=None):
    """The call sequences exported by TLC from spec/EmissionCalls.tla (quick config), once per process."""
    if 'w' not in _CALL_WALKS:
        if res is None:
            from ..core import run_tlc
            res = run_tlc('MC_EmissionCalls', 'MC_EmissionCalls_quick.cfg', workers=1, deque=True)
            if ctx is not None:
                ctx.add_tlc('calls-walks', res, counts=False)
        seqs = sorted({tuple(w['calls']) for w in res.tagged('WALK')})
        if len(seqs) < 8:
            raise Machinery('MC_EmissionCalls_quick.cfg exports only %d call sequences' % len(seqs))
        _CALL_WALKS['w'] = seqs
    return _CALL_WALKS['w']


def replay_calls_on_random(ctx, a, kind, kmode, iso, calls, add, vec, cls0, r0):
    """Binding B over the entry points: one TLC-generated call sequence on the SAME random model that has just been
    evaluated.  Every path integral it runs is the spectrum of an atmosphere (the whole composition, one contribution,
    one component): hot/cold bounds and the isothermal identity for each (events validated by Trace_Emission), and
    the shared arrays are re-read after every call."""
    m = a.model
    names = ['Absorption'] + (['LayerGrey'] if a.grey is not None else [])
    comps = [('Absorption', a.mol)] + ([('LayerGrey', 'grey')] if a.grey is not None else [])
    given = dict(('opacity[%s][%r]' % (a.mol, k), (v, np.array(v, dtype=float, copy=True))) for k, v in a.table.items())
    if a.grey is not None:
        given['sigma[LayerGrey]'] = (a.grey.table, np.array(a.grey.table, dtype=float, copy=True))
    tmin, tmax = min(a.temps), max(a.temps)
    blo = np.array([fx.planck_b(x, tmin) for x in a.wn])
    bhi = np.array([fx.planck_b(x, tmax) for x in a.wn])
    if kind == 'emission':
        geo = (a.rp_m / a.rs_m) ** 2
        unit = geo / np.array([fx.planck_b(x, a.star_T) for x in a.wn])          # out = 2F * unit
    else:
        unit = np.asarray(r0, dtype=float) * math.pi * (a.rp_m / a.d_m) ** 2     # calibrated on this model's own full evaluation
    trail, last_grid = [], a.wn
    for ci, entry in enumerate(calls):
        trail.append(entry)
        base = 'calls:%s%s:%s' % ('ktable:' if kmode else '', kind, '>'.join(trail))
        v = dict(vec, calls=list(calls), call=ci)
        before = fxc.exposed(m)
        o = fxc.run_entry(m, entry, last_grid, names, comps)
        last_grid = o.grid
        check_shared(ctx, before, m, given, a.wn, a.star_T, base, v)
        subs = {'contrib': names, 'fullc': names}.get(entry, [None])
        for sub, (label, got) in zip(subs, o.items):
            tau = None if kmode else (a.total_tau if sub is None else a.tau_of.get(sub))
            maybe = (not kmode) and tau is not None and bool(np.min(tau) >= 10.0 - 1e-6)
            cls = '%s:%s[%s]:%s:%s' % (base, entry, sub or 'all', 'iso' if iso else 'noniso', 'sat' if maybe else 'unsat')
            shape = (len(m._mu_quads), len(a.wn)) if entry == 'partial' else (len(a.wn),)
            if not shape_ok(got, shape):
                ctx.verdict('hot_cold_bounds', False, cls=cls, detail='%s returned %r' % (label, got), vector=v)
                continue
            val = got if entry == 'partial' else got / unit          # intensity, or 2F = sum of w mu I over sum w mu
            lo, hi = float(np.min(val / blo)), float(np.max(val / bhi))
            if not (math.isfinite(lo) and math.isfinite(hi)):
                ctx.verdict('hot_cold_bounds', False, cls=cls, detail='%s returned %r' % (label, got), vector=v)
                continue
            add(dict(ev='bounds', lo=scaled(lo), hi=scaled(hi), S=S_TRACE, sat=1 if maybe else 0, iso=0), cls,
                '%s after %s: value/cold >= %r, value/hot <= %r' % (label, ' '.join(trail[:-1]) or 'model()', lo, hi), v)
            if iso:
                top = float(np.max(val / blo))
                ok = lo >= 1 - 1e-12 and top <= 1 + (EXP_M10 if maybe else 0.0) + 1e-12
                ctx.verdict('isothermal_identity', ok, cls=cls,
                            detail='%s of an isothermal atmosphere after %s: value / blackbody ratio in [%r, %r]'
                                   % (label, ' '.join(trail[:-1]) or 'model()', lo, top), vector=v)



NG_CLASSES = [(1, 1), (2, 4), (5, 8), (9, 16), (17, 32), (33, 64)]      # spec/Trace_Emission.tla: NClass


def pick_ngauss(rng, i):
    lo, hi = NG_CLASSES[i % len(NG_CLASSES)]
    return rng.randint(lo, hi)


def exact_moments(mu, w, K):
    """sum_i w_i mu_i^k for k < K, exactly (the floats are dyadic rationals), rounded once."""
    mr = [float(x).as_integer_ratio() for x in mu]
    wr = [float(x).as_integer_ratio() for x in w]
    A = max(d.bit_length() - 1 for _, d in mr)
    B = max(d.bit_length() - 1 for _, d in wr)
    M = [n * (1 << A) // d for n, d in mr]
    W = [n * (1 << B) // d for n, d in wr]
    P = [1] * len(M)
    out = []
    for k in range(K):
        out.append(sum(wi * pi for wi, pi in zip(W, P)) / (1 << (B + A * k)))
        P = [pi * mi for pi, mi in zip(P, M)]
    return out


def evaluate_and_log(ctx, a, kind, iso, kmode, route, req, add, direct, vec):
    """partial_model() + model() of one random atmosphere: the quadrature it integrates over (number of points asked
    for through `route`, Gauss-Legendre facts on the nodes / weights the evaluation itself returns), hot/cold bounds,
    the isothermal identity, the direct-image law.  Returns (output, 2F per unit pi, class)."""
    m = a.model
    I, imu, w, _ = m.partial_model()
    _, out, _, _ = m.model()
    I = np.asarray(I, dtype=float)
    nq = I.shape[0] if I.ndim == 2 else -1
    qcls = 'quad:%s:%s:ngauss%d' % (route, kind, req)
    # "integrated over emission angle by Gauss-Legendre quadrature" with the number of points asked for
    ok_n = nq == req and np.size(imu) == req and np.size(w) == req and len(m._mu_quads) == req
    ctx.verdict('quadrature_points_as_requested', ok_n, cls=qcls,
                detail='%s model asked (%s) for %d angles integrates over %d (returns %d slant factors, %d weights)'
                       % (kind, route, req, nq, np.size(imu), np.size(w)), vector=vec)
    if nq < 1 or I.shape != (nq, len(a.wn)) or np.size(imu) != nq or np.size(w) != nq or len(m._mu_quads) != nq \
            or np.shape(out) != (len(a.wn),):
        raise fxc.BadReturn('partial_model() / model() of a %s model with %d angles (%s) returned shapes %r, %r, %r, %r'
                            % (kind, req, route, np.shape(I), np.shape(imu), np.shape(w), np.shape(out)))
    ng = nq
    # Gauss-Legendre facts of the quadrature actually used by this evaluation (returned 1/mu and weights; the stored
    # nodes must be the same numbers)
    imu_ = [float(x) for x in np.ravel(imu)]
    wq = [float(x) for x in np.ravel(w)]
    okq = all(math.isfinite(x) and x > 1.0 for x in imu_) and all(math.isfinite(x) and x > 0.0 for x in wq)
    mu = [1.0 / x for x in imu_] if okq else [float(x) for x in m._mu_quads]
    okq = okq and all(abs(x - float(y)) <= 4e-16 * x for x, y in zip(mu, m._mu_quads)) \
        and all(x == float(y) for x, y in zip(wq, m._wi_quads))
    add(dict(ev='quad', mu=[int(round(x * 10000)) for x in mu], w=[int(round(x * 10000)) for x in wq], S=10000, req=int(req), route=route),
        'quad:%s:ngauss%d' % (route, ng), 'mu=%r w=%r' % (mu[:6], wq[:6]), vec)
    # sharp, on the floats themselves: exactness for polynomials of degree <= 2n-1 on [0,1] (this pins the n-point rule:
    # Gauss-Legendre is the only n-point rule of that degree).  Rounding of nodes / weights moves a moment by <= n u.
    if okq:
        okq = all(0.0 < x < 1.0 for x in mu)
        mom = exact_moments(mu, wq, 2 * ng)
        okq = okq and all(abs(mom[k] - 1.0 / (k + 1)) <= 1e-13 for k in range(2 * ng))
    ctx.verdict('gauss_legendre_exact_degree', okq, cls='quad:%s:ngauss%d' % (route, ng), detail='mu=%r w=%r' % (mu[:8], wq[:8]), vector=vec)
    slack = 1 if a.maybe_saturated else 0
    cls0 = '%s%s:%s:%s:ngauss%d%s' % ('ktable:' if kmode else '', 'iso' if iso else 'noniso', 'sat' if a.saturated else 'unsat', kind, ng,
                                     '' if route == 'constructor' else ':' + route)
    if getattr(a, 'klass', None):
        cls0 = a.klass + ':' + cls0
    tmin, tmax = min(a.temps), max(a.temps)
    rI_lo, rI_hi, rF_lo, rF_hi = [], [], [], []
    twoF = 2.0 * np.sum(I * (w / imu), axis=0)      # per unit pi: flux_total / pi, from the model's own I
    for wi, wnv in enumerate(a.wn):
        blo, bhi = fx.planck_b(wnv, tmin), fx.planck_b(wnv, tmax)
        for ai in range(I.shape[0]):
            rI_lo.append(float(I[ai][wi]) / blo)
            rI_hi.append(float(I[ai][wi]) / bhi)
        if kind == 'emission':
            bs = fx.planck_b(wnv, a.star_T)
            geo = (a.rp_m / a.rs_m) ** 2
            rF_lo.append(float(out[wi]) / (blo / bs * geo))
            rF_hi.append(float(out[wi]) / (bhi / bs * geo))
        else:
            direct.append((float(out[wi]) / (math.pi * twoF[wi] * (a.rp_m / a.d_m) ** 2), cls0, vec))
    # one event per model: extreme ratios (min of value/cold, max of value/hot)
    add(dict(ev='bounds', lo=scaled(min(rI_lo)), hi=scaled(max(rI_hi)), S=S_TRACE, sat=slack, iso=0),
        cls0 + ':intensity', 'I/B_cold >= %r, I/B_hot <= %r' % (min(rI_lo), max(rI_hi)), vec)
    if kind == 'emission':
        add(dict(ev='bounds', lo=scaled(min(rF_lo)), hi=scaled(max(rF_hi)), S=S_TRACE, sat=slack, iso=0),
            cls0 + ':flux', 'F/ratio_cold >= %r, F/ratio_hot <= %r' % (min(rF_lo), max(rF_hi)), vec)
    if iso:
        add(dict(ev='bounds', lo=scaled(min(rI_lo)), hi=scaled(max(rI_lo)), S=S_TRACE, sat=slack, iso=1),
            cls0 + ':intensity_identity', 'I/B in [%r, %r]' % (min(rI_lo), max(rI_lo)), vec)
        # sharp (1e-12), on the floats
        lo_ok = min(rI_lo) >= 1 - 1e-12 and max(rI_lo) <= 1 + (EXP_M10 if a.maybe_saturated else 0.0) + 1e-12
        ctx.verdict('isothermal_identity', lo_ok, cls=cls0, detail='I/B in [%r, %r]' % (min(rI_lo), max(rI_lo)), vector=vec)
        if kind == 'emission':
            f_ok = min(rF_lo) >= 1 - 1e-12 and max(rF_lo) <= 1 + (EXP_M10 if a.maybe_saturated else 0.0) + 1e-12
            ctx.verdict('isothermal_identity', f_ok, cls=cls0, detail='flux/(B(T)/B(T*)(Rp/Rs)^2) in [%r, %r]' % (min(rF_lo), max(rF_lo)), vector=vec)
            add(dict(ev='bounds', lo=scaled(min(rF_lo)), hi=scaled(max(rF_lo)), S=S_TRACE, sat=slack, iso=1),
                cls0 + ':flux_identity', 'flux ratio in [%r, %r]' % (min(rF_lo), max(rF_lo)), vec)
    return out, twoF, cls0


def run_traces(ctx, n_models, n_k=0, n_x=0, planck=False, require_cover=False):
    with fx.TempDir() as kpath:
        _run_traces(ctx, n_models, n_k, kpath, n_x, planck, require_cover)


def _run_traces(ctx, n_models, n_k, kpath, n_x=0, planck=False, require_cover=False):
    rng = random.Random(ctx.seed * 104729 + 2)
    xrng = random.Random(ctx.seed * 104729 + 19)
    krng = random.Random(ctx.seed * 104729 + 7)
    wrng = random.Random(ctx.seed * 104729 + 13)
    seqs = call_walks(ctx)
    events, meta = [], {}
    direct = []

    def add(ev, cls, detail, vec):
        ev['id'] = len(events)
        events.append(ev)
        meta[ev['id']] = (cls, detail, vec)

    if planck:
        planck_events(ctx, add, random.Random(ctx.seed * 104729 + 23))
    for i in range(n_models + n_k + n_x):
        fx.reset_all()
        kmode = n_models <= i < n_models + n_k
        xmode = i >= n_models + n_k
        if xmode:
            j = i - n_models - n_k
            iso = (j % 2 == 0)
            kind = 'direct' if j % 4 == 1 else 'emission'
            vec = dict(trace=True, xmode=True, model_index=j, seed=ctx.seed)
        elif kmode:
            j = i - n_models
            iso = (j % 2 == 0)
            kind = 'direct' if j % 4 == 3 else 'emission'
            vec = dict(trace=True, kmode=True, model_index=j, seed=ctx.seed)
        else:
            iso = (i % 2 == 0)
            kind = 'direct' if i % 5 == 4 else 'emission'
            vec = dict(trace=True, model_index=i, seed=ctx.seed)
        try:
            a = extreme_atmos(xrng, kind, iso, j) if xmode else \
                (random_katmos(krng, kpath, kind, iso) if kmode else random_atmos(rng, kind, iso))
            m = a.model
            out, twoF, cls0 = evaluate_and_log(ctx, a, kind, iso, kmode, 'constructor', a.ngauss, add, direct, vec)
            calls = seqs[wrng.randrange(len(seqs))]
            r0 = None if kind == 'emission' else np.asarray(out, dtype=float) / (math.pi * twoF * (a.rp_m / a.d_m) ** 2)
            replay_calls_on_random(ctx, a, kind, kmode, iso, calls, add, vec, cls0, r0)
            # the other public route to the angle quadrature, on the SAME long-lived model: set_num_gauss(n), with n
            # walking through the size classes of the specification (Trace_Emission: NClass)
            jm = vec['model_index']                   # per model, so that a replay of one mode picks the same n
            n2 = pick_ngauss(random.Random(ctx.seed * 7919 + (2 if xmode else (1 if kmode else 0)) * 100003 + jm), jm + 3 + (2 if kmode else 0))
            m.set_num_gauss(n2)
            evaluate_and_log(ctx, a, kind, iso, kmode, 'set_num_gauss', n2, add, direct, dict(vec, set_num_gauss=n2))
        except fxc.BadReturn as ex:
            ctx.verdict('evaluates_without_error', False, cls='trace:model', detail=str(ex), vector=vec)
        except Exception as ex:
            code_raised(ctx, ex, 'trace:model', vec)
    # direct-image law as one stateful trace: every ratio equals the first one
    if direct:
        for r, cls0, vec in direct:
            add(dict(ev='direct', r=scaled(r), S=S_TRACE), cls0 + ':direct_law', 'direct/(pi 2F Rp^2/d^2) = %r' % r, vec)
        finish_direct_law(ctx, direct)
    fx.reset_all()
    if not events:
        if ctx.clauses.get('evaluates_without_error', {}).get('bad'):
            return          # every model raised: already reported as violations
        raise Machinery('no trace event was recorded')
    accepted, bad, res = validate_trace('Trace_Emission', 'Trace_Emission.cfg', events)
    ctx.add_tlc('trace-emission', res, counts=False)
    if res.postcondition_false and not bad:
        raise Machinery('Trace_Emission did not consume the whole trace:\n' + res.out[-1500:])
    badids = {b['id'] for b in bad}
    ctx.traces += len(events)
    if require_cover:
        # coverage of the quantifier is decided by the specification (Trace_Emission: QuadMissing, PlanckMissing)
        cover = res.tagged('COVER')
        if len(cover) != 1:
            raise Machinery('Trace_Emission printed %d COVER records' % len(cover))
        if cover[0]['quad'] or cover[0]['planck']:
            raise Machinery('the trace does not cover the classes of the specification: (route, size class of ngauss) %r, decades of x %r'
                            % (cover[0]['quad'], cover[0]['planck']))
    for ev in events:
        cls, detail, vec = meta[ev['id']]
        clause = 'planck_table' if ev['ev'] == 'planck' else 'trace_' + ev['ev']
        ctx.verdict(clause, ev['id'] not in badids, cls=cls, detail='TLC rejected event %r (%s)' % (ev, detail), vector=vec)
    ctx.add_sample(dict(trace_event=([e for e in events if e['ev'] == 'bounds'] or events)[0]))
    # canary
    good = [e for e in events if e['id'] not in badids and e['ev'] == 'bounds']
    if not good:
        if n_models + n_k + n_x == 0 or ctx.replay_mode:
            return          # Planck pairs only (replay) / every bounds event rejected during a replay
        raise Machinery('no event available for the canary')
    c = dict(good[len(good) // 2])
    c['lo'] = c['lo'] - 5000 if c['lo'] <= c['S'] + 10 else c['S'] - 5000
    ok2, bad2, _ = validate_trace('Trace_Emission', 'Trace_Emission.cfg', [c])
    if ok2 or not bad2:
        raise Machinery('canary accepted: Trace_Emission is vacuous')
    q = dict([e for e in events if e['ev'] == 'quad' and e['id'] not in badids][0])
    q['w'] = [2 * x for x in q['w']]
    canaries = [q]
    q2 = dict([e for e in events if e['ev'] == 'quad' and e['id'] not in badids][-1])
    q2['req'] = q2['req'] + 1                                   # not the number of points asked for
    canaries.append(q2)
    pl = [e for e in events if e['ev'] == 'planck' and e['id'] not in badids and e['xu'] < 100]
    if pl:
        canaries.append(dict(pl[0], err=pl[0]['xu'] * 5000))    # the first-order series 1/x: off by x/2
    for k, c_ in enumerate(canaries):
        c_['id'] = k
    ok3, bad3, _ = validate_trace('Trace_Emission', 'Trace_Emission.cfg', canaries)
    if ok3 or len(bad3) != len(canaries):
        raise Machinery('canaries (weights not halved / one point too few / Rayleigh-Jeans series) accepted: Trace_Emission is vacuous (%r)' % (bad3,))


# ----------------------------------------------------------------------------
# history independence of long-lived models (spec/Functional.tla)
# ----------------------------------------------------------------------------

def history_scenarios(ctx, root):
    """Settings a user changes between evaluations of ONE model: the spectral window passed to model(wngrid=..)
    (three windows with equally many native points, or two windows and the native grid), the star temperature,
    the planet radius, a temperature-profile parameter, the directory of k-tables."""
    native = fxk.linear_native()
    ksets = [fxk.KSet(root, 0, native, [0.05, 0.15, 0.3, 0.5], 2.0),
             fxk.KSet(root, 1, native, [0.25, 0.25, 0.5], 3.0),
             fxk.KSet(root, 2, native, [2.0 / 3.0, 1.0 / 3.0], 0.0)]
    W = fxk.WindowScenario
    return [W('emission:xsec', 'emission', 'xsec', ['window', 'star_T', 'T']),
            W('emission:xsec:isothermal', 'emission', 'xsec', ['window', 'star_T', 'T'], tprofile='iso', native_as_third=True),
            W('direct:xsec', 'direct', 'xsec', ['window', 'planet_radius', 'T']),
            W('emission:ktables', 'emission', 'ktables', ['window', 'star_T', 'kset'], ksets=ksets),
            W('direct:ktables', 'direct', 'ktables', ['window', 'kset', 'T'], ksets=ksets, native_as_third=True)]


def run_histories(ctx, nwalks):
    from .. import history
    with fx.TempDir() as root:
        fx.reset_all()
        scs = history_scenarios(ctx, root)
        history.run_history(ctx, scs, nwalks)
        for sc in scs:
            sc.require_equal_windows()
    fx.reset_all()


# ----------------------------------------------------------------------------
# settings walks on ONE long-lived model (spec/EmissionSettings.tla)
# ----------------------------------------------------------------------------

SETTINGS_WORLDS = dict(quick=[('emission', True), ('emission', False), ('direct', False)],
                       thorough=[('emission', True), ('emission', False), ('direct', False)])


def run_settings(ctx, cfg, res=None, only=None):
    """Every exported walk (MaxSets changes of a setting, evaluations in between or not, every start quadrature / mode)
    on every world of the tier."""
    if res is None:
        res = ctx.check_spec('settings-walks', 'MC_EmissionSettings', cfg, workers=1, deque=True)
    walks = res.tagged('SWALK')
    if '_routes_' in cfg:
        return run_settings_routes(ctx, cfg, walks, only)
    # what makes the remembered state observable: both quadrature routes in one walk in both orders, the count of the start
    # asked for again after a user rule, a mode switch after an evaluation, a radius change through both routes
    def has(w, *names):
        sets = [s[1] for s in w['walk'] if s[0] == 'set']
        return sets == list(names)
    need = [any(has(w, 'quadratures', 'num_gauss') and w['init']['quad'] == ['gauss', w['walk'][1][3]] for w in walks),
            any(has(w, 'num_gauss', 'quadratures') for w in walks),
            any(has(w, 'mode', 'mode') and w['walk'][1][0] == 'eval' for w in walks),
            any(has(w, 'rp', 'mode') for w in walks), any(has(w, 'mode', 'rp') for w in walks),
            {s[2] for w in walks for s in w['walk'] if s[1] == 'rp'} >= {'param', 'attr'},
            {w['init']['mode'] for w in walks} >= {'xsec', 'ktables'}]
    if len(walks) < 300 or not all(need):
        raise Machinery('%s exports too few settings walks (%d; coverage %r)' % (cfg, len(walks), need))
    nev = 0
    with fx.TempDir() as root:
        for kind, iso in SETTINGS_WORLDS['quick' if cfg.endswith('quick.cfg') else 'thorough']:
            if only is not None and only != (kind, iso):
                continue
            kd = os.path.join(root, '%s_%s' % (kind, iso))
            os.makedirs(kd)
            nev += fxs.run_world(ctx, fxs.World(kind, iso, kd, ctx.seed), walks, code_raised, cfg)
    ctx.add_sample(dict(settings_walk=walks[len(walks) // 2]))
    fx.reset_all()
    return nev


def run_settings_routes(ctx, cfg, walks, only=None):
    """Round 6, route x history: the walks over the settings that move the layer profiles (planet radius through both routes,
    temperature point, mixing ratio; opacity mode), evaluated through model() / model_contrib() / model_full_contrib()
    (thorough: partial_model() too) in every order."""
    def sets(w):
        return [s[1] for s in w['walk'] if s[0] == 'set']
    def last_eval_after(w, name, entry):      # a change of `name` directly followed by an evaluation through `entry`
        return any(a[0] == 'set' and a[1] == name and b[0] == 'eval' and b[1] == entry for a, b in zip(w['walk'], w['walk'][1:]))
    names = ('rp', 'tp', 'mix') + (('mode',) if {w['init']['mode'] for w in walks} >= {'xsec', 'ktables'} else ())
    need = [any(last_eval_after(w, n, e) for w in walks) for n in names for e in ('model', 'contrib', 'full_contrib')]
    need += [any(w['walk'][1][:2] == ['eval', 'model'] and w['walk'][-1][1] == e and sets(w)[1] == n for w in walks if len(w['walk']) == 4)
             for n in ('rp', 'tp', 'mix') for e in ('contrib', 'full_contrib')]
    if len(walks) < 250 or not all(need):
        raise Machinery('%s exports too few route walks (%d; coverage %r)' % (cfg, len(walks), need))
    nev = 0
    with fx.TempDir() as root:
        for kind, iso in SETTINGS_WORLDS['quick' if cfg.endswith('quick.cfg') else 'thorough']:
            if (only is not None and only != (kind, iso)) or (iso and cfg.endswith('quick.cfg')):
                continue         # quick: the worlds in which the layer profiles matter (thorough: all)
            kd = os.path.join(root, 'r_%s_%s' % (kind, iso))
            os.makedirs(kd)
            nev += fxs.run_world(ctx, fxs.World(kind, iso, kd, ctx.seed), walks, code_raised, cfg)
    ctx.add_sample(dict(settings_route_walk=walks[len(walks) // 2]))
    fx.reset_all()
    return nev


class Prefetch:
    """The TLC runs of this driver are independent of one another and of the Python-side replays: they are started
    ahead (at most `width` JVMs at a time, in the order they will be needed) and their results are consumed in the
    usual order.  Bookkeeping (ctx.add_tlc, vacuity / refutation checks of Ctx.check_spec / Ctx.expect_refuted) is
    done by the consuming thread exactly as those methods do it."""

    def __init__(self, width=3):
        from concurrent.futures import ThreadPoolExecutor
        self.pool = ThreadPoolExecutor(max_workers=width)
        self.fut = {}

    def submit(self, label, module, cfg, **kw):
        from ..core import run_tlc
        self.fut[label] = (self.pool.submit(run_tlc, module, cfg, **kw), module, cfg)

    def result(self, label):
        f, module, cfg = self.fut.pop(label)
        return f.result(), module, cfg

    def check_spec(self, ctx, label, need_actions=()):
        res, module, cfg = self.result(label)
        ctx.add_tlc(label, res)
        if res.violated:
            raise Machinery('spec %s/%s violates %s\n%s' % (module, cfg, res.violated, res.error_trace))
        for a in need_actions:
            if res.action_cov.get(a, (0, 0))[1] == 0:
                raise Machinery('vacuous: action %s of %s never taken in %s' % (a, module, cfg))
        if res.distinct == 0:
            raise Machinery('TLC reported 0 states for %s/%s' % (module, cfg))
        return res

    def expect_refuted(self, ctx, label, invariant):
        res, module, cfg = self.result(label)
        ctx.add_tlc(label, res, counts=False)
        if res.violated != invariant:
            raise Machinery('expected TLC to refute %s in %s/%s, got %r' % (invariant, module, cfg, res.violated))
        return res

    def close(self):
        for f, _, _ in self.fut.values():
            f.cancel()
        self.pool.shutdown(wait=True)


def _tick(label, _t=[None]):
    import time
    if os.environ.get('VERIF_TIMING'):
        now = time.time()
        if _t[0] is not None:
            print('TIMING %-28s %.1fs' % (label, now - _t[0]), flush=True)
        _t[0] = now


def run(ctx):
    q = ctx.tier == 'quick'
    _tick('start')
    ctx.bounds = dict(tier=ctx.tier,
                      exhaustive='3 layers x 2 wavenumbers, per-layer depth rows over {0,1,15} ln2 (quick) / {0,1,3,15} and 4 layers (thorough), '
                                 '3 temperatures, quadratures with 1/mu in {1,2,4}; k-table mode: 2 layers, 2-3 points, 6 rows, 2 weight sets',
                      vectors='3 (4) layers, rows with distinct depths incl. saturated columns, 6..27 temperature profiles, 5 quadratures, eclipse + direct; '
                              'k-table mode: 2-3 layers, 2-3 points with different coefficients, visible and opaque surfaces',
                      traces='random atmospheres 2..30 layers, 2..5 wavenumbers, ngauss 1..8, depths 0..60 ln2 per layer; random k-table atmospheres; '
                             'extreme atmospheres: 20..60 layers with temperature steps 1e-3..1e-7 relative, grids 10..316 and 9000..40000 cm-1, '
                             'ngauss up to 64 through the constructor and through set_num_gauss on every model; Planck pairs 1..50000 cm-1 x 50..40000 K',
                      readings='binding A under 7 (quick) / 9 (thorough) readings of the Planck table: spacing of the layer temperatures wide, 1e-3, 1e-5, '
                               '1e-6, 1e-8 relative; regimes x = h c nu / k T from 4e-4 (2 cm-1, 7000 K star) to 144 (40000 cm-1, 400 K); the two extreme '
                               'ones also in correlated-k mode',
                      calls='every walk of 2 (quick) / 3 (thorough) public calls over {model, partial_model, model_contrib, model_full_contrib, '
                            'path_integral} on one model with 3 opacity sources (2 molecules of one contribution + a grey contribution), 2-3 layers, '
                            '3-4 source sets (transparent, zero, saturating on its own), eclipse + direct; one such walk on every random atmosphere',
                      settings='every walk of 2 changes of a setting (planet radius by 2 routes, star temperature, star distance, set_num_gauss, '
                               'set_quadratures, opacity_method) with or without an evaluation in between, from every start quadrature x mode, on '
                               'emission iso / non-iso and direct-image models (7 layers, 4 wavenumbers); thorough: 3 counts, 2 user rules, '
                               'partial_model()',
                      history='TLC-generated set/eval walks (depth 9, 3 settings x 3 values) on long-lived Emission / DirectImage models')
    ctx.assumptions = ['Planck table: plain-Python CODATA-2018 evaluation (math.expm1) in the harness; the repository kernel is compared with it pair by '
                       'pair within the rounding spec/PlanckTol.tla licenses for the documented formula, 1e-14 + 2^-52 (2/x + 4x)',
                       'exact comparisons at 1e-12 + twice the licensed Planck rounding of the reading (derivation in spec/MC_Emission.tla)',
                       'per-layer cross-sections are scaled with the model\'s own deltaz and densityProfile (layer geometry is C11)',
                       'k-table files: PickleKTable layout written by the harness; pressure grid = layer pressures, values constant in T',
                       'history: every model owns the opacity / k-table objects it has loaded (installed in the cache singletons '
                       'through their public API for its own evaluations)',
                       'call walks: a bare path_integral(grid) is only issued after model() / partial_model() / path_integral() '
                       '(the state model() documents as prepared); the walks of one configuration are replayed one after the other on one object',
                       'TLC + CommunityModules Json/IOUtils; exported term lists evaluated with Python Fractions']
    pf = Prefetch(width=3 if q else 4)
    try:
        _run(ctx, q, pf)
    finally:
        pf.close()


def _run(ctx, q, pf):
    # ---- every TLC run of the driver, started ahead in the order the results are consumed
    ex_cfgs = ['EX_Emission_quick.cfg', 'EX_Emission_quads.cfg'] if q else \
              ['EX_Emission_thorough.cfg', 'EX_Emission_quads.cfg', 'EX_Emission_thorough4.cfg']
    ip_cfg = 'EX_Emission_interp.cfg' if q else 'EX_Emission_interp_thorough.cfg'
    k_cfgs = ['EX_EmissionK_quick.cfg', 'EX_EmissionK_quick3.cfg'] if q else ['EX_EmissionK_thorough.cfg', 'EX_EmissionK_quick3.cfg']
    s_cfg = 'EX_EmissionSettings_quick.cfg' if q else 'EX_EmissionSettings_thorough.cfg'
    sr_cfg = 'EX_EmissionSettings_routes_quick.cfg' if q else 'EX_EmissionSettings_routes_thorough.cfg'
    c_cfgs = ['MC_EmissionCalls_quick.cfg'] if q else ['MC_EmissionCalls_thorough.cfg', 'MC_EmissionCalls_thorough3.cfg']
    exhaustive = [('exhaustive', 'MC_Emission', 'MC_Emission_%s.cfg' % ctx.tier, ('Surface', 'Layer', 'Integrate', 'Normalise')),
                  ('exhaustive-quadratures', 'MC_Emission', 'MC_Emission_quads.cfg', ())]
    if not q:
        exhaustive += [('exhaustive-4-layers', 'MC_Emission', 'MC_Emission_thorough4.cfg', ()),
                       # the stale-source variant satisfies every OTHER clause: only PerLayerSource (and the exact vectors) see it
                       ('consequences-blind-to-stale-source', 'MC_Emission', 'MC_Emission_refute_source_others.cfg', ())]
    if not q:       # quick: the clauses are checked on the bounded walks of the export run
        exhaustive += [('exhaustive-settings', 'MC_EmissionSettings', 'MC_EmissionSettings_all.cfg',
                        ('SetPhys', 'SetNumGauss', 'SetQuadratures', 'SetMode', 'Eval'))]
    exhaustive += [('exhaustive-ktable', 'MC_EmissionK', 'MC_EmissionK_quick.cfg', ('EKEmit', 'EKIntegrate', 'EKNormalise')),
                   ('exhaustive-ktable-3-points', 'MC_EmissionK', 'MC_EmissionK_quick3.cfg', ())]
    if not q:
        exhaustive += [('exhaustive-ktable-3-layers', 'MC_EmissionK', 'MC_EmissionK_thorough.cfg', ())]
    big = ('exhaustive', 'exhaustive-4-layers', 'exhaustive-ktable-3-layers') if not q else ()

    def submit_exhaustive(only_big):
        for label, module, cfg, acts in exhaustive:
            if (label in big) == only_big:
                pf.submit(label, module, cfg, workers=8 if label in big else 6, deque=True, coverage=bool(acts))

    pf.submit('export-' + ip_cfg[3:-4], 'MC_Emission', ip_cfg, workers=1, deque=True)
    pf.submit('export-' + ex_cfgs[0][3:-4], 'MC_Emission', ex_cfgs[0], workers=1, deque=True)
    # thorough: the three long exhaustive runs (minutes) go next, so that they run while the vectors are replayed
    submit_exhaustive(True)
    pf.submit('export-' + k_cfgs[0][3:-4], 'MC_EmissionK', k_cfgs[0], workers=1, deque=True)       # the slowest export
    for cfg in ex_cfgs[1:]:
        pf.submit('export-' + cfg[3:-4], 'MC_Emission', cfg, workers=1, deque=True)
    for cfg in k_cfgs[1:]:
        pf.submit('export-' + cfg[3:-4], 'MC_EmissionK', cfg, workers=1, deque=True)
    for cfg in c_cfgs:
        pf.submit('calls-' + cfg[17:-4], 'MC_EmissionCalls', cfg, workers=1, deque=True)
    pf.submit('settings-walks', 'MC_EmissionSettings', s_cfg, workers=1, deque=True)
    pf.submit('settings-route-walks', 'MC_EmissionSettings', sr_cfg, workers=1, deque=True)
    refutes = [('refute-clamp-one-side', 'MC_Emission', 'MC_Emission_refute_clamp.cfg', 'Telescoping'),
               ('refute-range-off-by-one', 'MC_Emission', 'MC_Emission_refute_range.cfg', 'IsothermalIdentity'),
               ('refute-weights', 'MC_Emission', 'MC_Emission_refute_weights.cfg', 'FluxIsothermalIdentity'),
               ('refute-source-reused-while-temperature-close', 'MC_Emission', 'MC_Emission_refute_source.cfg', 'PerLayerSource'),
               ('refute-slant-outside-k-sum', 'MC_EmissionK', 'MC_EmissionK_refute_slant.cfg', 'EKTelescoping'),
               ('refute-star-spectrum-rescaled-in-place', 'MC_EmissionCalls', 'MC_EmissionCalls_refute_sed.cfg', 'EveryPathDocumented')]
    refutes += [('refute-geometry-factor-computed-at-build', 'MC_EmissionSettings', 'MC_EmissionSettings_refute_geometry_at_build.cfg', 'EvalUsesCurrent'),
                ('refute-set_num_gauss-skips-remembered-count', 'MC_EmissionSettings', 'MC_EmissionSettings_refute_same_count_skipped.cfg', 'EvalUsesCurrent'),
                ('refute-opacity-mode-memoised', 'MC_EmissionSettings', 'MC_EmissionSettings_refute_mode_memoised.cfg', 'EvalUsesCurrent'),
                ('refute-contribution-routes-reuse-profiles', 'MC_EmissionSettings', 'MC_EmissionSettings_refute_profiles_once.cfg', 'EvalUsesCurrent')]
    if not q:
        refutes += [('refute-star-spectrum-rescaled-in-place (shared arrays)', 'MC_EmissionCalls', 'MC_EmissionCalls_refute_sed_readonly.cfg', 'InputsReadOnly'),
                    ('refute-opacity-rescaled-in-place', 'MC_EmissionCalls', 'MC_EmissionCalls_refute_opacity.cfg', 'EveryPathDocumented')]
    for label, module, cfg, inv in refutes:
        pf.submit(label, module, cfg, workers=1 if module in ('MC_EmissionCalls', 'MC_EmissionSettings') else 2, allow_violation=True)
    submit_exhaustive(False)
    _tick('submitted')

    # ---- binding A
    ratios = []          # the direct-image constant is one number over BOTH opacity modes
    res = pf.check_spec(ctx, 'export-' + ip_cfg[3:-4])
    run_interp_vectors(ctx, ip_cfg, ip_cfg[3:-4], ratios, res=res)
    _tick('vectors ' + ip_cfg)
    ips = _INTERPS[ip_cfg]
    for cfg in ex_cfgs:
        run_vectors(ctx, cfg, cfg[3:-4], ratios, res=pf.check_spec(ctx, 'export-' + cfg[3:-4]))
        _tick('vectors ' + cfg)
    # correlated-k mode (the 3-point export) under further readings: quick -- the closest spacing TLC exported and the one
    # spanning most decades of x; thorough -- every exported reading
    close_ips = sorted((i for i in ips.values() if i.prefix and 'close' in i.id), key=lambda i: i.idx)
    kips = (close_ips[-1:] + [i for i in ips.values() if i.id == 'farir']) if q else [ips[i] for i in sorted(ips) if i != 1]
    for n_, cfg in enumerate(k_cfgs):
        run_kvectors(ctx, cfg, cfg[3:-4], ratios, res=pf.check_spec(ctx, 'export-' + cfg[3:-4]),
                     interps=kips if n_ == len(k_cfgs) - 1 else ())
        _tick('vectors ' + cfg)
    # ---- binding C
    for cfg in c_cfgs:
        run_calls(ctx, cfg, cfg[17:-4], ratios, res=pf.check_spec(ctx, 'calls-' + cfg[17:-4]))
        _tick('calls ' + cfg)
    finish_direct_law(ctx, ratios)
    # ---- settings walks
    run_settings(ctx, s_cfg, res=pf.check_spec(ctx, 'settings-walks'))
    _tick('settings ' + s_cfg)
    run_settings(ctx, sr_cfg, res=pf.check_spec(ctx, 'settings-route-walks'))
    _tick('settings ' + sr_cfg)
    # ---- binding B
    run_traces(ctx, 60 if q else 600, 16 if q else 160, 12 if q else 120, planck=True, require_cover=True)
    _tick('traces')
    run_histories(ctx, 8 if q else 80)
    _tick('histories')
    # ---- design-level runs (started at the beginning)
    for label, module, cfg, inv in refutes:
        pf.expect_refuted(ctx, label, inv)
    _tick('refutations')
    for label, module, cfg, acts in exhaustive:
        pf.check_spec(ctx, label, need_actions=acts)
    ctx.exhaustive = True
    _tick('exhaustive')


def replay_interp(vec, done):
    """The reading of the Planck table a violated vector was replayed under, re-exported by TLC (InterpTable)."""
    if not vec.get('interp'):
        return None
    if not done:
        from ..core import run_tlc
        done.update(interps_of(run_tlc('MC_Emission', 'EX_Emission_interp_thorough.cfg', workers=1, deque=True),
                               'EX_Emission_interp_thorough.cfg'))
    return done[vec['interp']]


def replay(ctx, violations):
    """Vectors are replayed one by one; trace cases are regenerated from (seed, model index); histories are re-run."""
    done_trace = done_ktrace = done_hist = done_xtrace = done_planck = False
    done_interp = {}
    done_calls = set()
    for v in violations:
        vec = v['vector'] or {}
        if vec.get('calls_walk'):
            # the walks of one (model class, temperature profile, source set) are replayed on one object, as in run()
            cfg = 'MC_EmissionCalls_thorough3.cfg' if len(vec['tp']) == 3 else \
                  ('MC_EmissionCalls_thorough.cfg' if len(vec['calls']) == 3 else 'MC_EmissionCalls_quick.cfg')
            key = (cfg, vec['kind'], tuple(vec['tp']), vec['sid'])
            if key not in done_calls:
                done_calls.add(key)
                ratios = []
                run_calls(ctx, cfg, 'replay', ratios, only=(vec['kind'], list(vec['tp']), vec['sid']))
                for r, cls, vv in [it[:3] for it in ratios]:
                    ctx.verdict('direct_image_proportional', math.isfinite(r) and r > 0, cls=cls, detail='ratio %r' % r, vector=vv)
        elif vec.get('settings_walk'):
            key = ('settings', vec['kind'], vec['iso'])
            if key not in done_calls:
                done_calls.add(key)
                ctx.seed = vec.get('seed', ctx.seed)
                run_settings(ctx, vec['cfg'], only=(vec['kind'], vec['iso']))
        elif vec.get('history'):
            if not done_hist:
                run_histories(ctx, 8)
                done_hist = True
        elif vec.get('trace') and vec.get('xmode'):
            if not done_xtrace:
                ctx.seed = vec.get('seed', ctx.seed)
                run_traces(ctx, 0, 0, max(vec.get('model_index', 0) + 1, 12))
                done_xtrace = True
        elif vec.get('trace') and vec.get('kmode'):
            if not done_ktrace:
                ctx.seed = vec.get('seed', ctx.seed)
                run_traces(ctx, 0, max(vec.get('model_index', 0) + 1, 16))
                done_ktrace = True
        elif vec.get('trace'):
            if not done_trace:
                ctx.seed = vec.get('seed', ctx.seed)
                run_traces(ctx, max(vec.get('model_index', 0) + 1, 60))
                done_trace = True
        elif vec.get('what') == 'planck':
            if not done_planck:
                ctx.seed = vec.get('seed', ctx.seed)
                run_traces(ctx, 0, 0, 0, planck=True)
                done_planck = True
        elif 'kint' in vec:
            cache = dict(bstar_spec=[7, 11], direct_ratios=[])
            with fx.TempDir() as d:
                check_kvector_group(ctx, d, vec['tp'], [vec], cache, replay_interp(vec, done_interp))
            for r, cls, vv in [it[:3] for it in cache['direct_ratios']]:
                ctx.verdict('direct_image_proportional', math.isfinite(r) and r > 0, cls=cls, detail='ratio %r' % r, vector=vv)
        else:
            cache = dict(bstar_spec=[7, 11], direct_ratios=[])
            check_vector_group(ctx, vec['tp'], [vec], cache, replay_interp(vec, done_interp))
            for r, cls, vv in [it[:3] for it in cache['direct_ratios']]:
                # a single vector cannot establish the law; compare with the constant seen at the pinned commit's formula
                ctx.verdict('direct_image_proportional', math.isfinite(r) and r > 0, cls=cls, detail='ratio %r' % r, vector=vv)
    fx.reset_all()
