"""C19 -- clouds and hazes act only inside their declared pressure range.

Spec: spec/Clouds.tla (deck rule, haze window, admissible interval per layer, reference mechanisms,
documented depth integral), spec/MC_Clouds.tla (exhaustive, non-uniform grids, every bound position
and "unset" in both orders + export), spec/Trace_Clouds.tla (verdict per logged event).
Binding A: every exported (grid, bounds / deck) through the real SimpleCloudsContribution,
           FlatMieContribution and LeeMieContribution (.prepare -> sigma_xsec) and through
           TransmissionModel.model() with and without the contribution; the logged outcome is judged
           by TLC with the operators of Clouds.tla (+ exact-zero / 1e-12 checks on the Python side).
Binding B: random grids (SimplePressureProfile, ArrayPressureProfile, explicit levels; 2..100 layers),
           bounds inside / on levels / on layer pressures / above / below the atmosphere / unset /
           inverted, random magnitudes and particle parameters; same events, same judge; canaries.
           Every model also holds a band-saturating absorber (line comb: cores with tau >> 10 next to
           windows with tau << 1 in the same layer); "mix" events compare the transmittance with the
           cloud / haze added BEFORE and AFTER that absorber with the product of the two alone at every
           layer and wavenumber (MixOk of Clouds.tla, design model MC_CloudsMix).  Long-lived worlds:
           ONE contribution object per kind and ONE model whose pressure range is changed through the
           fitting parameters between events (nlayers unchanged), judged by the same clauses.
Several slabs: spec/MC_CloudsSlabs.tla (2..3 decks / grey / Lee hazes with their OWN ranges in ONE model, prepared one
           after the other from the arrays the model exposes; frame condition ExposedGridUntouched; expected
           counterexamples: a slab leaves its working representation in the exposed level / layer array).
           Binding A': TLC-simulated slab lists replayed on real objects in one real model, in the listed, the
           reversed and a rotated order, with / without the band absorber: the sigma_xsec EVERY slab holds after
           each run is judged with the slab's own bounds (ordinary haze / deck events), the transmittance with
           the product of the runs with each slab alone ("slabs" events); the same on random grids and on the
           long-lived worlds (first slab of a kind = the long-lived object, further ones new objects).
           Every event of every binding carries `frame`: the exposed arrays of the model (EXPOSED) and the
           wavenumber grid handed to prepare() are re-read after prepare() / model() and compared with private
           copies (clause model_arrays_untouched).
Routes (round 4): spec/MC_CloudsRoutes.tla -- what is INTEGRATED must obey the declared range on every route by which a
           contribution reaches the path integral: prepare() / model() / model_contrib() (the yielded arrays are summed
           into sigma_xsec) and the caller-iterated prepare_each() / model_full_contrib() (the path integral reads
           whatever sigma_xsec holds at the yield), at every use of a long-lived object whose bounds are changed through
           its setters.  Expected counterexamples: the generator leaves its working (reversed) array / nothing in the
           attribute; both are invisible on the routes of the summing mechanism (MC_CloudsRoutes_blind.cfg holds).
           Binding A'': TLC-simulated sequences of two uses (route, bounds) replayed on ONE real object in one real model;
           the random events of binding B draw their route as well.  Every haze / deck event carries `route`.
Partial layers (round 4): each contribution is bound to ITS documented partial-layer rule (clause partial_layer_rule):
           the grey haze weights with the covered fraction of the layer in log pressure (Clouds!FlatFrac, exact rationals
           exported by TLC: 1e-12 on the exported grids; on random grids TLC re-computes the fraction from the logged
           positions with the tolerance their rounding implies, Clouds!FlatRuleOk), the Lee haze selects by layer pressure
           (LeeMask / LeeRuleOk).  MC_Clouds: WindowExtentConserved, FlatIsCoveredFraction; expected counterexample
           FlatRule = "edges" (only the outermost selected layers weighted; a window inside one layer loses a bound).
Deck writers (round 5): spec/MC_CloudsDeckSet.tla -- the cloud top in force is the LAST value written, by the constructor
           keyword, the property setter or model['clouds_pressure'], on atmospheres whose bottom lies at 1e6 .. 1e8 Pa
           (and thin ones reaching above 1e-3 Pa) and for tops from above the grid to two dex below its bottom.  Expected counterexamples: later writes capped at
           the default bounds of the parameter (invisible on atmospheres of the default depth: _blind.cfg holds) /
           later writes ignored.  Binding D: TLC-simulated write sequences replayed on ONE real deck in one real model.
Binding C: spec/Functional.tla walks (harness/history.py) on one long-lived model with a deck / grey haze /
           Lee haze: pressure range, temperature, cloud and haze bounds changed through model[<fitting
           parameter>]; sigma_xsec, transmittance and depth must equal those of a freshly built model.
"""
import math
import random

import numpy as np

from ..core import Machinery, validate_trace, run_tlc
from ..fx_vertical import dec, LevelsPressureProfile, clear_opacities, register_flat_opacity

S = 100000000          # scale of sigma / declared magnitude in the trace (1e-8 resolution)
PPB = 1000             # slack of the depth inequality (1e-6 relative, float summation order)
PPB_MIX = 200          # product of two 9-digit observations against a third
WN = np.array([600.0, 1100.0, 2500.0, 4000.0, 9000.0])
COMB_CM2 = [3.0e-17, 1.0e-29, 3.0e-17, 1.0e-29, 1.0e-18]     # line cores / windows of the comb absorber
STATS = dict(mixed_layers=0, mix_events=0, licensed_layers=0)
HAZE_CLAUSES = ['haze_evaluates', 'haze_wellformed', 'haze_finite_nonnegative', 'none_outside_window',
                'declared_magnitude_inside', 'partial_within_interval', 'partial_layer_rule', 'unset_means_whole_atmosphere',
                'declared_wavelength_law']
# routes by which a contribution reaches the path integral (MC_CloudsRoutes!Routes)
ROUTES = ('prepare', 'model', 'contrib', 'each', 'full')
DECK_CLAUSES = ['opaque_at_and_below_deck', 'untouched_above']
DECK_MODEL_CLAUSES = ['model_opaque_at_and_below_deck', 'model_untouched_above', 'depth_at_least_opaque_integral']
MIX_CLAUSES = ['mix_wellformed', 'model_transmittance_is_product']
SLABS_CLAUSES = ['slabs_wellformed', 'slabs_transmittance_is_product']
FRAME_CLAUSE = 'model_arrays_untouched'
# every array a model exposes to the contributions it prepares (by reference)
EXPOSED = [('pressure_levels', lambda m: m.pressure.pressure_profile_levels),
           ('pressure_layers', lambda m: m.pressureProfile),
           ('temperature', lambda m: m.temperatureProfile),
           ('density', lambda m: m.densityProfile),
           ('altitude', lambda m: m.altitudeProfile),
           ('scaleheight', lambda m: m.scaleheight_profile),
           ('gravity', lambda m: m.gravity_profile),
           ('deltaz', lambda m: m.deltaz),
           ('active_mix', lambda m: m.chemistry.activeGasMixProfile),
           ('inactive_mix', lambda m: m.chemistry.inactiveGasMixProfile),
           ('mu', lambda m: m.chemistry.muProfile),
           ('wngrid_native', lambda m: m.nativeWavenumberGrid)]


def snapshot(model):
    """private copies of the contents of every exposed array"""
    out = {}
    for name, get in EXPOSED:
        try:
            a = get(model)
            out[name] = None if a is None else np.array(a, dtype=float, copy=True)
        except Exception:
            out[name] = None
    return out


def same_array(a, b):
    if a is None or b is None:
        return a is None and b is None
    return a.shape == b.shape and bool(np.array_equal(a, b, equal_nan=True))


def _imports():
    from taurex.model import TransmissionModel
    from taurex.data.planet import Planet
    from taurex.data.stellar import BlackbodyStar
    from taurex.data.profiles.pressure import SimplePressureProfile
    from taurex.data.profiles.pressure.arraypressure import ArrayPressureProfile
    from taurex.data.profiles.temperature import Isothermal
    from taurex.data.profiles.chemistry import TaurexChemistry, ConstantGas
    from taurex.contributions import (AbsorptionContribution, SimpleCloudsContribution, FlatMieContribution,
                                      LeeMieContribution)
    return locals()


def setup():
    X = _imports()
    clear_opacities()
    register_flat_opacity('H2O', WN, value_cm2=3.0e-23)
    register_comb_opacity()
    return X


def register_comb_opacity():
    """A second absorber whose cross-section is huge at some wavenumbers (line cores) and negligible at
    others (windows), the same at every (T, P) node: in the middle of the atmosphere a layer is opaque in
    the cores and transparent in the windows."""
    from taurex.cache import OpacityCache
    from ..fixtures import GridOpacity
    x = np.empty((2, 2, WN.shape[0]))
    x[:, :, :] = np.array(COMB_CM2)[None, None, :]
    OpacityCache().add_opacity(GridOpacity('CH4', WN, [10.0, 1.0e5], [1.0e-12, 1.0e12], x))


# --------------------------------------------------------------------------- real objects
class World:
    """One built TransmissionModel (gas absorption only) on a given pressure grid + its clear run."""

    def __init__(self, X, pp, T=900.0, mix=1e-3, planet=(0.8, 1.1)):
        chem = X['TaurexChemistry'](fill_gases=['H2', 'He'], ratio=0.17)
        chem.addGas(X['ConstantGas']('H2O', mix_ratio=mix))
        chem.addGas(X['ConstantGas']('CH4', mix_ratio=mix))
        self.X = X
        self.keep = {}           # long-lived contribution objects (after-history events)
        self.model = X['TransmissionModel'](planet=X['Planet'](*planet), star=X['BlackbodyStar'](), pressure_profile=pp,
                                            temperature_profile=X['Isothermal'](T=T), chemistry=chem)
        self.absorption = X['AbsorptionContribution']()
        self.model.add_contribution(self.absorption)
        self.model.build()
        self.n = int(self.model.nLayers)
        self.levels = np.asarray(self.model.pressure.pressure_profile_levels, dtype=float).copy()
        self.layers = np.asarray(self.model.pressureProfile, dtype=float).copy()
        self._clear = None
        self.touched = set()     # exposed arrays found modified since the current event started
        self.ref = None          # what the model computed: taken on the first evaluation with gas absorption only

    def check_frame(self):
        """re-read every array the model exposes and compare with the private copy of what the model computed
        for the same settings (every prepare() / model() below is preceded by a re-computation of the profiles,
        which is deterministic, so any difference was written by a contribution)"""
        if self.ref is None:
            return
        now = snapshot(self.model)
        for name, _ in EXPOSED:
            if not same_array(now[name], self.ref[name]):
                self.touched.add(name)

    def clear(self):
        if self._clear is None:
            self.model.contribution_list = [self.absorption]
            self.model.initialize_profiles()
            first = snapshot(self.model)
            g, depth, tr, _ = self.model.model()
            self._clear = (np.array(depth, dtype=float), np.array(tr, dtype=float))
            if self.ref is None:
                self.ref = first
            self.check_frame()
        return self._clear

    def with_contribution(self, c):
        self.clear()
        self.model.contribution_list = [self.absorption, c]
        self.model.contribution_list.sort(key=lambda x: x.order)
        try:
            g, depth, tr, _ = self.model.model()
        finally:
            self.model.contribution_list = [self.absorption]
            self.check_frame()
        return np.array(depth, dtype=float), np.array(tr, dtype=float)

    def run_list(self, lst):
        """model() with exactly the contributions `lst`, added in that order through the public API path
        (build() sorts by the contributions' declared order, stable)."""
        self.clear()
        self.model.contribution_list = list(lst)
        try:
            self.model.build()
            g, depth, tr, _ = self.model.model()
        finally:
            self.model.contribution_list = [self.absorption]
            self.check_frame()
        return np.array(depth, dtype=float), np.array(tr, dtype=float)

    def regrid(self, pmin, pmax):
        """change the pressure range of the SAME model through its fitting parameters (nlayers unchanged)"""
        if pmax is not None:
            self.model['atm_max_pressure'] = pmax
        if pmin is not None:
            self.model['atm_min_pressure'] = pmin
        self.model.initialize_profiles()
        self.levels = np.asarray(self.model.pressure.pressure_profile_levels, dtype=float).copy()
        self.layers = np.asarray(self.model.pressureProfile, dtype=float).copy()
        self._clear = None
        self.ref = None

    def prepare(self, c):
        self.clear()
        self.model.initialize_profiles()
        wn = WN.copy()
        try:
            c.prepare(self.model, wn)
        finally:
            self.check_frame()
            if not same_array(wn, WN):
                self.touched.add('wngrid_argument')
        return np.array(c.sigma_xsec, dtype=float)


    def prepare_each(self, c):
        """route "each": the caller iterates the generator (as model_full_contrib does) and the path integral reads
        whatever the attribute sigma_xsec holds at the yield -> that array"""
        self.clear()
        self.model.initialize_profiles()
        wn = WN.copy()
        held, ny = None, 0
        try:
            for _name, _comp in c.prepare_each(self.model, wn):
                ny += 1
                held = np.array(c.sigma_xsec, dtype=float)
        finally:
            self.check_frame()
            if not same_array(wn, WN):
                self.touched.add('wngrid_argument')
        if ny != 1:
            raise ValueError('prepare_each yielded %d components' % ny)
        return held

    def entry_rows(self, c, entry):
        """routes "contrib" / "full": model_contrib() / model_full_contrib() of the model holding the gas absorber and c
        -> (the array c holds afterwards, transmittance of the spectrum computed with c alone)"""
        self.clear()
        self.model.contribution_list = [self.absorption, c]
        self.model.contribution_list.sort(key=lambda x: x.order)
        try:
            if entry == 'contrib':
                _, d = self.model.model_contrib()
                tr = np.array(d[c.name][1], dtype=float)
            else:
                _, d = self.model.model_full_contrib()
                comps = d[c.name]
                if len(comps) != 1:
                    raise ValueError('model_full_contrib returned %d components for %s' % (len(comps), c.name))
                tr = np.array(comps[0][2], dtype=float)
            lst = list(self.model.contribution_list)
            if len(lst) != 2 or self.absorption not in lst or c not in lst:
                raise ValueError('%s left the model with the contributions %r' % (entry, [x.name for x in lst]))
        finally:
            self.model.contribution_list = [self.absorption]
            self.check_frame()
        return np.array(c.sigma_xsec, dtype=float), tr

    def sigma_by_route(self, c, route):
        """-> (sigma the path integral reads on that route, rows of the spectrum with c alone or None)"""
        if route in ('prepare', 'model'):
            return self.prepare(c), None
        if route == 'each':
            return self.prepare_each(c), None
        return self.entry_rows(c, route)


def route_tag(route, use=1):
    return ('' if route in ('prepare', 'model') else ':route=' + route) + ('' if use == 1 else ':use%d' % use)


def lee_magnitude(radius_um, q, mix):
    """Documented Lee et al. law: Qext = 5 / (Q x^-4 + x^0.2), x = 2 pi a / lambda; sigma = Qext pi a^2 mix (m^2)."""
    out = []
    for wn in WN:
        lam = 10000.0 / wn
        x = 2.0 * math.pi * radius_um / lam
        qext = 5.0 / (q * x ** -4.0 + x ** 0.2)
        out.append(qext * math.pi * (radius_um * 1e-6) ** 2 * mix)
    return np.array(out)


def scaled_rows(sigma, mag):
    """sigma[n, nw] / mag[nw] scaled by S, for three wavenumbers; -1 for NaN / Inf / negative."""
    ms = []
    for w in (0, len(WN) // 2, len(WN) - 1):
        row = []
        for k in range(sigma.shape[0]):
            v = sigma[k, w] / mag[w]
            if v != v or abs(v) == float('inf') or v < 0 or v > 20.0:
                row.append(-1 if not (v > 20.0) else 20 * S)
            else:
                row.append(int(round(v * S)))
        ms.append(row)
    return ms


def bound_value(b, pos2p):
    return -1 if not b['set'] else pos2p(b['x'])


def make_haze(X, kind, pb, pt, par, reuse=None):
    """a new contribution, or the long-lived one `reuse` with its settings changed through the setters
    behind the fitting parameters"""
    if kind == 'flat':
        if reuse is None:
            c = X['FlatMieContribution'](flat_mix_ratio=par['mix'], flat_bottomP=pb, flat_topP=pt)
        else:
            c = reuse
            c.mieMixing, c.mieBottomPressure, c.mieTopPressure = par['mix'], pb, pt
        return c, np.full(len(WN), par['mix'])
    if reuse is None:
        c = X['LeeMieContribution'](lee_mie_radius=par['a'], lee_mie_q=par['q'], lee_mie_mix_ratio=par['mix'],
                                    lee_mie_bottomP=pb, lee_mie_topP=pt)
    else:
        c = reuse
        c.mieRadius, c.mieQ, c.mieMixing, c.mieBottomPressure, c.mieTopPressure = par['a'], par['q'], par['mix'], pb, pt
    return c, lee_magnitude(par['a'], par['q'], par['mix'])


def tobs(x):
    """transmittance -> decimal observation; below 1e-50 it is 0 (far beyond the exp(-10) licence)"""
    x = float(x)
    if x == x and 0.0 <= x < 1e-50:
        return [0, 0]
    return dec(x)


def mix_event(world, eid, c):
    """The cloud / haze `c` next to the band-saturating absorber in ONE model: transmittance with the
    absorber alone, with c alone, and with both in either order of addition."""
    world.touched = set()
    depth0, ta = world.clear()
    e = dict(ev='mix', id=eid, ppb=PPB_MIX, ta=[], th=[], tb=[], raised=False, frame=[])
    try:
        _, th = world.run_list([c])
        both = [world.run_list([world.absorption, c])[1], world.run_list([c, world.absorption])[1]]
    except Exception as ex:
        e['raised'] = True
        e['exception'] = repr(ex)[:200]
        return e
    finally:
        e['frame'] = sorted(world.touched)
    e['ta'] = obs_rows(ta, world.n)
    e['th'] = obs_rows(th, world.n)
    e['tb'] = [obs_rows(tb, world.n) for tb in both]
    cut = math.exp(-10.0)
    hz = np.any((th < 0.999) & (th > 0.0), axis=1) if th.shape == ta.shape else np.zeros(len(ta), bool)
    STATS['mix_events'] += 1
    STATS['mixed_layers'] += int(np.sum((ta.min(axis=1) < cut) & (ta.max(axis=1) > 0.5) & hz))
    STATS['licensed_layers'] += int(np.sum(ta.max(axis=1) < cut))
    return e


def haze_event(world, eid, kind, lev_pos, b, t, pb, pt, par, run_model, mix=False, reuse=None, route='prepare', cen2=None, pu=1):
    """Drive the real contribution through `route`; log what happened.  cen2: twice the positions of the layer
    pressures (default: mid-points of the level positions), pu: uncertainty of the positions (1 rounded, 0 exact)."""
    X = world.X
    if cen2 is None:
        cen2 = [lev_pos[k] + lev_pos[k + 1] for k in range(len(lev_pos) - 1)]
    e = dict(ev='haze', id=eid, kind=kind, lev=lev_pos, b=b, t=t, S=S, raised=False, model=False, ms=[], rowsame=[], rowle=[], frame=[],
             cen2=cen2, pu=pu, route=route)
    info = dict(pb=pb, pt=pt, par=par)
    if route not in ('prepare', 'model'):
        info['route'] = route
    world.touched = set()
    rows = None
    try:
        c, mag = make_haze(X, kind, pb, pt, par, reuse)
        sigma, rows = world.sigma_by_route(c, route)
    except Exception as ex:      # an exception is an outcome of the code under test, judged by the spec
        e['raised'] = True
        e['frame'] = sorted(world.touched)
        info['exception'] = repr(ex)[:200]
        return e, info, None, None
    e['frame'] = sorted(world.touched)
    if sigma.shape != (world.n, len(WN)):
        e['ms'] = [[]]
        return e, info, sigma, mag
    e['ms'] = scaled_rows(sigma, mag)
    if rows is not None:
        # the spectrum the entry point computed with the haze alone: a row is "the same as without the haze" when it is 1
        if rows.ndim == 2 and rows.shape[0] == world.n:
            e['model'] = True
            e['rowsame'] = [bool(np.all(rows[k] == 1.0)) for k in range(world.n)]
            e['rowle'] = [bool(np.all(rows[k] <= 1.0)) for k in range(world.n)]
        else:
            e['ms'] = [[]]
            info['malformed'] = 'transmittance of shape %r' % (rows.shape,)
    elif run_model and route in ('prepare', 'model'):
        try:
            depth0, tr0 = world.clear()
            depth1, tr1 = world.with_contribution(c)
            e['model'] = True
            e['rowsame'] = [bool(np.array_equal(tr1[k], tr0[k])) for k in range(world.n)]
            e['rowle'] = [bool(np.all(tr1[k] <= tr0[k] * (1 + 1e-14))) for k in range(world.n)]
        except Exception as ex:
            e['raised'] = True
            info['exception'] = repr(ex)[:200]
        e['frame'] = sorted(world.touched)
    if e['frame']:
        info['modified_in_place'] = list(e['frame'])
    if mix and not e['raised']:
        info['_mix'] = mix_event(world, eid + ':mix', c)
    return e, info, sigma, mag


def write_deck_param(world, c, pdeck):
    """writer "param": model['clouds_pressure'] = p on the model that holds the deck (what every optimizer does)"""
    m = world.model
    world.clear()
    m.contribution_list = [world.absorption, c]
    try:
        m.build()
        m['clouds_pressure'] = pdeck
    finally:
        m.contribution_list = [world.absorption]


def deck_event(world, eid, cen2, deckpos, pdeck, run_model, mix=False, reuse=None, route='prepare', writer='setter'):
    """writer (MC_CloudsDeckSet!Writers): how the cloud top reaches a long-lived object -- "setter" (the property),
    "param" (the model's fitting parameter), "ctor" (`reuse` has just been constructed with pdeck)"""
    X = world.X
    info = dict(pdeck=pdeck)
    if reuse is None:
        c = X['SimpleCloudsContribution'](clouds_pressure=pdeck)
    else:
        c = reuse
        try:
            if writer == 'param':
                write_deck_param(world, c, pdeck)
            elif writer == 'setter':
                c.cloudsPressure = pdeck
        except Exception as ex:      # a write that raises is an outcome of the code under test
            info['write_exception'] = repr(ex)[:200]
    world.touched = set()
    if route not in ('prepare', 'model'):
        info['route'] = route
    try:
        sigma = world.sigma_by_route(c, route)[0]
    except Exception as ex:      # an outcome of the code under test: no layer gets a class, the deck clauses fail
        sigma = None
        info['exception'] = repr(ex)[:200]
    e = deck_record(eid, cen2, deckpos, sigma, world.n)
    e['route'] = route
    if run_model:
        n = world.n
        e['model'] = True
        e['iszero'], e['issame'] = [False] * n, [False] * n
        e['z'], e['dz'] = [[-1, 0]] * n, [[-1, 0]] * n
        try:
            depth0, tr0 = world.clear()
            depth1, tr1 = world.with_contribution(c)
            m = world.model
            if tr1.shape == tr0.shape and tr1.ndim == 2 and tr1.shape[0] == n and depth1.shape == depth0.shape and depth1.ndim == 1 \
                    and len(m.altitudeProfile) == n and len(m.deltaz) == n:
                e['iszero'] = [bool(np.all(tr1[k] == 0.0)) for k in range(n)]
                e['issame'] = [bool(np.array_equal(tr1[k], tr0[k])) for k in range(n)]
                e['z'] = [dec(x) for x in m.altitudeProfile]
                e['dz'] = [dec(x) for x in m.deltaz]
                e['rad'] = dec(m.planet.fullRadius)
                e['rs'] = dec(m.star.radius)
                w = int(np.argmin(depth1 / depth0))
                e['depth'] = dec(float(np.min(depth1)))
                e['dw'], e['cw'] = dec(float(depth1[w])), dec(float(depth0[w]))
            else:
                info['malformed'] = 'shapes %r %r' % (tr1.shape, depth1.shape)
        except Exception as ex:  # likewise: every model-level deck clause fails
            info['exception'] = repr(ex)[:200]
    e['frame'] = sorted(world.touched)
    if e['frame']:
        info['modified_in_place'] = list(e['frame'])
    if mix:
        info['_mix'] = mix_event(world, eid + ':mix', c)
    return e, info


def deck_record(eid, cen2, deckpos, sigma, n):
    """class of sigma_xsec per layer (a wrong shape is an outcome: every layer 'other')"""
    sig = []
    ok = sigma is not None and getattr(sigma, 'ndim', 0) == 2 and sigma.shape[0] == n
    for k in range(n):
        if not ok:
            sig.append('other')
            continue
        row = sigma[k]
        sig.append('inf' if np.all(np.isposinf(row)) else ('zero' if np.all(row == 0.0) else 'other'))
    return dict(ev='deck', id=eid, cen2=cen2, deck=deckpos, sig=sig, model=False, iszero=[], issame=[], z=[], dz=[],
                rad=[0, 0], rs=[0, 0], depth=[0, 0], dw=[0, 0], cw=[0, 0], ppb=PPB, frame=[])


def obs_rows(tr, n):
    a = np.asarray(tr, dtype=float)
    if a.ndim != 2:
        return []
    return [[tobs(x) for x in row] for row in a]


def make_slab(X, sp, reuse=None):
    if sp['kind'] == 'deck':
        if reuse is None:
            return X['SimpleCloudsContribution'](clouds_pressure=sp['pdeck']), None
        reuse.cloudsPressure = sp['pdeck']
        return reuse, None
    return make_haze(X, sp['kind'], sp['pb'], sp['pt'], sp['par'], reuse)


def slab_cls(sp, grid, lev_pos, hist=''):
    if sp['kind'] == 'deck':
        return 'deck:%s%s:%s' % (grid, hist, sp.get('dc', 'any'))
    inv = sp['b']['set'] and sp['t']['set'] and sp['b']['x'] < sp['t']['x']
    return '%s:%s%s:b=%s:t=%s%s' % (sp['kind'], grid, hist, sp.get('cb') or bclass(sp['b'], lev_pos),
                                   sp.get('ct') or bclass(sp['t'], lev_pos), ':inverted' if inv else '')


def slabs_event(world, eid, specs, lev_pos, cen2, grid, with_abs, hist='', reuse=None, pu=1):
    """SEVERAL clouds / hazes in ONE model (specs: kind + own bounds / deck + magnitude each): model() with all of
    them in the listed order, in the reversed order (and a rotation for three), with or without the band-
    saturating absorber (first / last in the list).  After every such run the sigma_xsec EVERY slab holds is
    logged as an ordinary haze / deck event with the slab's own bounds; the main event compares the transmittance
    with all of them with the product of the transmittances with each alone.
    -> (main event, info, [(slab event, cls, info, sub, sigma, mag, index)])"""
    X = world.X
    m = len(specs)
    e = dict(ev='slabs', id=eid, ppb=PPB_MIX, alone=[], tb=[], raised=False, frame=[])
    info = dict(slabs=[{k: v for k, v in sp.items() if k in ('kind', 'pb', 'pt', 'pdeck', 'par')} for sp in specs], with_absorber=with_abs)
    subs = []
    world.touched = set()
    try:
        objs, used = [], set()
        for sp in specs:
            r = None
            if reuse is not None and sp['kind'] not in used:      # the long-lived object of that kind, then new ones
                if sp['kind'] not in reuse:
                    reuse[sp['kind']] = make_slab(X, sp)[0]
                r = reuse[sp['kind']]
            used.add(sp['kind'])
            objs.append(make_slab(X, sp, r))
        if with_abs:
            e['alone'].append(obs_rows(world.clear()[1], world.n))
        for c, _ in objs:
            e['alone'].append(obs_rows(world.run_list([c])[1], world.n))
        orders = [list(range(m)), list(range(m))[::-1]] + ([[1, 2, 0]] if m == 3 else [])
        for o, order in enumerate(orders):
            lst = [objs[j][0] for j in order]
            if with_abs:
                lst = [world.absorption] + lst if o % 2 == 0 else lst + [world.absorption]
            prep = sorted([c for c in lst if c is not world.absorption], key=lambda c: c.order)   # build() sorts likewise (stable)
            e['tb'].append(obs_rows(world.run_list(lst)[1], world.n))
            for j, sp in enumerate(specs):
                c, mag = objs[j]
                sub = ':o%d:s%d' % (o, j)
                try:
                    sigma = np.array(c.sigma_xsec, dtype=float)
                except Exception:
                    sigma = None
                if sp['kind'] == 'deck':
                    se = deck_record(eid + sub, cen2, sp['deckpos'], sigma, world.n)
                else:
                    se = dict(ev='haze', id=eid + sub, kind=sp['kind'], lev=lev_pos, b=sp['b'], t=sp['t'], S=S, raised=False,
                              model=False, ms=[[]], rowsame=[], rowle=[], frame=[], cen2=cen2, pu=pu, route='model')
                    if sigma is not None and sigma.shape == (world.n, len(WN)):
                        se['ms'] = scaled_rows(sigma, mag)
                before = [specs[objs_index(objs, x)]['kind'] for x in prep[:prep.index(c)]]
                cls = '%s:slab%dof%d:after=%s%s' % (slab_cls(sp, grid, lev_pos, hist), len(before) + 1, m, '+'.join(before) or 'none',
                                                    ':with-band-absorber' if with_abs else '')
                subs.append((se, cls, dict(info, slab=j, order=order), sub, sigma, mag, j))
    except Exception as ex:
        e['raised'] = True
        e['exception'] = repr(ex)[:200]
    e['frame'] = sorted(world.touched)
    if e['frame']:
        info['modified_in_place'] = list(e['frame'])
    return e, info, subs


def objs_index(objs, c):
    for j, (x, _) in enumerate(objs):
        if x is c:
            return j
    raise Machinery('contribution not in the list')


def exact_checks(ctx, e, adm, sigma, mag, cls, vec, f=None):
    """Python-side sharpening of the TLC verdict: exactly zero outside, 1e-12 inside (skipped for the
    empty-window reading of inverted bounds, which TLC has accepted)."""
    if sigma is None or e['raised'] or getattr(sigma, 'ndim', 0) != 2 or sigma.shape != (len(adm), len(WN)):
        return        # (a malformed array is reported by haze_wellformed)
    if vec.get('inv') and not np.any(sigma):
        return
    for k, (lo, hi) in enumerate(adm):
        if hi == 0:
            ctx.verdict('none_outside_window', bool(np.all(sigma[k] == 0.0)), cls=cls + ':exact-zero',
                        detail='layer %d wholly outside the window has sigma %r' % (k, sigma[k].tolist()), vector=vec)
        elif lo == 1:
            ok = bool(np.all(np.abs(sigma[k] / mag - 1.0) <= 1e-12))
            ctx.verdict('declared_magnitude_inside', ok, cls=cls + ':1e-12',
                        detail='layer %d wholly inside: sigma/declared = %r' % (k, (sigma[k] / mag).tolist()), vector=vec)
        elif f is not None:
            # a partial layer: the contribution's documented rule, exact rational from TLC (FlatFrac / LeeMask).  The
            # fraction is a quotient of differences of log10 of exposed pressures (|log10 P| <= 7, each within 1e-15)
            # by a layer width >= 1 dex on these grids: 1e-12 absolute is three decades above its rounding
            want = f[k][0] / f[k][1]
            ok = bool(np.all(np.abs(sigma[k] / mag - want) <= 1e-12))
            if e['kind'] == 'lee' and any(x['set'] and 2 * x['x'] == e['cen2'][k] for x in (e['b'], e['t'])):
                # a declared bound that coincides with the layer pressure (measure zero): selected or not, both readings pass
                ok = ok or bool(np.all(sigma[k] == 0.0))
            ctx.verdict('partial_layer_rule', ok, cls=cls + ':1e-12',
                        detail='layer %d partly inside the window: sigma/declared = %r, documented rule (%s) gives %d/%d'
                               % (k, (sigma[k] / mag).tolist()[:3], 'covered fraction of the layer in log pressure' if e['kind'] == 'flat'
                                  else 'layer selected by its layer pressure', f[k][0], f[k][1]), vector=vec)


def bclass(b, lev_pos):
    if not b['set']:
        return 'unset'
    x = b['x']
    if x > lev_pos[0]:
        return 'below-surface'
    if x < lev_pos[-1]:
        return 'above-top'
    if x in lev_pos:
        return 'on-level'
    return 'inside'


def haze_cls(kind, grid, b, t, lev_pos):
    inv = b['set'] and t['set'] and b['x'] < t['x']
    return '%s:%s:b=%s:t=%s%s' % (kind, grid, bclass(b, lev_pos), bclass(t, lev_pos), ':inverted' if inv else '')


# --------------------------------------------------------------------------- judge with TLC
def judge(ctx, events, meta, label):
    if not events:
        raise Machinery('no events for ' + label)
    accepted, bad, res = validate_trace('Trace_Clouds', 'Trace_Clouds.cfg', [e for e in events if not (e['ev'] in ('mix', 'slabs') and e['raised'])], timeout=1500)
    ctx.add_tlc('trace-' + label, res, counts=False)
    if res.postcondition_false and not bad:
        raise Machinery('trace spec did not consume the whole trace:\n' + res.out[-1500:])
    badids = {b['id']: set(b['why']) for b in bad}
    for e in events:
        why = badids.get(e['id'], set())
        cls, vec, info = meta[e['id']]
        if e['ev'] == 'haze':
            clauses = HAZE_CLAUSES + (['model_rows_untouched_outside_window'] if e['model'] else []) + [FRAME_CLAUSE]
        elif e['ev'] in ('mix', 'slabs'):
            clauses = (MIX_CLAUSES if e['ev'] == 'mix' else SLABS_CLAUSES) + [FRAME_CLAUSE]
            if e['raised']:
                ctx.verdict(e['ev'] + '_evaluates', False, cls=cls, detail='model() raised: %s' % e.get('exception'), vector=dict(vec, event=dict(id=e['id'])))
                continue
            vec = dict(vec, event=dict(id=e['id'], ev=e['ev']))     # the rows are regenerated on replay
            for c in clauses:
                ctx.verdict(c, c not in why, cls=cls, detail='TLC rejected %s: %s; %s' % (e['id'], sorted(why), info), vector=vec)
            continue
        else:
            clauses = DECK_CLAUSES + (DECK_MODEL_CLAUSES if e['model'] else []) + [FRAME_CLAUSE]
        for c in clauses:
            ctx.verdict(c, c not in why, cls=cls, detail='TLC rejected %s: %s; %s' % (e['id'], sorted(why), info),
                        vector=dict(vec, event=e))
    return badids


# --------------------------------------------------------------------------- binding A
def world_for_grid(X, lev_pos, pclass, cache):
    key = (tuple(lev_pos), pclass)
    if key not in cache:
        n = len(lev_pos) - 1
        if pclass == 'simple':
            pp = X['SimplePressureProfile'](n, 10.0 ** (lev_pos[-1] / 2.0), 10.0 ** (lev_pos[0] / 2.0))
        else:
            pp = LevelsPressureProfile([10.0 ** (x / 2.0) for x in lev_pos])
        cache[key] = World(X, pp)
    return cache[key]


def pos2p_factory(world, lev_pos):
    cen = {(lev_pos[k] + lev_pos[k + 1]) // 2: k for k in range(len(lev_pos) - 1)}
    lv = {x: k for k, x in enumerate(lev_pos)}

    def pos2p(x):
        if x in lv:
            return float(world.levels[lv[x]])
        if x in cen:
            return float(world.layers[cen[x]])
        return 10.0 ** (x / 2.0)
    return pos2p


MIX_EVERY = 12


def run_vectors(ctx, vecs, X, rng):
    cache = {}
    events, meta, post = [], {}, []
    pars = dict(flat=dict(mix=3.0e-27), lee=dict(a=0.7, q=40.0, mix=2.0e-12))
    for j, v in enumerate(vecs):
        lev_pos = v['lev']
        n = len(lev_pos) - 1
        sp = {lev_pos[k] - lev_pos[k + 1] for k in range(n)}
        pclasses = ['levels'] + (['simple'] if len(sp) == 1 else [])
        for pclass in pclasses:
            world = world_for_grid(X, lev_pos, pclass, cache)
            pos2p = pos2p_factory(world, lev_pos)
            eid = 'A%d:%s' % (j, pclass)
            mix = (j % MIX_EVERY == 0)
            if v['kind'] == 'deck':
                cen2 = [lev_pos[k] + lev_pos[k + 1] for k in range(n)]
                e, info = deck_event(world, eid, cen2, v['deck'], pos2p(v['deck']), True, mix=mix)
                d = v['deck']
                dc = 'below-surface' if 2 * d > cen2[0] else ('above-top' if 2 * d <= cen2[-1] else ('on-layer-pressure' if 2 * d in cen2 else 'inside'))
                cls = 'deck:%s:%s' % (pclass, dc)
                meta[eid] = (cls, dict(v, pclass=pclass), info)
                events.append(e)
            else:
                kind = v['kind']
                e, info, sigma, mag = haze_event(world, eid, kind, lev_pos, v['b'], v['t'], bound_value(v['b'], pos2p),
                                                 bound_value(v['t'], pos2p), pars[kind], True, mix=mix, pu=0)
                cls = haze_cls(kind, pclass, v['b'], v['t'], lev_pos)
                meta[eid] = (cls, dict(v, pclass=pclass), info)
                events.append(e)
                post.append((e, v['adm'], sigma, mag, cls, dict(v, pclass=pclass), v['f']))
            m = info.pop('_mix', None)
            if m is not None:
                meta[m['id']] = (cls + ':with-band-absorber', dict(v, pclass=pclass, mix=True), dict(info))
                events.append(m)
    judge(ctx, events, meta, 'vectors')
    for e, adm, sigma, mag, cls, vec, f in post:
        exact_checks(ctx, e, adm, sigma, mag, cls, vec, f)
    ctx.add_sample(dict(vector_event=events[0]))
    return len(events)


# --------------------------------------------------------------------------- binding A': slab lists generated by TLC
SLAB_PARS = dict(flat=[dict(mix=3.0e-27), dict(mix=7.0e-27), dict(mix=1.1e-26)],
                 lee=[dict(a=0.7, q=40.0, mix=2.0e-12), dict(a=0.3, q=20.0, mix=5.0e-12), dict(a=1.5, q=60.0, mix=1.0e-12)])


def slab_specs_from_vector(v, pos2p):
    lev_pos = v['lev']
    cen2 = [lev_pos[k] + lev_pos[k + 1] for k in range(len(lev_pos) - 1)]
    specs = []
    for j, sl in enumerate(v['slabs']):
        if sl['kind'] == 'deck':
            d = sl['deck']
            dc = 'below-surface' if 2 * d > cen2[0] else ('above-top' if 2 * d <= cen2[-1] else ('on-layer-pressure' if 2 * d in cen2 else 'inside'))
            specs.append(dict(kind='deck', deckpos=d, pdeck=pos2p(d), dc=dc))
        else:
            specs.append(dict(kind=sl['kind'], b=sl['b'], t=sl['t'], pb=bound_value(sl['b'], pos2p), pt=bound_value(sl['t'], pos2p),
                              par=SLAB_PARS[sl['kind']][j % 3], adm=sl['adm'], inv=sl['inv'], f=sl.get('f')))
    return specs, cen2


def slab_vector_events(X, v, pclass, with_abs, eid, cache):
    world = world_for_grid(X, v['lev'], pclass, cache)
    specs, cen2 = slab_specs_from_vector(v, pos2p_factory(world, v['lev']))
    e, info, subs = slabs_event(world, eid, specs, v['lev'], cen2, pclass, with_abs, pu=0)
    kinds = '+'.join(sp['kind'] for sp in specs)
    return e, 'slabs:%s:%s%s' % (pclass, kinds, ':with-band-absorber' if with_abs else ''), info, subs, specs


def run_slab_vectors(ctx, X, nwalks):
    """Binding A' (MC_CloudsSlabs): behaviours of the design model (a grid, 2..3 slabs of any kind with their own
    bounds, in an order) generated by TLC, replayed on real contribution objects in ONE real model."""
    res = run_tlc('MC_CloudsSlabs', 'SIM_CloudsSlabs.cfg', workers=1, simulate='num=%d' % nwalks, depth=12, seed=ctx.seed + 19)
    ctx.add_tlc('simulate-slabs', res, counts=False)
    vecs = res.tagged('SLABS')
    if res.violated or len(vecs) < nwalks // 2:
        raise Machinery('MC_CloudsSlabs simulation: %d slab lists, violated=%r' % (len(vecs), res.violated))
    cache, events, meta, post = {}, [], {}, []
    for j, v in enumerate(vecs):
        n = len(v['lev']) - 1
        sp = {v['lev'][k] - v['lev'][k + 1] for k in range(n)}
        for pclass in ['levels'] + (['simple'] if len(sp) == 1 else []):
            eid = 'S%d:%s' % (j, pclass)
            with_abs = (j % 2 == 1)
            e, cls, info, subs, specs = slab_vector_events(X, v, pclass, with_abs, eid, cache)
            base = dict(slabvec=v, pclass=pclass, with_abs=with_abs)
            meta[eid] = (cls, base, info)
            events.append(e)
            for se, scls, sinfo, sub, sigma, mag, idx in subs:
                meta[se['id']] = (scls, dict(base, sub=sub), sinfo)
                events.append(se)
                if se['ev'] == 'haze':
                    post.append((se, specs[idx]['adm'], sigma, mag, scls, dict(base, sub=sub, inv=specs[idx]['inv']), specs[idx].get('f')))
    ctx.traces += len(vecs)
    ctx.add_sample(dict(slabs_vector=vecs[0]))
    ctx.note("binding A': %d TLC-generated lists of 2..3 slabs in one model, %d events (judged together with the random events)" % (len(vecs), len(events)))
    return events, meta, post


# --------------------------------------------------------------------------- binding A'': route sequences generated by TLC
def route_vector_events(X, v, pclass, eid, cache):
    """One behaviour of MC_CloudsRoutes: ONE contribution object in one model, used twice -- its bounds set through the
    setters behind the fitting parameters, then evaluated through the listed route -> [(event, cls, info, adm, sigma, mag, f, inv)]"""
    world = world_for_grid(X, v['lev'], pclass, cache)
    lev_pos = v['lev']
    pos2p = pos2p_factory(world, lev_pos)
    n = len(lev_pos) - 1
    cen2 = [lev_pos[k] + lev_pos[k + 1] for k in range(n)]
    out, obj = [], None
    for j, u in enumerate(v['uses']):
        uid = '%s:u%d' % (eid, j)
        tag = route_tag(u['route'], j + 1)
        if v['kind'] == 'deck':
            d = u['deck']
            if obj is None:
                obj = X['SimpleCloudsContribution'](clouds_pressure=pos2p(d))
            e, info = deck_event(world, uid, cen2, d, pos2p(d), u['route'] == 'model', reuse=obj, route=u['route'])
            dc = 'below-surface' if 2 * d > cen2[0] else ('above-top' if 2 * d <= cen2[-1] else ('on-layer-pressure' if 2 * d in cen2 else 'inside'))
            out.append((e, 'deck:%s:%s%s' % (pclass, dc, tag), info, None, None, None, None, False))
        else:
            par = SLAB_PARS[v['kind']][j % 3]
            pb, pt = bound_value(u['b'], pos2p), bound_value(u['t'], pos2p)
            if obj is None:
                obj = make_haze(X, v['kind'], pb, pt, par)[0]
            e, info, sigma, mag = haze_event(world, uid, v['kind'], lev_pos, u['b'], u['t'], pb, pt, par, u['route'] == 'model',
                                             reuse=obj, route=u['route'], pu=0)
            out.append((e, haze_cls(v['kind'], pclass, u['b'], u['t'], lev_pos) + tag, info, u['adm'], sigma, mag, u['f'], u['inv']))
    return out


def deckset_cls(v, use, pclass):
    lev = v['lev']
    n = len(lev) - 1
    cen2 = [lev[k] + lev[k + 1] for k in range(n)]
    d = v['uses'][use]['deck']
    dc = 'below-surface' if 2 * d > cen2[0] else ('above-top' if 2 * d <= cen2[-1] else ('on-layer-pressure' if 2 * d in cen2 else 'inside'))
    return 'deck:%s:%s:written-by=%s:grid=1e%g..1e%g%s' % (pclass, dc, v['uses'][use]['w'], lev[0] / 2.0, lev[-1] / 2.0, '' if use == 0 else ':use%d' % (use + 1))


def deckset_vector_events(X, v, pclass, eid, cache, routes=None):
    """One behaviour of MC_CloudsDeckSet: ONE deck in one model (whose bottom may lie deeper than the default 1e6 Pa); its
    cloud top written by the constructor, then by the property setter / the model's fitting parameter, one evaluation
    after every write -> [(event, cls, info, expected opaque mask)]"""
    world = world_for_grid(X, v['lev'], pclass, cache)
    lev_pos = v['lev']
    pos2p = pos2p_factory(world, lev_pos)
    n = len(lev_pos) - 1
    cen2 = [lev_pos[k] + lev_pos[k + 1] for k in range(n)]
    out, obj = [], None
    for j, u in enumerate(v['uses']):
        d = u['deck']
        if obj is None:
            obj = X['SimpleCloudsContribution'](clouds_pressure=pos2p(d))
        route = (routes or v.get('routes') or ['model'] * len(v['uses']))[j]
        e, info = deck_event(world, '%s:u%d' % (eid, j), cen2, d, pos2p(d), route == 'model', reuse=obj, route=route, writer=u['w'])
        out.append((e, deckset_cls(v, j, pclass) + route_tag(route), info, u['opaque']))
    return out


def run_deckset_vectors(ctx, X, nwalks, pre):
    """Binding D (MC_CloudsDeckSet): the cloud top written by every public writer, on atmospheres deeper than the default"""
    res = run_tlc('MC_CloudsDeckSet', 'SIM_CloudsDeckSet.cfg', workers=1, simulate='num=%d' % nwalks, depth=6, seed=ctx.seed + 29)
    ctx.add_tlc('simulate-deckset', res, counts=False)
    vecs = res.tagged('DECKSET')
    if res.violated or len(vecs) < nwalks // 2:
        raise Machinery('MC_CloudsDeckSet simulation: %d behaviours, violated=%r' % (len(vecs), res.violated))
    events, meta, post = pre
    rng = random.Random(ctx.seed * 104729 + 5)
    cache, count = {}, {}
    for j, v in enumerate(vecs):
        n = len(v['lev']) - 1
        sp = {v['lev'][k] - v['lev'][k + 1] for k in range(n)}
        pclass = 'simple' if (len(sp) == 1 and j % 2) else 'levels'
        v = dict(v, routes=[rng.choice(['model', 'model', 'prepare', 'each']) for _ in v['uses']])
        for u, (e, cls, info, opaque) in enumerate(deckset_vector_events(X, v, pclass, 'D%d:%s' % (j, pclass), cache)):
            vec = dict(decksetvec=v, pclass=pclass, use=u)
            meta[e['id']] = (cls, vec, info)
            events.append(e)
            # TLC's expected set of opaque layers, compared directly as well (the trace judge re-derives it from deck / cen2)
            got = [x == 'inf' for x in e['sig']]
            ctx.verdict('declared_top_in_force', got == list(opaque) and all(x in ('inf', 'zero') for x in e['sig']), cls=cls,
                        detail='cloud top %g Pa written by %s: opaque layers %r, declared %r %s' %
                               (info['pdeck'], v['uses'][u]['w'], got, list(opaque), info.get('write_exception', info.get('exception', ''))),
                        vector=dict(vec, event=dict(id=e['id'])))
            deep = v['lev'][0] > 12 and v['uses'][u]['deck'] > 12
            high = v['lev'][-1] < -6 and v['uses'][u]['deck'] < -6
            key = (v['uses'][u]['w'], 'deeper-than-default' if deep else ('higher-than-1e-3Pa' if high else 'other'))
            count[key] = count.get(key, 0) + 1
    for w in ('ctor', 'setter', 'param'):
        if count.get((w, 'deeper-than-default'), 0) < 1:      # expected ~10 per writer in 40 walks
            raise Machinery('vacuous: only %d simulated cloud tops deeper than 1e6 Pa written by %s' % (count.get((w, 'deeper-than-default'), 0), w))
    ctx.traces += len(vecs)
    ctx.add_sample(dict(deckset_vector=vecs[0]))
    ctx.note("binding D: %d TLC-generated sequences of three writes of the cloud top (constructor, then setter / fitting parameter) "
             "on grids with the bottom at 1e6..1e8 Pa (and one family reaching up to 1e-6 Pa): %r" % (len(vecs), {'%s:%s' % k: c for k, c in sorted(count.items())}))
    return events, meta, post


def run_route_vectors(ctx, X, nwalks, pre):
    """Binding A'' (MC_CloudsRoutes): sequences of two uses (route, bounds / deck) of one long-lived contribution object"""
    res = run_tlc('MC_CloudsRoutes', 'SIM_CloudsRoutes.cfg', workers=1, simulate='num=%d' % nwalks, depth=5, seed=ctx.seed + 23)
    ctx.add_tlc('simulate-routes', res, counts=False)
    vecs = res.tagged('ROUTES')
    if res.violated or len(vecs) < nwalks // 2:
        raise Machinery('MC_CloudsRoutes simulation: %d behaviours, violated=%r' % (len(vecs), res.violated))
    events, meta, post = pre
    cache, count = {}, {}
    for j, v in enumerate(vecs):
        n = len(v['lev']) - 1
        sp = {v['lev'][k] - v['lev'][k + 1] for k in range(n)}
        pclass = 'simple' if (len(sp) == 1 and j % 2) else 'levels'
        for u, (e, cls, info, adm, sigma, mag, f, inv) in enumerate(route_vector_events(X, v, pclass, 'T%d:%s' % (j, pclass), cache)):
            vec = dict(routevec=v, pclass=pclass, use=u, inv=inv)
            meta[e['id']] = (cls, vec, info)
            events.append(e)
            count[v['uses'][u]['route']] = count.get(v['uses'][u]['route'], 0) + 1
            if e['ev'] == 'haze':
                post.append((e, adm, sigma, mag, cls, vec, f))
    for r in ROUTES:
        if count.get(r, 0) < 3:
            raise Machinery('vacuous: only %d simulated uses through route %s' % (count.get(r, 0), r))
    ctx.traces += len(vecs)
    ctx.add_sample(dict(routes_vector=vecs[0]))
    ctx.note("binding A'': %d TLC-generated sequences of two uses of one contribution object, by route %r" % (len(vecs), dict(sorted(count.items()))))
    return events, meta, post


# --------------------------------------------------------------------------- binding B
def lpos(p):
    return int(round(1.0e6 * math.log10(p)))


def random_world(X, rng, n):
    style = rng.random()
    lmax, lmin = rng.uniform(3.0, 7.0), rng.uniform(-5.0, 1.5)
    if style < 0.4:
        pp, grid = X['SimplePressureProfile'](n, 10.0 ** lmin, 10.0 ** lmax), 'simple'
    else:
        steps = [rng.uniform(1.0, 1.9 if style < 0.7 else 4.0) for _ in range(n)]
        tot = sum(steps)
        lp = [lmax]
        for s in steps:
            lp.append(lp[-1] - s * (lmax - lmin) / tot)
        if style < 0.7:
            arr = np.array([10.0 ** (0.5 * (lp[k] + lp[k + 1])) for k in range(n)])
            pp, grid = X['ArrayPressureProfile'](arr), 'array'
        else:
            pp, grid = LevelsPressureProfile([10.0 ** x for x in lp]), 'levels'
    w = World(X, pp, T=rng.uniform(500.0, 2000.0), mix=10.0 ** rng.uniform(-5, -2),
              planet=(rng.uniform(0.3, 2.0), rng.uniform(0.6, 1.5)))
    if not (np.all(w.levels > 0) and np.all(np.diff(w.levels) < 0)):
        return None, grid
    return w, grid


def random_bound(rng, world, kind_hint):
    """-> (bound record, pressure handed to the code, class)"""
    r = rng.random()
    lv, ly = world.levels, world.layers
    if r < 0.18:
        return dict(set=False, x=0), rng.choice([-1, -1, -1.0, -5]), 'unset'
    if r < 0.36:
        p = float(lv[rng.randrange(len(lv))])
        return dict(set=True, x=lpos(p)), p, 'on-level'
    if r < 0.50:
        p = float(ly[rng.randrange(len(ly))])
        return dict(set=True, x=lpos(p)), p, 'on-layer-pressure'
    if r < 0.62:
        p = float(lv[0]) * 10.0 ** rng.uniform(0.01, 2.0)
        return dict(set=True, x=lpos(p)), p, 'below-surface'
    if r < 0.74:
        p = float(lv[-1]) * 10.0 ** (-rng.uniform(0.01, 2.0))
        return dict(set=True, x=lpos(p)), p, 'above-top'
    for _ in range(50):
        p = 10.0 ** rng.uniform(math.log10(lv[-1]), math.log10(lv[0]))
        x = lpos(p)
        if all(abs(x - lpos(q)) > 200 for q in lv) and all(abs(x - lpos(q)) > 200 for q in ly):
            return dict(set=True, x=x), p, 'inside'
    return dict(set=False, x=0), -1, 'unset'


SLABS_SHARE = dict(quick=0.12, thorough=0.03)     # share of the random events that are slab lists
SLABS_MAX_N = 40


def random_par(rng, kind):
    if kind == 'flat':
        return dict(mix=10.0 ** rng.uniform(-30, -24))
    return dict(a=10.0 ** rng.uniform(-2, 0.5), q=rng.uniform(1.0, 80.0), mix=10.0 ** rng.uniform(-14, -10))


def random_deck(rng, world, cen2):
    n = world.n
    q = rng.random()
    if q < 0.35:
        return float(world.layers[rng.randrange(n)]), 'on-layer-pressure'
    if q < 0.5:
        return float(world.layers[0]) * 10.0 ** rng.uniform(0.01, 2.0), 'below-surface'
    if q < 0.65:
        return float(world.layers[-1]) * 10.0 ** (-rng.uniform(0.01, 2.0)), 'above-top'
    for _ in range(50):
        p = 10.0 ** rng.uniform(math.log10(world.layers[-1]), math.log10(world.layers[0]))
        if all(abs(2 * lpos(p) - c) > 400 for c in cen2):
            break
    return p, 'inside'


def random_event(world, grid, esub, eid, run_model, mix=False, long_lived=False, share=0.12):
    """One random deck / haze event on a built world, fully determined by the sub-seed esub.
    long_lived: the contribution object of that kind is the one the world has used before (settings
    changed through its setters) and, on the standard grid, the pressure range of the model may be
    changed first through atm_min_pressure / atm_max_pressure (same number of layers)."""
    rng = random.Random(esub)
    reuse = {}
    if long_lived:
        r0 = rng.random()
        if grid == 'simple' and r0 < 0.6:
            lmax, lmin = rng.uniform(3.0, 7.0), rng.uniform(-5.0, 1.5)
            world.regrid(10.0 ** lmin if r0 < 0.4 else None, 10.0 ** lmax if r0 > 0.2 else None)
        reuse = world.keep
    n = world.n
    lev_pos = [lpos(p) for p in world.levels]
    cen2 = [2 * lpos(p) for p in world.layers]
    recipe = dict(random=True, n=n, grid=grid, esub=esub, run_model=run_model, mix=mix, share=share)
    hist = ':after-history' if long_lived else ''
    if run_model and n <= SLABS_MAX_N and rng.random() < share:
        # several clouds / hazes of any kinds in the same model, each with its own random range
        specs = []
        for _ in range(rng.choice([2, 2, 3])):
            k = rng.random()
            if k < 0.2:
                p, dc = random_deck(rng, world, cen2)
                specs.append(dict(kind='deck', deckpos=lpos(p), pdeck=p, dc=dc))
            else:
                kind = 'flat' if k < 0.65 else 'lee'
                b, pb, cb = random_bound(rng, world, kind)
                t, pt, ct = random_bound(rng, world, kind)
                specs.append(dict(kind=kind, b=b, t=t, pb=pb, pt=pt, cb=cb, ct=ct, par=random_par(rng, kind)))
        with_abs = rng.random() < 0.5
        e, info, subs = slabs_event(world, eid, specs, lev_pos, cen2, grid, with_abs, hist=hist, reuse=reuse if long_lived else None)
        info['_extra'] = [(se, scls, sinfo, sub) for se, scls, sinfo, sub, _, _, _ in subs]
        cls = 'slabs:%s%s:%s%s' % (grid, hist, '+'.join(sp['kind'] for sp in specs), ':with-band-absorber' if with_abs else '')
        return e, cls, recipe, info
    r = rng.random()
    # the route by which the contribution reaches the path integral (MC_CloudsRoutes!Routes); the routes through an entry
    # point of the model run the model
    q = rng.random()
    route = 'prepare' if q < 0.5 else 'each' if q < 0.86 else ('contrib' if q < 0.93 else 'full') if run_model else 'each'
    if r < 0.25:
        p, dc = random_deck(rng, world, cen2)
        if long_lived and 'deck' not in reuse:
            reuse['deck'] = world.X['SimpleCloudsContribution'](clouds_pressure=p)
        e, info = deck_event(world, eid, cen2, lpos(p), p, run_model and rng.random() < 0.5, mix=mix, reuse=reuse.get('deck'), route=route)
        return e, 'deck:%s%s:%s%s' % (grid, hist, dc, route_tag(route)), recipe, info
    kind = 'flat' if r < 0.65 else 'lee'
    b, pb, cb = random_bound(rng, world, kind)
    t, pt, ct = random_bound(rng, world, kind)
    par = random_par(rng, kind)
    if long_lived and kind not in reuse:
        reuse[kind] = make_haze(world.X, kind, pb, pt, par)[0]
    e, info, sigma, mag = haze_event(world, eid, kind, lev_pos, b, t, pb, pt, par, run_model and rng.random() < 0.3,
                                     mix=mix, reuse=reuse.get(kind), route=route, cen2=cen2, pu=1)
    inv = b['set'] and t['set'] and b['x'] < t['x']
    cls = '%s:%s%s:b=%s:t=%s%s%s' % (kind, grid, hist, cb, ct, ':inverted' if inv else '', route_tag(route))
    return e, cls, recipe, info


def long_sequence(X, wsub, n, count, share=0.12):
    """The events of ONE long-lived world: the same model and the same three contribution objects through
    `count` events; everything is determined by wsub (so that replay can regenerate event j)."""
    world, grid = random_world(X, random.Random(wsub), n)
    if world is None:
        return None, grid, []
    seq = random.Random(wsub ^ 0x5bd1e995)
    out = []
    for j in range(count):
        out.append(random_event(world, grid, seq.getrandbits(48), 'L%d:%d' % (wsub % 100000, j), n <= 40,
                                mix=(j % 4 == 1 and n <= 40), long_lived=True, share=share))
    return world, grid, out


def add_event(events, meta, e, cls, vec, info):
    m = info.pop('_mix', None)
    extra = info.pop('_extra', [])
    meta[e['id']] = (cls, vec, info)
    events.append(e)
    if m is not None:
        meta[m['id']] = (cls + ':with-band-absorber', dict(vec, mix_only=True), dict(info))
        events.append(m)
    for se, scls, sinfo, sub in extra:
        meta[se['id']] = (scls, dict(vec, sub=sub), sinfo)
        events.append(se)


def run_random(ctx, X, rng, nworlds, per_world, model_max_n, pre=None):
    share = SLABS_SHARE[ctx.tier]
    events, meta, post = pre if pre is not None else ([], {}, [])
    nw = skipped = 0
    sizes = [2, 3, 5, 100] + [rng.randint(2, 100) for _ in range(nworlds - 4)]
    for n in sizes:
        wsub = rng.getrandbits(48)
        world, grid = random_world(X, random.Random(wsub), n)
        if world is None:
            skipped += 1
            continue
        lev_pos = [lpos(p) for p in world.levels]
        if any(lev_pos[k + 1] >= lev_pos[k] for k in range(n)):
            skipped += 1
            continue
        nw += 1
        for j in range(per_world):
            eid = 'B%d:%d' % (nw, j)
            e, cls, recipe, info = random_event(world, grid, rng.getrandbits(48), eid, n <= model_max_n,
                                                mix=(j % 8 == 3 and n <= model_max_n), share=share)
            add_event(events, meta, e, cls, dict(recipe, wsub=wsub), info)
    if nw < 5:
        raise Machinery('too few random grids')
    # long-lived worlds: one model, one contribution object per kind, pressure range changed in between
    nlong = 0
    for n in [2, 7, 30] + [rng.randint(2, 60) for _ in range(max(3, nworlds // 4) - 3)]:
        wsub = rng.getrandbits(48)
        world, grid, seq = long_sequence(X, wsub, n, per_world, share)
        if world is None:
            continue
        nlong += 1
        for j, (e, cls, recipe, info) in enumerate(seq):
            add_event(events, meta, e, cls, dict(recipe, wsub=wsub, long=j), info)
    badids = judge(ctx, events, meta, 'random')
    for se, adm, sigma, mag, cls, vec, f in post:
        exact_checks(ctx, se, adm, sigma, mag, cls, vec, f)
    ctx.traces += len(events)
    ctx.note('binding B: %d grids (%d skipped: derived levels not decreasing) + %d long-lived worlds, %d events' % (nw, skipped, nlong, len(events)))
    ctx.add_sample(dict(trace_event={k: (v if not isinstance(v, list) or len(v) < 12 else v[:12]) for k, v in events[-1].items()}))
    run_canaries(events, badids)


def _outside_layers(e):
    """layers wholly outside the [min,max] window -- used only to pick where a canary is planted."""
    lev = e['lev']
    be = e['b']['x'] if e['b']['set'] else lev[0]
    te = e['t']['x'] if e['t']['set'] else lev[-1]
    lo, hi = min(be, te), max(be, te)
    return [k for k in range(len(lev) - 1) if lev[k] < lo or lev[k + 1] > hi]


def _inside_layers(e):
    lev = e['lev']
    be = e['b']['x'] if e['b']['set'] else lev[0]
    te = e['t']['x'] if e['t']['set'] else lev[-1]
    lo, hi = min(be, te), max(be, te)
    return [k for k in range(len(lev) - 1) if lo <= lev[k + 1] and lev[k] <= hi]


def run_canaries(events, badids):
    good = [e for e in events if e['id'] not in badids]
    hz = [e for e in good if e['ev'] == 'haze' and not e['raised'] and any(m >= S - 1 for m in e['ms'][0]) and _outside_layers(e) and _inside_layers(e)]
    dk = [e for e in good if e['ev'] == 'deck' and e['model'] and 'inf' in e['sig'] and 'zero' in e['sig']]
    if (not hz or not dk) and not badids:
        raise Machinery('no events available for the canaries')
    can, want = [], []
    if hz:
        a = dict(hz[0]); a['ms'] = [list(r) for r in a['ms']]
        k = _outside_layers(a)[0]
        for r in a['ms']:
            r[k] = 5
        a['id'] = 'canary-leak'; can.append(a); want.append('canary-leak')
        b = dict(hz[-1]); b['ms'] = [list(r) for r in b['ms']]
        k = _inside_layers(b)[0]
        for r in b['ms']:
            r[k] = r[k] // 2
        b['id'] = 'canary-half'; can.append(b); want.append('canary-half')
        g = dict(hz[0]); g['id'] = 'canary-good'; can.append(g)
    if dk:
        c = dict(dk[0]); c['sig'] = list(c['sig']); c['sig'][c['sig'].index('inf')] = 'zero'; c['id'] = 'canary-deck'; can.append(c)
        want.append('canary-deck')
        d = dict(dk[0]); d['depth'] = [d['depth'][0] // 2, d['depth'][1]]; d['id'] = 'canary-depth'; can.append(d)
        want.append('canary-depth')
    mx = [e for e in good if e['ev'] == 'mix' and not e['raised']]
    spot = None
    for e in mx:
        for k, row in enumerate(e['tb'][0]):
            for w, o in enumerate(row):
                if o[0] > 0 and o[1] >= -11 and e['th'][k][w][0] > 0 and spot is None:      # a transmittance above 1e-3
                    spot = (e, k, w)
    if spot:
        e, k, w = spot
        m = dict(e); m['tb'] = [[[list(o) for o in row] for row in tb] for tb in e['tb']]
        m['tb'][0][k][w][0] = m['tb'][0][k][w][0] // 2 + 1          # the haze / cloud counted twice or not at all
        m['id'] = 'canary-mix'; can.append(m); want.append('canary-mix')
        g2 = dict(e); g2['id'] = 'canary-mix-good'; can.append(g2)
    elif not badids:
        raise Machinery('no mix event available for the canary')
    if hz:
        fr = dict(hz[-1]); fr['frame'] = ['pressure_levels']; fr['id'] = 'canary-frame'; can.append(fr); want.append('canary-frame')
    sl = [e for e in good if e['ev'] == 'slabs' and not e['raised'] and not e['frame']]
    spot = None
    for e in sl:
        for k, row in enumerate(e['tb'][0]):
            for w, o in enumerate(row):
                if o[0] > 0 and o[1] >= -11 and spot is None:      # a transmittance above 1e-3
                    spot = (e, k, w)
    if spot:
        e, k, w = spot
        m = dict(e); m['tb'] = [[[list(o) for o in row] for row in tb] for tb in e['tb']]
        m['tb'][0][k][w][0] = m['tb'][0][k][w][0] // 2 + 1          # one slab counted twice / lost
        m['id'] = 'canary-slabs'; can.append(m); want.append('canary-slabs')
        g3 = dict(e); g3['id'] = 'canary-slabs-good'; can.append(g3)
    elif not badids:
        raise Machinery('no slabs event available for the canary')
    if not can:
        return
    ok, bad, res = validate_trace('Trace_Clouds', 'Trace_Clouds.cfg', can)
    got = sorted(x['id'] for x in bad)
    if got != sorted(want):
        raise Machinery('canary: expected %r to be rejected, TLC rejected %r' % (sorted(want), got))


# --------------------------------------------------------------------------- binding C: history walks
def history_scenarios(X):
    from .. import history

    class OneModel(history.Scenario):
        """ONE long-lived TransmissionModel: band-saturating absorber + one cloud / haze contribution; all
        settings through model[<fitting parameter>]; the number of layers never changes."""

        def __init__(self, name, kind, params, dims, n=8):
            self.name, self.kind, self.params, self.dims, self.n = name, kind, params, dims, n
            self.base = dict(atm_max_pressure=1e6, atm_min_pressure=1e-2, T=1000.0, planet_radius=1.0,
                             clouds_pressure=1e3, flat_topP=-1, flat_bottomP=-1, lee_mie_topP=-1, lee_mie_bottomP=-1)

        def contribution(self, c):
            if self.kind == 'deck':
                return X['SimpleCloudsContribution'](clouds_pressure=c['clouds_pressure'])
            if self.kind == 'flat':
                return X['FlatMieContribution'](flat_mix_ratio=2e-26, flat_bottomP=c['flat_bottomP'], flat_topP=c['flat_topP'])
            return X['LeeMieContribution'](lee_mie_radius=0.5, lee_mie_q=30.0, lee_mie_mix_ratio=3e-11,
                                           lee_mie_bottomP=c['lee_mie_bottomP'], lee_mie_topP=c['lee_mie_topP'])

        def fresh(self, v):
            c = dict(self.base)
            c.update(dict(zip(self.params, v)))
            chem = X['TaurexChemistry'](fill_gases=['H2', 'He'], ratio=0.17)
            chem.addGas(X['ConstantGas']('H2O', mix_ratio=1e-3))
            chem.addGas(X['ConstantGas']('CH4', mix_ratio=1e-4))
            m = X['TransmissionModel'](planet=X['Planet'](planet_mass=1.0, planet_radius=c['planet_radius']), star=X['BlackbodyStar'](),
                                       temperature_profile=X['Isothermal'](T=c['T']), chemistry=chem, nlayers=self.n,
                                       atm_min_pressure=c['atm_min_pressure'], atm_max_pressure=c['atm_max_pressure'])
            m.add_contribution(X['AbsorptionContribution']())
            m._verif_c = self.contribution(c)
            m.add_contribution(m._verif_c)
            m.build()
            return m

        def set(self, m, d, value, values):
            m[self.params[d]] = value

        def observe(self, m):
            g, depth, tr, _ = m.model()
            return dict(sigma=np.asarray(m._verif_c.sigma_xsec), tr=np.asarray(tr), depth=np.asarray(depth))

    P_MAX, P_MIN = [1e4, 1e5, 1e6], [1e-2, 1.0, 30.0]
    # round 5: atmospheres deeper than the default bottom, cloud tops down there and below the bottom (the long-lived model is
    # written through model[...], the fresh one through the constructors)
    return [OneModel('deck:deep', 'deck', ['atm_max_pressure', 'clouds_pressure', 'atm_min_pressure'], [[1e6, 1e7, 1e8], [2e5, 4e6, 3e8], P_MIN]),
            OneModel('deck:grid', 'deck', ['atm_max_pressure', 'atm_min_pressure', 'clouds_pressure'], [P_MAX, P_MIN, [2e2, 5e3, 2e5]]),
            OneModel('deck:T-R', 'deck', ['clouds_pressure', 'T', 'planet_radius'], [[1e-3, 3e3, 1e7], [700.0, 1000.0, 1600.0], [0.8, 1.0, 1.3]]),
            OneModel('flat:grid', 'flat', ['atm_max_pressure', 'flat_topP', 'flat_bottomP'], [P_MAX, [-1, 5.0, 3e3], [-1, 2e4, 50.0]]),
            OneModel('flat:top', 'flat', ['atm_min_pressure', 'flat_topP', 'T'], [P_MIN, [-1, 0.5, 4e2], [700.0, 1000.0, 1600.0]]),
            OneModel('lee:grid', 'lee', ['atm_max_pressure', 'lee_mie_topP', 'lee_mie_bottomP'], [P_MAX, [-1, 5.0, 3e3], [-1, 2e4, 50.0]]),
            OneModel('lee:top', 'lee', ['atm_min_pressure', 'atm_max_pressure', 'lee_mie_topP'], [P_MIN, P_MAX, [-1, 0.5, 4e2]])]


def replay_history(ctx, v, X):
    from ..history import digest
    vec = v['vector']
    sc = next((x for x in history_scenarios(X) if x.name == vec['history']), None)
    if sc is None:
        raise Machinery('replay: unknown history scenario %r' % vec['history'])
    vals = list(vec['init'])
    obj = sc.fresh(list(vals))
    ok = True
    for step in vec['trail']:
        if step.startswith('set'):
            d, val = step[3:].split('=', 1)
            vals[int(d)] = float(val)
            sc.set(obj, int(d), float(val), list(vals))
        elif step.startswith('eval'):
            ok = ok and digest(sc.observe(obj)) == digest(sc.observe(sc.fresh(list(vals))))
    ctx.verdict(v['clause'], ok, cls=v['cls'], detail='replay of the walk %r from %r' % (vec['trail'], vec['init']), vector=vec)


# --------------------------------------------------------------------------- entry points
def run(ctx):
    q = ctx.tier == 'quick'
    ctx.bounds = dict(tier=ctx.tier,
                      exhaustive='<=%d layers, spacings {1,2} dex in any order, bounds/deck on every half-dex position from one dex above the top to one dex below the surface and "unset", both orders; clear transmittances in {0,1/2,1}' % (3 if q else 5),
                      vectors='every exported (grid, bounds/deck) of the %d-layer export config through prepare() and model()' % (3 if q else 4) + ' on explicit-level grids and, for uniform grids, SimplePressureProfile',
                      routes='MC_CloudsRoutes: two uses of one contribution object through any of the routes prepare / model / model_contrib / prepare_each / model_full_contrib with any bounds, grids of <= %d layers' % (2 if q else 3),
                      slabs='MC_CloudsSlabs: 2 slabs of any kind on grids of <= 2 layers exhaustively; simulated lists of 2..3 slabs on <= 3 layers replayed on real objects; random lists of 2..3 slabs on random grids of <= %d layers' % SLABS_MAX_N,
                      traces='random grids 2..100 layers (simple / array / explicit levels), random bounds of 6 classes, random magnitudes, Lee radius 0.01..3 um, Q 1..80')
    ctx.assumptions = ['log10 of pressures is evaluated by the harness (positions round(1e6 log10 P)); random bounds are either float-identical to an exposed level / layer pressure or at least 2e-4 dex away from all of them',
                       'Lee Qext law evaluated by the harness from the documented formula (uninterpreted positive table for the spec)',
                       'partial layers: the documented rule of each contribution (grey haze: covered fraction of the layer in log pressure, '
                       'Lee haze: selection by layer pressure), 1e-12 on exported grids, position-rounding tolerance 2/width on random grids; '
                       'inverted bounds: the [min,max] window or an empty window',
                       'TLC + CommunityModules Json/IOUtils; spec/Dec.tla decimal arithmetic for the depth integral',
                       'gas opacity fixture: flat cross-section through the real InterpolatingOpacity / AbsorptionContribution',
                       'frame condition: the arrays a model exposes (EXPOSED in the driver) are compared after every prepare() / model() with a private copy of what the same model computed for the same settings with gas absorption only']
    ctx.check_spec('exhaustive', 'MC_Clouds', 'MC_Clouds_%s.cfg' % ctx.tier, need_actions=('EvalDeck', 'EvalFlat', 'EvalLee'))
    ctx.expect_refuted('maxnorm-refuted', 'MC_Clouds', 'MC_Clouds_maxnorm.cfg', 'DeclaredMagnitudeInside')
    # round 4: the design-level runs of the partial-layer rule and of the routes run beside the bindings (collected at the end)
    from concurrent.futures import ThreadPoolExecutor
    pool = ThreadPoolExecutor(max_workers=3)
    # (label, module, cfg, invariant TLC must refute | None: all invariants hold)
    bg = [('edges-refuted', 'MC_Clouds', 'MC_Clouds_edges.cfg', 'WindowExtentConserved'),
          ('routes', 'MC_CloudsRoutes', 'MC_CloudsRoutes_%s.cfg' % ctx.tier, None)]
    bg += [('routes-%s-refuted' % w, 'MC_CloudsRoutes', 'MC_CloudsRoutes_%s.cfg' % w, 'IntegratedOwnRange')
           for w in (['working', 'nothing'][(ctx.seed + 1) % 2:][:1] if q else ['working', 'nothing'])]
    # round 5: the way the cloud top is written x the depth of the atmosphere
    bg += [('deckset', 'MC_CloudsDeckSet', 'MC_CloudsDeckSet_%s.cfg' % ctx.tier, None),
           ('deckset-cap-on-set-refuted', 'MC_CloudsDeckSet', 'MC_CloudsDeckSet_cap_on_set.cfg', 'OpaqueSetIsDeclared')]
    if not q:
        bg.append(('routes-sum-mechanism-blind', 'MC_CloudsRoutes', 'MC_CloudsRoutes_blind.cfg', None))
        bg.append(('deckset-ctor-only-refuted', 'MC_CloudsDeckSet', 'MC_CloudsDeckSet_ctor_only.cfg', 'OpaqueSetIsDeclared'))
        bg.append(('deckset-default-depth-blind', 'MC_CloudsDeckSet', 'MC_CloudsDeckSet_blind.cfg', None))
    bg = [(j, pool.submit(run_tlc, j[1], j[2], workers=2, allow_violation=True)) for j in bg]
    try:
        run_rest(ctx, q)
    except BaseException:
        for _, f in bg:
            f.cancel()
        pool.shutdown(wait=True)
        raise
    for (label, module, cfg, refute), f in bg:
        res = f.result()
        ctx.add_tlc(label, res, counts=refute is None)
        if refute is None:
            if res.violated:
                raise Machinery('spec %s/%s violates %s\n%s' % (module, cfg, res.violated, res.error_trace))
            if res.distinct == 0 or res.depth < 4:        # Init, Use, Use, Finish
                raise Machinery('vacuous: %s/%s explored %d states to depth %d' % (module, cfg, res.distinct, res.depth))
        elif res.violated != refute:
            raise Machinery('expected TLC to refute %s in %s/%s, got %r' % (refute, module, cfg, res.violated))
    pool.shutdown()


def run_rest(ctx, q):
    ctx.check_spec('mix', 'MC_CloudsMix', 'MC_CloudsMix_%s.cfg' % ctx.tier, need_actions=('Add', 'EarlyExit', 'Finish'))
    ctx.expect_refuted('mix-any-refuted', 'MC_CloudsMix', 'MC_CloudsMix_any.cfg', 'SumOrLicensed')
    # several clouds / hazes in one model: each keeps its own range because nobody writes into the arrays the model
    # exposes; a slab that leaves its working representation there is the expected counterexample
    ctx.check_spec('slabs', 'MC_CloudsSlabs', 'MC_CloudsSlabs_%s.cfg' % ctx.tier, workers=4 if q else 16,
                   need_actions=() if q else ('AddSlab', 'Prepare'))
    for which in (['levels', 'layers'][ctx.seed % 2:][:1] if q else ['levels', 'layers']):
        ctx.expect_refuted('slabs-inplace-%s-refuted' % which, 'MC_CloudsSlabs', 'MC_CloudsSlabs_%s.cfg' % which, 'EachSlabOwnRange')
    ctx.exhaustive = True
    X = setup()
    rng = random.Random(ctx.seed * 15485863 + 19)
    res = ctx.check_spec('export', 'MC_Clouds', 'EX_Clouds.cfg' if q else 'EX_Clouds_thorough.cfg', workers=1)
    vecs = res.tagged('VEC')
    if q:
        keep = [v for v in vecs if len(v['lev']) <= 3]
        rest = [v for v in vecs if len(v['lev']) > 3]
        rng.shuffle(rest)
        vecs = keep + rest[:1500]
    nev = run_vectors(ctx, vecs, X, rng)
    ctx.note('binding A: %d exported vectors, %d real runs judged' % (len(vecs), nev))
    pre = run_slab_vectors(ctx, X, 100 if q else 300)
    pre = run_route_vectors(ctx, X, 60 if q else 300, pre)
    pre = run_deckset_vectors(ctx, X, 40 if q else 240, pre)
    run_random(ctx, X, rng, 24 if q else 400, 30 if q else 60, 40 if q else 100, pre=pre)
    ctx.note('mix events: %(mix_events)d; tangent layers opaque in the line cores AND transparent in the windows with haze present: '
             '%(mixed_layers)d; layers under the tau>10 licence at every wavenumber: %(licensed_layers)d' % STATS)
    if STATS['mixed_layers'] < 20 or STATS['licensed_layers'] < 5:
        raise Machinery('the band-saturating absorber did not produce mixed / fully saturated layers: %r' % STATS)
    from .. import history
    nh = history.run_history(ctx, history_scenarios(X), 6 if q else 40)
    ctx.note('binding C: %d history walks on long-lived models' % nh)


def replay(ctx, violations):
    """Re-drive the real code on each stored vector / random recipe and judge the fresh events (one TLC run)."""
    X = setup()
    cache, worlds = {}, {}
    items = []
    for i, v in enumerate(violations):
        vec = v['vector']
        if vec.get('history'):
            replay_history(ctx, v, X)
            continue
        old = vec.get('event')
        if old is None:
            continue
        eid = 'R%d' % i
        base_cls = v['cls'].split(':exact-zero')[0].split(':1e-12')[0]
        want_mix = bool(vec.get('mix_only') or (vec.get('mix') and not vec.get('random')))

        def pick_sub(info):
            for se, scls, sinfo, sub in info.get('_extra', []):
                if sub == vec['sub']:
                    return se
            raise Machinery('replay: slab event %r not produced again' % vec['sub'])

        if vec.get('decksetvec'):
            outs = deckset_vector_events(X, vec['decksetvec'], vec['pclass'], eid, cache)
            e, cls, info, opaque = outs[vec['use']]
            if v['clause'] == 'declared_top_in_force':
                got = [x == 'inf' for x in e['sig']]
                ctx.verdict(v['clause'], got == list(opaque) and all(x in ('inf', 'zero') for x in e['sig']), cls=v['cls'],
                            detail='replay: opaque layers %r, declared %r' % (got, list(opaque)), vector=vec)
                continue
            e = dict(e, id=eid)
        elif vec.get('routevec'):
            outs = route_vector_events(X, vec['routevec'], vec['pclass'], eid, cache)
            e, cls, info, adm, sigma, mag, f, inv = outs[vec['use']]
            if v['cls'] != base_cls:
                exact_checks(ctx, e, adm, sigma, mag, base_cls, vec, f)
                continue
            e = dict(e, id=eid)
        elif vec.get('slabvec'):
            e, cls, info, subs, specs = slab_vector_events(X, vec['slabvec'], vec['pclass'], vec['with_abs'], eid, cache)
            if vec.get('sub'):
                hit = [x for x in subs if x[3] == vec['sub']]
                if not hit:
                    raise Machinery('replay: slab event %r not produced again' % vec['sub'])
                se, scls, sinfo, sub, sigma, mag, idx = hit[0]
                if v['cls'] != base_cls:
                    exact_checks(ctx, se, specs[idx]['adm'], sigma, mag, base_cls, vec, specs[idx].get('f'))
                    continue
                e = se
            e = dict(e, id=eid)
        elif vec.get('random') and 'long' in vec:
            world, grid, seq = long_sequence(X, vec['wsub'], vec['n'], vec['long'] + 1, vec.get('share', 0.12))
            e, cls, recipe, info = seq[-1]
            if want_mix:
                e = info.get('_mix')
            if vec.get('sub'):
                e = pick_sub(info)
            if e is None:
                raise Machinery('replay: event not produced again')
            e = dict(e, id=eid)
        elif vec.get('random'):
            key = (vec['wsub'], vec['n'])
            if key not in worlds:
                worlds[key] = random_world(X, random.Random(vec['wsub']), vec['n'])
            world, grid = worlds[key]
            e, cls, recipe, info = random_event(world, grid, vec['esub'], eid, vec['run_model'], mix=vec.get('mix', False),
                                                share=vec.get('share', 0.12))
            if want_mix:
                e = dict(info['_mix'], id=eid)
            if vec.get('sub'):
                e = dict(pick_sub(info), id=eid)
        else:
            base = {k: vec[k] for k in vec if k not in ('event', 'pclass', 'mix')}
            world = world_for_grid(X, base['lev'], vec['pclass'], cache)
            pos2p = pos2p_factory(world, base['lev'])
            if base['kind'] == 'deck':
                n = len(base['lev']) - 1
                cen2 = [base['lev'][k] + base['lev'][k + 1] for k in range(n)]
                e, info = deck_event(world, eid, cen2, base['deck'], pos2p(base['deck']), True, mix=want_mix)
            else:
                pars = dict(flat=dict(mix=3.0e-27), lee=dict(a=0.7, q=40.0, mix=2.0e-12))
                e, info, sigma, mag = haze_event(world, eid, base['kind'], base['lev'], base['b'], base['t'],
                                                 bound_value(base['b'], pos2p), bound_value(base['t'], pos2p), pars[base['kind']], True,
                                                 mix=want_mix, pu=0)
                if v['cls'] != base_cls and not want_mix:
                    exact_checks(ctx, e, base['adm'], sigma, mag, base_cls, vec, base.get('f'))
                    continue
            if want_mix:
                e = dict(info['_mix'], id=eid)
        if e.get('raised') and e['ev'] in ('mix', 'slabs'):
            ctx.verdict(v['clause'], False, cls=v['cls'], detail='replay: model() raised %s' % e.get('exception'), vector=vec)
            continue
        items.append((v, e, base_cls))
    if not items:
        return
    ok, bad, _ = validate_trace('Trace_Clouds', 'Trace_Clouds.cfg', [e for _, e, _ in items])
    badids = {b['id']: set(b['why']) for b in bad}
    for v, e, cls in items:
        why = badids.get(e['id'], set())
        ctx.verdict(v['clause'], v['clause'] not in why, cls=cls, detail='replay: TLC says %s' % sorted(why),
                    vector=dict(v['vector'], event=e))
