"""C08 -- prior transforms are monotone inverse-CDF maps in the declared space.

Spec:  spec/Priors.tla (Build, Sample, ToModel, FromText, DefaultCall and the clauses),
       spec/MC_Priors.tla (exhaustive + vector export), spec/Trace_Priors.tla.
Binding A: every exported constructor call (all four classes, bounds in both orders, lin_* spellings)
       with the exact normal form and the exact samples on the grid u = k/16 is replayed on the real
       classes: direct construction, the documented text form through create_prior (three spellings of
       the name x tuple/list/spacing variants), the log10 form of lin_* arguments, the default prior of
       compile_params; uniform samples exact (1e-12), gaussian samples against statistics.NormalDist
       (stdlib, independent of scipy) at 1e-9.
Binding B: random dyadic priors and u pairs through the real sample(); TLC re-evaluates the
       specification on the logged arguments (scaled comparison, monotone bracket for the normal
       quantile from the uninterpreted table) + canary.
"""
import json
import math
import os
import random
import tempfile
from fractions import Fraction
from statistics import NormalDist

from ..core import Machinery, frac, run_tlc, validate_trace

UN = 16
ZS = 100
REL_U = 1e-12
REL_G = 1e-9
ND = NormalDist()


def z_file():
    """The uninterpreted table of the spec, filled from the stdlib (not from scipy)."""
    z = [int(round(ND.inv_cdf(k / UN) * ZS)) for k in range(1, UN)]
    fd, path = tempfile.mkstemp(prefix='verifz_', suffix='.ndjson')
    with os.fdopen(fd, 'w') as f:
        f.write(json.dumps({'z': z}) + '\n')
    return path


def same(x, y, rel, scale=0.0):
    x, y = float(x), float(y)
    if x != x or y != y:
        return False
    return abs(x - y) <= rel * max(abs(x), abs(y), scale)


def klass(name):
    from taurex.core import priors
    return getattr(priors, name)


def pyval(key, v):
    """Python value of a spec argument: rationals as floats, linear-space exponents as 10**e."""
    if key in ('bounds',):
        return (float(frac(v[0])), float(frac(v[1])))
    if key == 'lin_bounds':
        return (10.0 ** int(v[0]), 10.0 ** int(v[1]))
    if key == 'lin_mean':
        return 10.0 ** int(v)
    return float(frac(v))


def kwargs_of(call):
    kw = {call['key1']: pyval(call['key1'], call['v1'])}
    if call['key2']:
        kw[call['key2']] = pyval(call['key2'], call['v2'])
    return kw


def lin_exact(call):
    """log10(10**e) must reproduce e for the linear-space arguments used (else nothing is concluded)."""
    if call['key1'] == 'lin_bounds':
        return all(math.log10(10.0 ** int(e)) == float(int(e)) for e in call['v1'])
    if call['key1'] == 'lin_mean':
        return math.log10(10.0 ** int(call['v1'])) == float(int(call['v1']))
    return True


def describe(p):
    """Public description of a prior object."""
    from taurex.core.priors import PriorMode
    import re
    nums = tuple(float(x) for x in re.findall(r'[-+]?(?:\d+\.?\d*(?:[eE][-+]?\d+)?|inf|nan)', p.params()))
    return dict(cls=p.__class__.__name__, mode='log' if p.priorMode is PriorMode.LOG else 'linear',
                params=nums, boundaries=tuple(float(x) for x in p.boundaries()))


def text_forms(name, kw, rng):
    """Spellings of Name(key=value, ...) allowed by the documented syntax."""
    def num(x):
        return repr(float(x)) if rng.random() < 0.7 or float(x) != int(x) else repr(int(x))
    out = []
    for style in range(3):
        parts = []
        for k, v in kw.items():
            if isinstance(v, tuple):
                if style == 0:
                    parts.append('%s=(%s, %s)' % (k, num(v[0]), num(v[1])))
                elif style == 1:
                    parts.append('%s=[%s,%s]' % (k, num(v[0]), num(v[1])))
                else:
                    parts.append('%s = ( %s , %s )' % (k, num(v[0]), num(v[1])))
            else:
                parts.append(('%s=%s' if style < 2 else '%s = %s') % (k, num(v)))
        if style == 1:
            parts = parts[::-1]              # keyword order is free
        out.append('%s(%s)' % (name, (',' if style < 2 else ' , ').join(parts)))
    return out


def check_vector(ctx, v, rng):
    from taurex.parameter.factory import create_prior
    from taurex.optimizer.optimizer import compile_params
    call, p = v['call'], v['p']
    kind = p['kind']
    uni = kind in ('Uniform', 'LogUniform')
    cls = '%s:%s' % (call['cls'], call['key1'])
    if uni:
        order = 'reversed' if frac(call['v1'][0]) > frac(call['v1'][1]) else 'ordered'
        cls += ':' + order
    if not lin_exact(call):
        raise Machinery('log10(10**e) not exact for %r' % (call,))
    kw = kwargs_of(call)
    try:
        obj = klass(call['cls'])(**kw)
        d = describe(obj)
        obj.sample(0.5)
    except Exception as e:
        ctx.verdict('declared_space', False, cls=cls, vector=dict(call=call, p=p),
                    detail='%s(**%r) raised %r' % (call['cls'], kw, e))
        return
    a, b = float(frac(p['a'])), float(frac(p['b']))
    vec = dict(call=call, p=p)
    # --- declared space and back-transform
    ctx.verdict('declared_space', d['cls'] == kind and d['mode'] == v['space'], cls=cls, vector=vec,
                detail='got %s/%s expected %s/%s' % (d['cls'], d['mode'], kind, v['space']))
    for x in [t for t in (a, b, -2.0, 0.5, 3.0) if abs(t) <= 300]:      # 10**x must be a float
        want = 10.0 ** x if v['space'] == 'log' else x
        ctx.verdict('back_transform', same(obj.prior(x), want, 1e-12), cls=cls, vector=dict(vec, x=x),
                    detail='prior(%r) = %r expected %r' % (x, obj.prior(x), want))
    # --- support / parameters
    if uni:
        ctx.verdict('onto_support', same(d['boundaries'][0], a, REL_U) and same(d['boundaries'][1], b, REL_U)
                    and same(obj.sample(0.0), a, REL_U) and same(obj.sample(1.0), b, REL_U), cls=cls, vector=vec,
                    detail='boundaries %r sample(0)=%r sample(1)=%r expected [%r,%r]'
                           % (d['boundaries'], obj.sample(0.0), obj.sample(1.0), a, b))
    else:
        s0, s1 = float(obj.sample(0.0)), float(obj.sample(1.0))
        ctx.verdict('onto_support', s0 == float('-inf') and s1 == float('inf'), cls=cls, vector=vec,
                    detail='gaussian sample(0)=%r sample(1)=%r' % (s0, s1))
    # --- inverse CDF on the grid, monotone
    prev = None
    mono = True
    for k, s in enumerate(v['s']):
        if (not uni) and k in (0, UN):
            continue
        u = k / UN
        got = float(obj.sample(u))
        if uni:
            want = float(frac(s))
            ok = same(got, want, REL_U, scale=max(abs(a), abs(b)))
            clause = 'inverse_cdf_uniform'
        else:
            table = float(frac(s))                     # specification's value with the rounded table
            want = a + b * ND.inv_cdf(u)               # boundary evaluation, independent of scipy
            ok = same(got, want, REL_G, scale=max(abs(a), abs(b))) and abs(got - table) <= b * 0.5 / ZS + 1e-9
            clause = 'inverse_cdf_gaussian'
        ctx.verdict(clause, ok, cls=cls, vector=dict(vec, k=k), detail='sample(%r) = %r expected %r' % (u, got, want))
        if prev is not None and not got > prev:
            mono = False
        prev = got
    ctx.verdict('monotone', mono, cls=cls, vector=vec, detail='samples on the grid are not increasing')
    # --- linear-space arguments == their log10
    if call['key1'] in ('lin_bounds', 'lin_mean'):
        lf = v['logform']
        other = klass(lf['cls'])(**kwargs_of(lf))
        same_obj = describe(other) == d and all(same(other.sample(k / UN), obj.sample(k / UN), 1e-12) for k in range(1, UN))
        ctx.verdict('lin_args_equivalent', same_obj, cls=cls, vector=vec,
                    detail='%r vs %r' % (describe(other), d))
    # --- text form == direct construction
    for name in v['names']:
        for text in text_forms(name, kw, rng):
            try:
                t = create_prior(text)
                dt = describe(t)
                ok = dt == d and all(same(t.sample(k / UN), obj.sample(k / UN), 0.0) for k in range(1, UN)) \
                    and t.prior(0.25) == obj.prior(0.25)
                detail = '%s -> %r, direct %r' % (text, dt, d)
            except Exception as e:
                ok, detail = False, '%s raised %r' % (text, e)
            ctx.verdict('text_equals_direct', ok, cls=cls + ':' + ('exact' if name == call['cls'] else 'lower' if name.islower() else 'upper'),
                        vector=dict(vec, text=text), detail=detail)
    for bad in ('Foo', 'Log'):
        text = text_forms(bad, kw, rng)[0]
        try:
            create_prior(text)
            ok = False
        except Exception:
            ok = True
        ctx.verdict('unknown_name_is_error', ok, cls=cls, vector=dict(vec, text=text), detail='%s was accepted' % text)
    # --- default prior from mode and bounds (compile_params)
    if (call['cls'], call['key1']) in (('Uniform', 'bounds'), ('LogUniform', 'lin_bounds')):
        mode = 'log' if call['key1'] == 'lin_bounds' else 'linear'
        bounds = list(kw[call['key1']])
        tup = ('x', 'x', lambda: 1.0, lambda val: None, mode, True, bounds)
        _, pri, _, _ = compile_params({'x': tup}, {}, None)
        dd = describe(pri[0]) if len(pri) == 1 else None
        ctx.verdict('default_from_mode_and_bounds', dd == d, cls=cls, vector=vec,
                    detail='default for mode=%s bounds=%r is %r, direct %r' % (mode, bounds, dd, d))


# ------------------------------------------------------------------ binding B
def dy(rng, lo, hi, den):
    return Fraction(rng.randint(lo * den, hi * den), den)


def random_events(rng, n):
    from taurex.core.priors import Uniform, LogUniform, Gaussian, LogGaussian
    S, UD = 1000, 256
    events = []
    while len(events) < n:
        kind = rng.choice(['Uniform', 'LogUniform', 'Gaussian', 'LogGaussian'])
        if kind in ('Uniform', 'LogUniform'):
            x, y = dy(rng, -100, 100, 4), dy(rng, -100, 100, 4)
            if x == y:
                continue
            obj = (Uniform if kind == 'Uniform' else LogUniform)(bounds=[float(x), float(y)])
            a, b = min(x, y), max(x, y)
            lo_j, hi_j = 0, UD
        else:
            a, b = dy(rng, -50, 50, 4), Fraction(rng.randint(1, 40), 4)
            obj = (Gaussian if kind == 'Gaussian' else LogGaussian)(mean=float(a), std=float(b))
            lo_j, hi_j = 1, UD - 1
        for _ in range(8):
            j1 = rng.randint(lo_j, hi_j)
            j2 = UD - j1 if rng.random() < 0.3 else rng.randint(lo_j, hi_j)
            if j2 < lo_j or j2 > hi_j:
                continue
            try:
                s1, s2 = float(obj.sample(j1 / UD)), float(obj.sample(j2 / UD))
            except Exception:
                s1 = s2 = float('nan')
            bad = not (abs(s1) < 900 and abs(s2) < 900)      # NaN / infinite / far outside any support used here
            m1, m2 = (0, 0) if bad else (int(round(s1 * S)), int(round(s2 * S)))
            events.append(dict(id=len(events), kind=kind, a=[a.numerator, a.denominator], b=[b.numerator, b.denominator],
                               j1=j1, j2=j2, UD=UD, S=S, m1=m1, m2=m2, tol=1, bad=bad,
                               gtol=int(math.ceil(float(b) * 0.5 / ZS * S)) + 2, got=[s1, s2]))
    return events


def run_traces(ctx, n, zf):
    rng = random.Random(ctx.seed * 6007 + 8)
    events = random_events(rng, n)
    slim = [{k: v for k, v in e.items() if k != 'got'} for e in events]
    accepted, bad, res = validate_trace('Trace_Priors', 'Trace_Priors.cfg', slim, env={'PRIORS_Z_FILE': zf})
    ctx.add_tlc('trace', res, counts=False)
    if res.postcondition_false and not bad:
        raise Machinery('trace spec did not consume the whole trace:\n' + res.out[-1500:])
    badids = {b['id']: b for b in bad}
    ctx.traces += len(events)
    for e in events:
        b = badids.get(e['id'])
        ctx.verdict('trace_' + (b['why'] if b else 'accepted'), b is None, cls='%s:trace' % e['kind'],
                    detail='TLC rejected samples %r of %s(%s,%s) at u=%d/%d,%d/%d' % (e['got'], e['kind'], e['a'], e['b'], e['j1'], e['UD'], e['j2'], e['UD']),
                    vector=dict(e, trace=True))
    ctx.add_sample(dict(trace_event=slim[0]))
    # canary
    for kind in ('Uniform', 'Gaussian'):
        good = [e for e in slim if e['id'] not in badids and e['kind'] == kind and 16 <= e['j1'] <= 240]   # closed bracket
        if not good:
            if any(e['kind'] == kind for e in slim if e['id'] in badids):
                continue                    # every candidate was rejected already: the validation is not vacuous
            raise Machinery('no event for the canary')
        c = dict(good[len(good) // 2])
        c['m1'] = c['m1'] + 40 * c['gtol'] + 500
        ok2, bad2, _ = validate_trace('Trace_Priors', 'Trace_Priors.cfg', [c], env={'PRIORS_Z_FILE': zf})
        if ok2 or not bad2:
            raise Machinery('canary (%s) accepted: trace validation is vacuous' % kind)


def run(ctx):
    q = ctx.tier == 'quick'
    ctx.bounds = dict(tier=ctx.tier,
                      exhaustive='all constructor calls over %s rational arguments (both orders), exponents -12..6 for lin_*, u = k/16'
                                 % ('16' if q else '48'),
                      vectors='exported calls x 3 name spellings x 3 text styles; uniform 1e-12, gaussian 1e-9 vs statistics.NormalDist',
                      traces='%d random dyadic priors/u pairs' % (4000 if q else 40000))
    ctx.assumptions = ['the normal quantile is an uninterpreted strictly increasing odd table in the spec; its numerical '
                       'values come from statistics.NormalDist.inv_cdf (stdlib), not from scipy',
                       'float 10**x at the boundary; log10(10**e) == e checked for every exponent used',
                       'degenerate intervals (equal bounds) and std <= 0 are outside the checked domain',
                       'lin_std is not part of the statement and is not checked',
                       'TLC + CommunityModules Json/IOUtils']
    zf = z_file()
    try:
        env = {'PRIORS_Z_FILE': zf}
        ctx.check_spec('exhaustive', 'MC_Priors', 'MC_Priors_%s.cfg' % ctx.tier, need_actions=('Eval',), env=env, workers=8)
        ctx.exhaustive = True
        ctx.expect_refuted('unordered-bounds-refuted', 'MC_Priors', 'MC_Priors_asgiven.cfg', 'MonotoneInv', env=env, workers=1)
        res = ctx.check_spec('export', 'MC_Priors', 'EX_Priors.cfg' if q else 'EX_Priors_thorough.cfg', env=env, workers=1)
        vecs = res.tagged('VEC')
        if len(vecs) < 300:
            raise Machinery('only %d vectors exported' % len(vecs))
        rng = random.Random(ctx.seed * 31 + 8)
        kinds = set()
        for v in vecs:
            check_vector(ctx, v, rng)
            kinds.add((v['call']['cls'], v['call']['key1']))
        if len(kinds) != 6:
            raise Machinery('exported vectors do not cover the six constructor forms: %r' % sorted(kinds))
        ctx.add_sample(dict(vector=vecs[len(vecs) // 2]))
        run_traces(ctx, 4000 if q else 40000, zf)
    finally:
        os.unlink(zf)


def replay(ctx, violations):
    zf = z_file()
    try:
        rng = random.Random(0)
        for v in violations:
            vec = v['vector']
            if vec.get('trace'):
                from taurex.core import priors
                e = {k: vec[k] for k in ('id', 'kind', 'a', 'b', 'j1', 'j2', 'UD', 'S', 'tol', 'gtol')}
                a, b = Fraction(*e['a']), Fraction(*e['b'])
                obj = getattr(priors, e['kind'])(bounds=[float(a), float(b)]) if e['kind'] in ('Uniform', 'LogUniform') \
                    else getattr(priors, e['kind'])(mean=float(a), std=float(b))
                s1, s2 = float(obj.sample(e['j1'] / e['UD'])), float(obj.sample(e['j2'] / e['UD']))
                e['bad'] = not (abs(s1) < 900 and abs(s2) < 900)
                e['m1'], e['m2'] = (0, 0) if e['bad'] else (int(round(s1 * e['S'])), int(round(s2 * e['S'])))
                _, bad, _ = validate_trace('Trace_Priors', 'Trace_Priors.cfg', [e], env={'PRIORS_Z_FILE': zf})
                ctx.verdict('trace_' + (bad[0]['why'] if bad else 'accepted'), not bad, cls='%s:trace' % e['kind'],
                            detail='samples %r %r' % (s1, s2), vector=vec)
            else:
                # rebuild the exported fields that check_vector needs from the spec again
                full = export_one(vec['call'], zf)
                check_vector(ctx, full, rng)
    finally:
        os.unlink(zf)


_EXPORT = []


def export_one(call, zf):
    """Re-export the vector of `call` from the specification (replay); one TLC run serves all."""
    if not _EXPORT:
        res = run_tlc('MC_Priors', 'EX_Priors_thorough.cfg', env={'PRIORS_Z_FILE': zf}, workers=1)
        _EXPORT.extend(res.tagged('VEC'))
    for v in _EXPORT:
        if v['call'] == call:
            return v
    raise Machinery('call %r is not in the export config' % (call,))
