"""C08 -- prior transforms are monotone inverse-CDF maps in the declared space.

Spec:  spec/Priors.tla (Build, Sample, ToModel, FromText, DefaultCall and the clauses),
       spec/MC_Priors.tla (exhaustive + vector export), spec/Trace_Priors.tla.
Binding A: every exported constructor call (all four classes, bounds in both orders, lin_* spellings)
       with the exact normal form and the exact samples on the grid u = k/16 is replayed on the real
       classes: direct construction, the documented text form through create_prior (three spellings of
       the name x tuple/list/spacing variants), the log10 form of lin_* arguments, the default prior of
       compile_params; uniform samples exact (1e-12), gaussian samples against statistics.NormalDist
       (stdlib, independent of scipy) at 1e-9.
Binding B: random dyadic priors and u pairs through the real sample(); TLC re-evaluates the
       specification on the logged arguments (scaled comparison, monotone bracket for the normal
       quantile from the uninterpreted table) + canary.

Strengthening (far tails, prior space x parameter mode):
 * tail ladder of the spec (Priors.tla: TK, TD, TailPts, TailSample, TZAssumption): u = 2^-k down to the smallest
   positive double and u = 1 - 2^-k up to the largest double below one (exactly representable), and the decimal
   points 10^-k, 1 - 10^-k (full mantissa: 2u-1 and 1-u are exact on dyadic points only).
   Exported with every vector (binding A: finite, table value, inverse-CDF identity Phi((x-mean)/sd) = u relative
   to min(u, 1-u) through math.erfc, strictly monotone along ladder + grid, mirror symmetry, 10**x handed to the
   model) and sampled as "tail" trace events (binding B).
 * spec/MC_PriorDelivery.tla: a prior of every class/constructor form attached to a parameter of every kind
   (declared linear / log, switched by set_mode either way) by every public route (set_prior, text through
   create_prior, [Fitting] section of an input file, default from mode and bounds), compile_params, then the
   sampler's step update_model([prior.sample(u)]) for the whole grid; the exported value that must reach the model
   (tag pow10 / id + exact sample) is compared with what the setters of a real ForwardModel receive through a real
   Optimizer (harness/fx_priors.py), four parameters at a time.  "deliver" trace events give binding B; the
   by_mode variant of the spec must be refuted by TLC (self-test).

Strengthening, round 2 (WHERE the fitted parameter lives):
 * Priors.tla: Owners = {model, observation}, InForce(owner, user prior, mode, bounds) -- the prior in force after
   compile_params is the user's when one was given and the default of the parameter's own mode and bounds otherwise,
   for either owner; constant Passes ("second_blind": the second pass of compile_params -- the observation's
   parameters -- does not see the user's priors) is the expected-counterexample variant.
 * MC_PriorDelivery.tla: the parameter under focus is owned by the model or by the observation and is fitted alone
   (model-only / observation-only fitted sets) or in company of a fitted parameter of the OTHER owner that has a default
   prior or a user prior of the other space (mixed sets); actions Attach, CompileModel, CompileObservation, Recompile,
   Update; invariants DeliveryInv / RouteInv per owner, UserPriorInForceInv, DefaultOnlyWhenNoneInv, OwnerInv.
   Replayed on a real Optimizer over a recording ForwardModel AND a recording BaseSpectrum subclass with @fitparam
   parameters (fx_priors.RecordingObservation): the fitted names, the prior in force (delivery_prior_attached) and what
   the setters of either owner receive (delivered_to_model / delivered_to_observation).  "deliver" trace events carry
   owner, company and whether a prior was given (else: bounds; the default of the mode must be in force).

Strengthening, round 3 (arguments are inputs; the mode as text; ONE optimizer over its life):
 * Priors.tla: Containers / ScalarKinds, ArgAfter, BuildTwice, ArgsFrame -- bounds arrive as tuple, list, float64 array or
   read-only array, means / widths as float or numpy scalar; the caller keeps the object and uses it again; constant Args
   ("lin_in_place" must be refuted on ArgsFrameInv, MC_Priors_inplace.cfg).  Binding A: every exported call is built twice
   from the same argument object in every container (argument_unchanged against a private copy, same_argument_same_prior).
 * Priors.tla: ModeSpellings / ModeLookup -- the mode of a parameter is text, found whatever its case.
 * spec/MC_PriorHistory.tla: one long-lived optimizer with a parameter under focus and a fitted companion of the opposite
   declared mode; edits SetMode (any spelling, by call or [Fitting] file), SetBoundary (any container, by call or file),
   SetOther, SetPrior (object / text / file), Again, each followed by 0..2 compile_params(); HistoryInv (the prior in force is
   a function of the CURRENT settings), ModeSpellingInv, ArgsFrameInv, RecompileInv, DefaultSupportInv; variants
   cached_by_bounds / as_typed / lin_in_place must be refuted.  Binding C: TLC-simulated walks are replayed on ONE real
   optimizer; after every compile the prior in force and what update_model delivers are compared with the exported
   observation and with a freshly built optimizer, and the bounds objects handed over are compared with private copies.
 * binding B: "deliver" events happen on optimizers that may have been compiled before under other settings, with the mode
   given in any spelling and the bounds in any container (Trace_Priors.tla: mtext, cont, pre).

Strengthening, round 4 (every keyword stands for itself; ONE prior object over its life; bounds by factor):
 * Priors.tla / MC_Priors.tla: a call gives any subset of the documented keywords (18 constructor forms: bounds | lin_bounds | left
   out; mean | lin_mean | left out x std | lin_std | left out), BuildK, LogForm for every linear-space argument, Complete /
   OmittedIsSignature (a keyword left out has the value of the documented signature); Keywords = "coupled" must be refuted on
   LinArgsInv (MC_Priors_coupled.cfg).  Binding A runs every clause on all forms; omitted_keyword_is_signature_value compares
   with the explicit call (inspect.signature).
 * spec/MC_PriorObject.tla: two long-lived prior objects; steps Set (set_bounds, any container, either order), Make (a second
   object, direct / text), Reuse (the caller rewrites its container), Look; ObjectInv (what is sampled = what is reported = the
   support given last, for both objects), ClausesInv; Setter = support_frozen / class_level / by_reference must be refuted.
   Binding C: TLC-simulated walks replayed on real objects (replay_object_walk, object_checks: reported support, inverse CDF on
   the grid with scalar and array u, monotone, back-transform, equality with a fresh object, containers against private copies;
   a third of the walks with the object attached to a real optimizer: object_delivered).
 * MC_PriorHistory.tla: SetBoundary also via set_factor_boundary / "X:factor = f, g" (factor_route).
 * quick tier: the design-level runs other than the export run in background threads; MC_Priors / MC_PriorDelivery without TLC's
   action coverage (settle_spec reads from the shape of the state graph that every action was taken).
"""
import json
import math
import os
import random
import shutil
import tempfile
from fractions import Fraction
from statistics import NormalDist

from ..core import Machinery, frac, run_tlc, validate_trace
from .. import fx_priors as fxp
from .. import fx_c08samplers as fxs

UN = 16
ZS = 100
ZTS = 100
EPS = 2.0 ** -52
SQ2 = math.sqrt(2.0)
REL_U = 1e-12
REL_G = 1e-9
ND = NormalDist()
SPELL = {'linear': ['linear'], 'log': ['log']}      # filled from the specification (MC_PriorHistory: ModeSpellings in use)
CONTS = ['list']
# short TLC runs spend most of their CPU in the JIT compiler's second tier: the quick tier (and every tiny run) stops at the first
LIGHT_JVM = '-XX:TieredStopAtLevel=1'
JVM = {'quick': True}
NOTES = set()


def tlc_env(zf, light=None):
    env = {'PRIORS_Z_FILE': zf}
    if JVM['quick'] if light is None else light:
        env['JAVA_TOOL_OPTIONS'] = LIGHT_JVM
    return env


def z_file():
    """The uninterpreted table of the spec, filled from the stdlib (not from scipy)."""
    z = [int(round(ND.inv_cdf(k / UN) * ZS)) for k in range(1, UN)]
    fd, path = tempfile.mkstemp(prefix='verifz_', suffix='.ndjson')
    with os.fdopen(fd, 'w') as f:
        f.write(json.dumps({'z': z}) + '\n')
    return path


def verify_ladder_table(cfgs):
    """The ladder tables of the spec (ZTCode / ZDCode in the cfg: k * 10000 - Z.[k], ZT[k] ~ ZTS * Phi^-1(2^-k),
    ZD[k] ~ ZTS * Phi^-1(10^-k)) are uninterpreted constants there; every entry is re-computed here by two independent
    evaluations (AS241 of the stdlib on p itself, inversion of math.erfc) before anything is concluded from it.
    The spec orders 2^-k against 10^-j with 3.3219 < log2(10) < 3.3220: checked with integers."""
    import re
    from ..core import SPEC
    if not 2 ** 33219 < 10 ** 10000 < 2 ** 33220:
        raise Machinery('log2(10) is not in (3.3219, 3.3220)')
    for cfg in cfgs:
        text = open(os.path.join(SPEC, cfg)).read()

        def ints(name):
            m = re.search(name + r' = \{([0-9,\s]+)\}', text)
            if not m:
                raise Machinery('%s: no %s' % (cfg, name))
            return [int(x) for x in m.group(1).split(',')]
        zs = re.search(r'ZTS = (\d+)', text)
        if not zs or int(zs.group(1)) != ZTS:
            raise Machinery('%s: ZTS != %d' % (cfg, ZTS))
        for base, code, pts in ((2, ints('ZTCode'), ints('TK') + [1, 2, 3, 4]), (10, ints('ZDCode'), ints('TD'))):
            table = {c // 10000: -(c % 10000) for c in code}
            for k in pts:
                if k not in table or float(base) ** -k <= 0.0:
                    raise Machinery('%s: ladder point %d^-%d has no table entry / is no positive double' % (cfg, base, k))
            for k, zt in table.items():
                u = float(base) ** -k
                q = ND.inv_cdf(u)
                if u >= 2.0 ** -1022:
                    e = erfc_quantile(-math.log(u))
                    if abs(e - q) > 1e-9 * max(1.0, abs(q)):
                        raise Machinery('normal quantile at %d^-%d: stdlib %r vs erfc inversion %r' % (base, k, q, e))
                if abs(zt - q * ZTS) > 0.5 + 1e-6:
                    raise Machinery('%s: table[%d^-%d] = %d but %d * Phi^-1 = %r' % (cfg, base, k, zt, ZTS, q * ZTS))


def lower_mass(z):
    """Phi(z) with full relative accuracy in the lower tail."""
    return 0.5 * math.erfc(-z / SQ2)


def erfc_quantile(neglog):
    """z <= 0 with ln Phi(z) = -neglog by bisection on math.erfc (the mass must be a normal double)."""
    target = -neglog
    lo, hi = -37.6, 0.0          # Phi(-37.6) ~ 1e-309 is still a positive double
    for _ in range(200):
        mid = 0.5 * (lo + hi)
        if math.log(lower_mass(mid)) < target:
            lo = mid
        else:
            hi = mid
    return 0.5 * (lo + hi)


def same(x, y, rel, scale=0.0):
    x, y = float(x), float(y)
    if x != x or y != y:
        return False
    return abs(x - y) <= rel * max(abs(x), abs(y), scale)


def klass(name):
    from taurex.core import priors
    return getattr(priors, name)


def pyval(key, v):
    """Python value of a spec argument: rationals as floats, linear-space exponents as 10**e."""
    if key in ('bounds',):
        return (float(frac(v[0])), float(frac(v[1])))
    if key == 'lin_bounds':
        return (10.0 ** int(v[0]), 10.0 ** int(v[1]))
    if key in ('lin_mean', 'lin_std'):
        return 10.0 ** int(v)
    return float(frac(v))


def kwargs_of(call):
    """The keywords of a spec call; a keyword the call leaves out ("" in the spec) is not passed."""
    kw = {}
    if call['key1']:
        kw[call['key1']] = pyval(call['key1'], call['v1'])
    if call['key2']:
        kw[call['key2']] = pyval(call['key2'], call['v2'])
    return kw


def form_of(call):
    """Constructor form (which keywords are given, in which spelling); the six forms of round 1 keep their names."""
    f = call['key1'] or 'default'
    if call['cls'] in ('Gaussian', 'LogGaussian') and call['key2'] != 'std':
        f += '+' + (call['key2'] or 'default_std')
    return f


_SIG = {}


def signature_values():
    """The values the documented signatures give to keywords that are left out (inspect, not the classes' behaviour)."""
    if not _SIG:
        import inspect
        for name in ('Uniform', 'LogUniform', 'Gaussian', 'LogGaussian'):
            _SIG[name] = {k: q.default for k, q in inspect.signature(klass(name).__init__).parameters.items()
                          if q.default is not inspect.Parameter.empty}
    return _SIG


def lin_exact(call):
    """log10(10**e) must reproduce e for the linear-space arguments used (else nothing is concluded)."""
    if call['key1'] == 'lin_bounds':
        return all(math.log10(10.0 ** int(e)) == float(int(e)) for e in call['v1'])
    if call['key1'] == 'lin_mean' and math.log10(10.0 ** int(call['v1'])) != float(int(call['v1'])):
        return False
    if call['key2'] == 'lin_std' and math.log10(10.0 ** int(call['v2'])) != float(int(call['v2'])):
        return False
    return True


def describe(p):
    """Public description of a prior object."""
    from taurex.core.priors import PriorMode
    import re
    nums = tuple(float(x) for x in re.findall(r'[-+]?(?:\d+\.?\d*(?:[eE][-+]?\d+)?|inf|nan)', p.params()))
    return dict(cls=p.__class__.__name__, mode='log' if p.priorMode is PriorMode.LOG else 'linear',
                params=nums, boundaries=tuple(float(x) for x in p.boundaries()))


def text_forms(name, kw, rng):
    """Spellings of Name(key=value, ...) allowed by the documented syntax."""
    def num(x):
        return repr(float(x)) if rng.random() < 0.7 or float(x) != int(x) else repr(int(x))
    out = []
    for style in range(3):
        parts = []
        for k, v in kw.items():
            if isinstance(v, tuple):
                if style == 0:
                    parts.append('%s=(%s, %s)' % (k, num(v[0]), num(v[1])))
                elif style == 1:
                    parts.append('%s=[%s,%s]' % (k, num(v[0]), num(v[1])))
                else:
                    parts.append('%s = ( %s , %s )' % (k, num(v[0]), num(v[1])))
            else:
                parts.append(('%s=%s' if style < 2 else '%s = %s') % (k, num(v)))
        if style == 1:
            parts = parts[::-1]              # keyword order is free
        out.append('%s(%s)' % (name, (',' if style < 2 else ' , ').join(parts)))
    return out


def check_left_out(ctx, v, cls, kw):
    """Keywords the call leaves out (Priors.tla: Complete, OmittedIsSignature): the object is the one built with the values of
    the documented signature passed explicitly.  Returns whether the signature is the one the specification carries (only then
    do the exact normal form and samples of the vector describe this call)."""
    call = v['call']
    sig = signature_values().get(call['cls'], {})
    spec_sig = {'bounds': [float(frac(x)) for x in v['sig']['bounds']], 'mean': float(frac(v['sig']['mean'])), 'std': float(frac(v['sig']['std']))}
    known = True
    full = dict(kw)
    for k in sorted(v['leftout']):
        if k not in sig:
            ctx.verdict('omitted_keyword_is_signature_value', False, cls=cls, vector=dict(call=call, p=v['p']),
                        detail='%s: keyword %s has no value in the signature %r' % (call['cls'], k, sig))
            return False
        val = sig[k]
        try:
            same_val = [float(x) for x in val] == spec_sig[k] if k == 'bounds' else float(val) == spec_sig[k]
        except Exception:
            # the signature does not say (None / a sentinel: the value is filled in by the body): the documented value of
            # the specification is what the keyword stands for
            val, same_val = spec_sig[k], True
        known = known and same_val
        full[k] = tuple(val) if k == 'bounds' else val
    try:
        short, long_ = klass(call['cls'])(**kw), klass(call['cls'])(**full)
        ds, dl = describe(short), describe(long_)
        us = (0.0625, 0.5, 0.8125)
        ok = ds == dl and [float(short.sample(u)) for u in us] == [float(long_.sample(u)) for u in us]
        detail = '%s(**%r) is %r; with %r passed explicitly %r' % (call['cls'], kw, ds, {k: full[k] for k in sorted(v['leftout'])}, dl)
    except Exception as e:
        ok, detail = False, '%s(**%r) / (**%r) raised %r' % (call['cls'], kw, full, e)
    ctx.verdict('omitted_keyword_is_signature_value', ok, cls=cls, vector=dict(call=call, p=v['p']), detail=detail)
    if not known:
        NOTES.add('the signature of %s gives %r to keywords left out, the specification %r: calls that leave them out are compared '
                  'with the explicit call only' % (call['cls'], {k: sig[k] for k in sorted(v['leftout'])}, {k: spec_sig[k] for k in sorted(v['leftout'])}))
    return known


def check_vector(ctx, v, rng):
    from taurex.parameter.factory import create_prior
    from taurex.optimizer.optimizer import compile_params
    call, p = v['call'], v['p']
    kind = p['kind']
    uni = kind in ('Uniform', 'LogUniform')
    cls = '%s:%s' % (call['cls'], form_of(call))
    if uni and call['key1']:
        order = 'reversed' if frac(call['v1'][0]) > frac(call['v1'][1]) else 'ordered'
        cls += ':' + order
    if not lin_exact(call):
        raise Machinery('log10(10**e) not exact for %r' % (call,))
    kw = kwargs_of(call)
    if v['leftout'] and not check_left_out(ctx, v, cls, kw):
        return
    try:
        obj = klass(call['cls'])(**kw)
        d = describe(obj)
        obj.sample(0.5)
    except Exception as e:
        ctx.verdict('declared_space', False, cls=cls, vector=dict(call=call, p=p),
                    detail='%s(**%r) raised %r' % (call['cls'], kw, e))
        return
    a, b = float(frac(p['a'])), float(frac(p['b']))
    vec = dict(call=call, p=p)
    # --- declared space and back-transform
    ctx.verdict('declared_space', d['cls'] == kind and d['mode'] == v['space'], cls=cls, vector=vec,
                detail='got %s/%s expected %s/%s' % (d['cls'], d['mode'], kind, v['space']))
    for x in [t for t in (a, b, -2.0, 0.5, 3.0) if abs(t) <= 300]:      # 10**x must be a float
        want = 10.0 ** x if v['space'] == 'log' else x
        ctx.verdict('back_transform', same(obj.prior(x), want, 1e-12), cls=cls, vector=dict(vec, x=x),
                    detail='prior(%r) = %r expected %r' % (x, obj.prior(x), want))
    # --- support / parameters
    if uni:
        ctx.verdict('onto_support', same(d['boundaries'][0], a, REL_U) and same(d['boundaries'][1], b, REL_U)
                    and same(obj.sample(0.0), a, REL_U) and same(obj.sample(1.0), b, REL_U), cls=cls, vector=vec,
                    detail='boundaries %r sample(0)=%r sample(1)=%r expected [%r,%r]'
                           % (d['boundaries'], obj.sample(0.0), obj.sample(1.0), a, b))
    else:
        s0, s1 = float(obj.sample(0.0)), float(obj.sample(1.0))
        ctx.verdict('onto_support', s0 == float('-inf') and s1 == float('inf'), cls=cls, vector=vec,
                    detail='gaussian sample(0)=%r sample(1)=%r' % (s0, s1))
    # --- inverse CDF on the grid, monotone
    prev = None
    mono = True
    for k, s in enumerate(v['s']):
        if (not uni) and k in (0, UN):
            continue
        u = k / UN
        got = float(obj.sample(u))
        if uni:
            want = float(frac(s))
            ok = same(got, want, REL_U, scale=max(abs(a), abs(b)))
            clause = 'inverse_cdf_uniform'
        else:
            table = float(frac(s))                     # specification's value with the rounded table
            want = a + b * ND.inv_cdf(u)               # boundary evaluation, independent of scipy
            ok = same(got, want, REL_G, scale=max(abs(a), abs(b))) and abs(got - table) <= b * 0.5 / ZS + 1e-9
            clause = 'inverse_cdf_gaussian'
        ctx.verdict(clause, ok, cls=cls, vector=dict(vec, k=k), detail='sample(%r) = %r expected %r' % (u, got, want))
        if prev is not None and not got > prev:
            mono = False
        prev = got
    ctx.verdict('monotone', mono, cls=cls, vector=vec, detail='samples on the grid are not increasing')
    check_tail(ctx, v, obj, cls, a, b, uni)
    check_args_frame(ctx, v, obj, d, cls, kw)
    # --- linear-space arguments == their log10
    if v['logform'] != call:
        lf = v['logform']
        other = klass(lf['cls'])(**kwargs_of(lf))
        same_obj = describe(other) == d and all(same(other.sample(k / UN), obj.sample(k / UN), 1e-12) for k in range(1, UN))
        ctx.verdict('lin_args_equivalent', same_obj, cls=cls, vector=vec,
                    detail='%r vs %r' % (describe(other), d))
    # --- text form == direct construction
    for name in v['names']:
        for text in text_forms(name, kw, rng):
            try:
                t = create_prior(text)
                dt = describe(t)
                ok = dt == d and all(same(t.sample(k / UN), obj.sample(k / UN), 0.0) for k in range(1, UN)) \
                    and t.prior(0.25) == obj.prior(0.25)
                detail = '%s -> %r, direct %r' % (text, dt, d)
            except Exception as e:
                ok, detail = False, '%s raised %r' % (text, e)
            ctx.verdict('text_equals_direct', ok, cls=cls + ':' + ('exact' if name == call['cls'] else 'lower' if name.islower() else 'upper'),
                        vector=dict(vec, text=text), detail=detail)
    for bad in ('Foo', 'Log'):
        text = text_forms(bad, kw, rng)[0]
        try:
            create_prior(text)
            ok = False
        except Exception:
            ok = True
        ctx.verdict('unknown_name_is_error', ok, cls=cls, vector=dict(vec, text=text), detail='%s was accepted' % text)
    # --- default prior from mode and bounds (compile_params)
    if (call['cls'], call['key1']) in (('Uniform', 'bounds'), ('LogUniform', 'lin_bounds')):
        mode = 'log' if call['key1'] == 'lin_bounds' else 'linear'
        bounds = list(kw[call['key1']])
        tup = ('x', 'x', lambda: 1.0, lambda val: None, mode, True, bounds)
        _, pri, _, _ = compile_params({'x': tup}, {}, None)
        dd = describe(pri[0]) if len(pri) == 1 else None
        ctx.verdict('default_from_mode_and_bounds', dd == d, cls=cls, vector=vec,
                    detail='default for mode=%s bounds=%r is %r, direct %r' % (mode, bounds, dd, d))



# ------------------------------------------------------------------ arguments are inputs (Priors.tla: ArgsFrame)
def make_arg(kind, value):
    """An argument object of the spec's container / scalar kind holding `value`, and a private copy of its contents."""
    import numpy as np
    if isinstance(value, (tuple, list)):
        vals = [float(x) for x in value]
        if kind == 'tuple':
            return tuple(vals), list(vals)
        if kind == 'list':
            return list(vals), list(vals)
        if kind in ('ndarray', 'ndarray_readonly'):
            obj = np.array(vals, dtype=np.float64)
            if kind == 'ndarray_readonly':
                obj.setflags(write=False)
            return obj, list(vals)
        raise Machinery('container %r of the specification is not bound' % (kind,))
    if kind == 'float':
        return float(value), [float(value)]
    if kind == 'numpy_float64':
        return np.float64(value), [float(value)]
    raise Machinery('scalar kind %r of the specification is not bound' % (kind,))


def arg_intact(obj, copy):
    """The caller's object still holds what it held when it was handed over."""
    try:
        now = [float(x) for x in obj] if hasattr(obj, '__len__') else [float(obj)]
    except Exception as e:
        return False, 'unreadable (%r)' % (e,)
    return len(now) == len(copy) and all(x == y for x, y in zip(now, copy)), repr(now)


def check_args_frame(ctx, v, obj, d, cls, kw):
    """Every container of the spec for the call's arguments; the same argument object is used for two constructions."""
    call = v['call']
    if not (v['twice'][0] == v['p'] and v['twice'][1] == v['p']):
        raise Machinery('the specification builds %r from a re-used argument of %r' % (v['twice'], call))
    if not kw:
        return                                  # no argument object is handed over
    kinds = v['conts'] if any(isinstance(x, tuple) for x in kw.values()) else v['scalars']
    ref = [float(obj.sample(u)) for u in (0.3125, 0.875)]
    for kind in sorted(kinds):
        made = {k: make_arg(kind, val) for k, val in kw.items()}
        vec = dict(call=call, p=v['p'], container=kind)
        c2 = '%s:container=%s' % (cls, kind)
        try:
            objs = [klass(call['cls'])(**{k: m[0] for k, m in made.items()}) for _ in range(2)]
            ds = [describe(o) for o in objs]
            ss = [[float(o.sample(u)) for u in (0.3125, 0.875)] for o in objs]
        except Exception as e:
            ctx.verdict('same_argument_same_prior', False, cls=c2, vector=vec,
                        detail='%s built twice from the same %s argument raised %r' % (call['cls'], kind, e))
            continue
        intact = {k: arg_intact(*m) for k, m in made.items()}
        ctx.verdict('argument_unchanged', all(i[0] for i in intact.values()), cls=c2, vector=vec,
                    detail='after %s(%s=<%s>) the caller\'s object holds %s, it held %s'
                           % (call['cls'], call['key1'], kind, {k: i[1] for k, i in intact.items()}, {k: m[1] for k, m in made.items()}))
        ctx.verdict('same_argument_same_prior', ds[0] == d and ds[1] == d and ss[0] == ref and ss[1] == ref, cls=c2, vector=vec,
                    detail='first %r, second %r from the same %s object; from a tuple of floats %r' % (ds[0], ds[1], kind, d))


def default_objects():
    """What the four classes give when every argument is left out (compared at the start and at the end of the run: the
    defaults are not touched by anything that was built in between)."""
    out = {}
    for name in ('Uniform', 'LogUniform', 'Gaussian', 'LogGaussian'):
        try:
            o = klass(name)()
            out[name] = (describe(o), float(o.sample(0.25)))
        except Exception as e:
            out[name] = ('raised', repr(e))
    return out


# ------------------------------------------------------------------ tail ladder (binding A)
def ladder_u(pt):
    """The double that is the ladder point and its exact value: binary points are doubles themselves, decimal
    points are the nearest double (as written: 1e-12, 1 - 1e-12)."""
    k, base = int(pt['k']), int(pt['base'])
    if base == 2:
        exact = Fraction(1, 2 ** k) if pt['side'] == 'lo' else 1 - Fraction(1, 2 ** k)
        u = math.ldexp(1.0, -k) if pt['side'] == 'lo' else 1.0 - math.ldexp(1.0, -k)
        if Fraction(u) != exact:
            raise Machinery('ladder point %r is not a double' % (pt,))
    else:
        u = float('1e-%d' % k) if pt['side'] == 'lo' else 1.0 - float('1e-%d' % k)
        comp = Fraction(u) if pt['side'] == 'lo' else 1 - Fraction(u)
        if abs(comp * 10 ** k - 1) > Fraction(2, 10 ** 4):        # the double is the point to 2e-4 of min(u, 1-u)
            raise Machinery('ladder point %r is not resolved by doubles' % (pt,))
    if not 0.0 < u < 1.0:
        raise Machinery('ladder point %r is not inside (0,1)' % (pt,))
    return u, Fraction(u)


def pt_name(pt):
    return ('%d^-%d' if pt['side'] == 'lo' else '1-%d^-%d') % (int(pt['base']), int(pt['k']))


def tail_region(pt):
    u, _ = ladder_u(pt)
    t = min(u, 1.0 - u)
    return '%s:%s:%s' % (pt['side'], 'dyadic' if int(pt['base']) == 2 else 'decimal',
                         'min(u,1-u)>=1e-9' if t >= 1e-9 else '>=1e-16' if t >= 1e-16 else '>=1e-300' if t >= 1e-300 else '<1e-300')


def check_tail(ctx, v, obj, cls, a, b, uni):
    """The clauses of the property on the spec's tail ladder (exported with the vector)."""
    pts, exp = v['tpts'], v['t']
    vec = dict(v['_vec']) if v.get('_vec') else dict(call=v['call'], p=v['p'])
    log_kind = v['space'] == 'log'
    seq = []                                   # (u, got) in increasing order of u: ladder below the grid, grid ends, ladder above
    n_lo = sum(1 for pt in pts if pt['side'] == 'lo')
    by_pt = {}
    for i, (pt, e) in enumerate(zip(pts, exp)):
        if i == n_lo:                           # the ladder meets the grid here
            seq.append((1.0 / UN, float(obj.sample(1.0 / UN))))
            seq.append((1.0 - 1.0 / UN, float(obj.sample(1.0 - 1.0 / UN))))
        u, uq = ladder_u(pt)
        k = int(pt['k'])
        tmass = u if pt['side'] == 'lo' else 1.0 - u          # min(u, 1-u), exact in doubles
        region = cls + ':' + tail_region(pt)
        pvec = dict(vec, tail=pt)
        try:
            got = float(obj.sample(u))
        except Exception as ex:
            ctx.verdict('tail_finite', False, cls=region, vector=pvec, detail='sample(%s) raised %r' % (pt_name(pt), ex))
            continue
        seq.append((u, got))
        if int(pt['base']) == 2:
            by_pt[(pt['side'], k)] = got
        if not math.isfinite(got):
            ctx.verdict('tail_finite', False, cls=region, vector=pvec,
                        detail='sample(%s) = %r for 0 < u < 1 (%s(%r, %r))' % (pt_name(pt), got, v['p']['kind'], a, b))
            continue
        ctx.verdict('tail_finite', True, cls=region, vector=pvec)
        if uni:
            want = frac(e['a']) + frac(e['w']) * uq                 # the spec's linear form at the exact u
            tol = REL_U * max(abs(a), abs(float(want))) + math.ldexp(1.0, -1074)      # + the quantum of subnormal doubles
            ok = abs(Fraction(got) - want) <= tol and a - tol <= got <= b + tol
            ctx.verdict('tail_inverse_cdf_uniform', ok, cls=region, vector=pvec,
                        detail='sample(%s) = %r expected %r in [%r, %r]' % (pt_name(pt), got, float(want), a, b))
        else:
            table = float(frac(e))
            z = (got - a) / b
            ok = abs(got - table) <= b * 0.5 / ZTS + 1e-9 * max(abs(a), b)
            detail = 'sample(%s) = %r, specification table %r +- %r' % (pt_name(pt), got, table, b * 0.5 / ZTS)
            if int(pt['base']) == 10 and pt['side'] == 'hi':       # the double's 1-u differs from 10^-k by up to 2e-4 relative
                ok = abs(got - table) <= b * (0.5 / ZTS + 1e-4) + 1e-9 * max(abs(a), b)
            if ok and tmass >= 2.0 ** -1022:
                # inverse-CDF identity relative to min(u, 1-u): the tail mass at the sample is 2^-k
                mass = lower_mass(z) if pt['side'] == 'lo' else lower_mass(-z)
                dz = 4 * EPS * max(abs(a), abs(got), b * abs(z)) / b          # rounding of x = mean + sd z
                tol = REL_G + 2 * (abs(z) + 1) * dz                           # d ln(mass)/dz <= |z| + 1 in the tails
                rel = mass / tmass - 1.0
                ok = abs(rel) <= tol
                detail = 'sample(%s) = %r: Phi((x-mean)/sd) misses %s by %.3g relative (allowed %.3g)' % (
                    pt_name(pt), got, 'u' if pt['side'] == 'lo' else '1-u', rel, tol)
            ctx.verdict('tail_inverse_cdf_gaussian', ok, cls=region, vector=pvec, detail=detail)
        if log_kind and abs(got) <= 300:
            m = obj.prior(got)
            ctx.verdict('tail_back_transform', same(m, 10.0 ** got, 1e-12) and m > 0, cls=region, vector=pvec,
                        detail='prior(sample(%s)) = %r expected %r' % (pt_name(pt), m, 10.0 ** got))
    # monotone along ladder + grid ends: strict for the normal kinds (the ladder points are far apart in x),
    # non-decreasing for the uniform kinds (lo + u w rounds to lo for tiny u unless lo = 0)
    bad = [(seq[i], seq[i + 1]) for i in range(len(seq) - 1)
           if not (seq[i + 1][1] >= seq[i][1] if uni else seq[i + 1][1] > seq[i][1])]
    ctx.verdict('tail_monotone', not bad, cls=cls, vector=vec,
                detail='not increasing: sample(%r) = %r, sample(%r) = %r' % (bad[0][0][0], bad[0][0][1], bad[0][1][0], bad[0][1][1]) if bad else '')
    if not uni:
        for (side, k), lo in by_pt.items():
            if side == 'lo' and ('hi', k) in by_pt and math.isfinite(lo) and math.isfinite(by_pt[('hi', k)]):
                hi = by_pt[('hi', k)]
                ctx.verdict('tail_symmetric', abs(lo + hi - 2 * a) <= REL_G * max(abs(a), abs(lo), abs(hi)), cls=cls,
                            vector=dict(vec, tail=dict(side='lo', base=2, k=k)),
                            detail='sample(2^-%d) + sample(1-2^-%d) = %r expected %r' % (k, k, lo + hi, 2 * a))


# ------------------------------------------------------------------ delivery through the optimizer (binding A)
def dlv_key(v):
    return json.dumps([v.get('via', 'direct'), v.get('focus', 'model'), v.get('comp', 'alone'), v['pk'], v['route'], v['name'], v['call']],
                      sort_keys=True)


class CubeCoordinate(object):
    """One coordinate of the callable a sampler was handed, seen as u -> value at the cube point (u, .., u); the
    callable is evaluated once per u for all coordinates."""

    def __init__(self, cube_at, idx, pri):
        self.cube_at, self.idx, self.pri = cube_at, idx, pri

    def sample(self, u):
        return self.cube_at(u)[self.idx]

    def prior(self, x):
        return self.pri.prior(x)


def fitted_set(v):
    return '%s-only' % v['focus'] if v['comp'] == 'alone' else 'mixed(company:%s)' % v['comp']


def dlv_cls(v, slot):
    return '%s:%s|mode=%s(%s)|route=%s|owner=%s(%s)|set=%s' % (slot['call']['cls'], slot['call']['key1'], slot['mode'], slot['pk'],
                                                           slot['route'], slot['owner'], slot['role'], fitted_set(v))


def spec_bounds(slot):
    """The parameter's linear-space bounds as the spec carries them (exponents for a log-mode parameter)."""
    return pyval('lin_bounds' if slot['mode'] == 'log' else 'bounds', slot['bounds'])


def dlv_item(slot, rng):
    """The public calls that realise the spec's Attach action for one fitted parameter (of either owner)."""
    call = slot['call']
    kw = kwargs_of(call)
    param = fxp.PARAM[(slot['owner'], slot['pk'])]
    it = dict(param=param, mode_switch=fxp.SWITCH.get(param), route=slot['route'], prior=None, text=None, bounds=None)
    if it['mode_switch']:                        # set_mode / "X:mode = .." in any spelling of the specification
        it['mode_switch'] = rng.choice(SPELL[it['mode_switch']])
    if slot['route'] == 'default':
        it['bounds'] = kw[call['key1']]          # linear-space bounds of the parameter (10**e for a log-mode parameter)
        if tuple(it['bounds']) != tuple(spec_bounds(slot)):
            raise Machinery('default call and bounds of the slot differ: %r' % (slot,))
    else:
        if rng.random() < 0.5:                   # a user who gives a prior may set the boundaries as well: they must not matter
            it['bounds'] = spec_bounds(slot)
        if slot['route'] == 'set_prior':
            it['prior'] = klass(call['cls'])(**kw)
        else:
            it['text'] = rng.choice(text_forms(slot['name'], kw, rng))
    return it


def check_delivery_batch(ctx, batch, rng):
    """One optimizer for the vectors of the batch (same focus owner and company, distinct parameter kinds, so that the
    fitted set is model-only / observation-only / mixed exactly as in the spec): Attach for every fitted parameter of
    either owner, Compile (once or again), then the sampler's step for every u of the grid; what each owner's setter
    receives is compared with the exported value."""
    via = batch[0].get('via', 'direct')
    tmpdir = None
    if via == 'direct':
        opt, owners = fxp.fresh_owners()
    else:
        tmpdir = tempfile.mkdtemp(prefix='verifc08_')
        opt, owners = fxs.fresh_owners(via, tmpdir)
    try:
        _delivery_batch(ctx, batch, rng, via, opt, owners)
    finally:
        if tmpdir:
            shutil.rmtree(tmpdir, ignore_errors=True)


def _delivery_batch(ctx, batch, rng, via, opt, owners):
    slots = [(v, s) for v in batch for _, s in sorted(v['slots'].items())]
    items = [dlv_item(s, rng) for _, s in slots]
    order = list(range(len(items)))
    rng.shuffle(order)
    for i in order:
        if items[i]['route'] == 'file':
            fxp.setup_by_file(opt, [items[i]])
        else:
            fxp.setup_by_calls(opt, [items[i]])
    ncompile = 1 + (rng.random() < 0.3)          # the spec's Recompile: compiling again changes nothing
    for _ in range(ncompile):
        opt.compile_params()
    names = [p[0] for p in opt.fitting_parameters]
    want_names = sorted(it['param'] for it in items)
    live = []
    for (v, s), it in zip(slots, items):
        cls = dlv_cls(v, s) if via == 'direct' else 'via=%s|%s' % (via, dlv_cls(v, s))
        slim = dict(dlv=True, via=via, focus=v['focus'], comp=v['comp'], pk=v['pk'], route=v['route'], name=v['name'], call=v['call'],
                    owner=s['owner'], slot_call=s['call'], text=it['text'], ncompile=ncompile, mtext=it['mode_switch'])
        direct = describe(klass(s['call']['cls'])(**kwargs_of(s['call'])))
        if sorted(names) != want_names or len(opt.fitting_priors) != len(names):
            ctx.verdict('delivery_prior_attached', False, cls=cls, vector=slim,
                        detail='fitted parameters %r (expected %r), %d priors' % (names, want_names, len(opt.fitting_priors)))
            continue
        pri = opt.fitting_priors[names.index(it['param'])]
        d = describe(pri)
        okp = d == direct and d['mode'] == s['space'] and d['cls'] == s['p']['kind']
        ctx.verdict('delivery_prior_attached', okp, cls=cls, vector=slim,
                    detail='prior of %s (owned by the %s, %s) after compile_params is %s(%s), expected %s: direct construction %r'
                           % (it['param'], s['owner'], 'user prior via ' + s['route'] if s['given'] else 'no prior given',
                              d['cls'], pri.params(), s['p']['kind'], direct))
        if okp:
            live.append((v, s, it, cls, slim, pri))
    # who maps the unit cube (MC_PriorDelivery: via): the check itself, or the callable the wrapper hands to its sampler
    cube_at = None
    if via != 'direct' and live:
        n = len(opt.fitting_priors)
        try:
            with fxs.fx.quiet_stdout():
                cube_map = fxs.capture(via, opt)
        except Machinery:
            raise
        except Exception as ex:
            for v, s, it, cls, slim, pri in live:
                ctx.verdict('sampler_callable_accepted', False, cls=cls, vector=slim, detail='%s.compute_fit() raised %r before its sampler was called' % (via, ex))
            return
        memo = {}

        def cube_at(u):
            if u not in memo:
                try:
                    out = cube_map([u] * n)
                    memo[u] = out if len(out) == n else RuntimeError('the callable returned %d values for a %d-cube' % (len(out), n))
                except Machinery:
                    raise
                except Exception as ex:
                    memo[u] = ex
            if isinstance(memo[u], Exception):
                raise memo[u]
            return memo[u]
    for k in range(UN + 1):
        u = k / UN
        if cube_at is None:
            cube = [float(q.sample(u)) for q in opt.fitting_priors]
        else:
            try:
                cube = list(cube_at(u))
            except Exception as ex:
                for v, s, it, cls, slim, pri in live:
                    if s['recv'][k]['sp'] != 'none':
                        ctx.verdict('sampler_callable_accepted', False, cls=cls, vector=dict(slim, k=k),
                                    detail='the callable %s handed to its sampler raised %r at the cube point u=%d/%d' % (via, ex, k, UN))
                continue
        before = {o: {n: len(r) for n, r in owners[o].received.items()} for o in owners}
        opt.update_model(cube)
        for v, s, it, cls, slim, pri in live:
            r = s['recv'][k]
            if r['sp'] == 'none':
                continue
            got_all = owners[s['owner']].received[it['param']][before[s['owner']][it['param']]:]
            a, b = float(frac(s['p']['a'])), float(frac(s['p']['b']))
            uni = s['p']['kind'] in ('Uniform', 'LogUniform')
            x = float(frac(r['x'])) if uni else a + b * ND.inv_cdf(u)
            rel = REL_U if uni else REL_G
            if len(got_all) != 1:
                ok, detail = False, 'setter of %s called %d times by update_model' % (it['param'], len(got_all))
            else:
                got = float(got_all[0])
                if r['sp'] == 'pow10':          # the owner must receive 10**x: compare in the prior's own (log10) space
                    ok = got > 0 and math.isfinite(got) and abs(math.log10(got) - x) <= rel * max(abs(x), abs(a), abs(b)) + 1e-14
                    ok = ok and (uni or abs(math.log10(got) - float(frac(r['x']))) <= b * 0.5 / ZS + 1e-9)
                    detail = 'received %r, expected 10**%r = %r' % (got, x, 10.0 ** x if abs(x) < 300 else None)
                else:
                    ok = same(got, x, rel, scale=max(abs(a), abs(b)))
                    ok = ok and (uni or abs(got - float(frac(r['x']))) <= b * 0.5 / ZS + 1e-9)
                    detail = 'received %r, expected %r' % (got, x)
                detail = '%s of the %s (mode %s) with %s(%s) via %s, u=%d/%d: %s' % (
                    it['param'], s['owner'], s['mode'], s['p']['kind'], pri.params(), s['route'], k, UN, detail)
            ctx.verdict('delivered_to_model' if s['owner'] == 'model' else 'delivered_to_observation', ok, cls=cls,
                        vector=dict(slim, k=k), detail=detail)
    if cube_at is None:
        return
    # the rest of the callable's domain: the tail ladder of the specification (SamplerInv), every coordinate of the cube --
    # the clauses of binding A (exact rational for the uniform kinds, table + inverse-CDF identity for the normal kinds,
    # monotone, symmetric, finite) on what the SAMPLER gets
    for v, s, it, cls, slim, pri in live:
        a, b = float(frac(s['p']['a'])), float(frac(s['p']['b']))
        uni = s['p']['kind'] in ('Uniform', 'LogUniform')
        idx = names.index(it['param'])
        if len(s['t']) != len(v['tpts']):
            raise Machinery('delivery export: %d ladder values for %d points' % (len(s['t']), len(v['tpts'])))
        check_tail(ctx, dict(tpts=v['tpts'], t=s['t'], call=s['call'], p=s['p'], space=s['space'], _vec=slim),
                   CubeCoordinate(cube_at, idx, pri), cls, a, b, uni)


def run_delivery(ctx, zf, vecs=None, only=None, started=None):
    env = tlc_env(zf)
    tiny = tlc_env(zf, True)
    if vecs is None:
        need = ('Attach', 'CompileModel', 'CompileObservation', 'Recompile', 'Update')
        if started is not None:
            res = started['delivery'].result()
            # Init -> Attach -> CompileModel -> CompileObservation -> Update, and one Recompile self-loop per exported fitted set
            res = settle_spec(ctx, 'delivery', res, need, chain=(5, len(res.tagged('DLV'))))
        else:
            res = ctx.check_spec('delivery', 'MC_PriorDelivery', 'MC_PriorDelivery_%s.cfg' % ctx.tier, need_actions=need, env=env, workers=1)
        ctx.expect_refuted('delivery-by-mode-refuted', 'MC_PriorDelivery', 'MC_PriorDelivery_bymode.cfg', 'DeliveryInv', env=tiny, workers=4)
        ctx.expect_refuted('delivery-sampler-clips-cube-refuted', 'MC_PriorDelivery', 'MC_PriorDelivery_clipped.cfg', 'SamplerInv', env=tiny, workers=4)
        ctx.expect_refuted('delivery-second-pass-blind-refuted', 'MC_PriorDelivery', 'MC_PriorDelivery_secondblind.cfg',
                           'UserPriorInForceInv', env=tiny, workers=4)
        vecs = res.tagged('DLV')
        # vacuity guard: every constructor form x every parameter kind x both owners, every route, prior space != parameter
        # mode included, every fitted set (model-only, observation-only, mixed with a default / a user prior in company)
        combos = {(v['call']['cls'], v['call']['key1'], v['pk'], v['focus']) for v in vecs if v['route'] != 'default'}
        routes = {(v['route'], v['focus']) for v in vecs}
        crossed = {(s['owner'], s['space'], s['mode']) for v in vecs for s in v['slots'].values()}
        sets = {(v['focus'], v['comp'], tuple(sorted(v['slots']))) for v in vecs}
        given = {(s['owner'], s['role'], s['given']) for v in vecs for s in v['slots'].values()}
        vias = {(v.get('via'), v['focus'], v['comp'], v['route'], v['call']['cls']) for v in vecs}
        # every sampler's callable: both owners in focus, the four classes by a user route and the two default classes, a mixed set
        SAMPLER_VIAS = sampler_vias(ctx.tier)
        per = {w: {(x[1], x[3] == 'default', x[4]) for x in vias if x[0] == w} for w in SAMPLER_VIAS}
        mixed = {w: any(x[0] == w and x[2] == 'user' for x in vias) for w in SAMPLER_VIAS}
        if {x[0] for x in vias} != set(SAMPLER_VIAS) or any(len(per[w]) != 2 * (4 + 2) or not mixed[w] for w in SAMPLER_VIAS):
            raise Machinery('delivery export: who maps the cube x owner x route x class incomplete: %r' % ({w: sorted(per[w]) for w in per},))
        if len(combos) != 48 or len(routes) != 8 or len(crossed) != 8 or len(given) != 8 or sets != {
                ('model', 'alone', ('model',)), ('observation', 'alone', ('observation',)),
                ('model', 'default', ('model', 'observation')), ('observation', 'default', ('model', 'observation')),
                ('model', 'user', ('model', 'observation')), ('observation', 'user', ('model', 'observation'))}:
            raise Machinery('delivery export incomplete: %d form x kind x owner combinations, routes %r, owner x space x mode %r, '
                            'fitted sets %r, owner x role x given %r' % (len(combos), sorted(routes), sorted(crossed), sorted(sets), sorted(given)))
    rng = random.Random(ctx.seed * 9176 + 8)
    groups = {}
    for v in vecs:
        groups.setdefault((v.get('via', 'direct'), v['focus'], v['comp']), {}).setdefault(v['pk'], []).append(v)
    nb = 0
    for _, bykind in sorted(groups.items()):
        for g in bykind.values():
            g.sort(key=dlv_key)
            rng.shuffle(g)
        n = max(len(g) for g in bykind.values())
        for i in range(n):
            batch = [g[i % len(g)] for _, g in sorted(bykind.items())]
            if only is not None:
                batch = [v for v in batch if dlv_key(v) in only]
                if not batch:
                    continue
            check_delivery_batch(ctx, batch, rng)
            nb += 1
    ctx.note('delivery: %d exported (owner, company, parameter kind, route, call) vectors replayed in %d optimizers' % (len(vecs), nb))
    if vecs:
        mixed = [v for v in vecs if v['focus'] == 'observation' and v['comp'] == 'user' and v['route'] != 'default'] or vecs
        ctx.add_sample(dict(delivery_vector={k: mixed[0][k] for k in ('focus', 'comp', 'pk', 'mode', 'route', 'name', 'call')},
                            slots={o: dict({k: s[k] for k in ('pk', 'mode', 'route', 'call', 'given', 'p', 'space')}, recv=s['recv'][:3])
                                   for o, s in mixed[0]['slots'].items()}))
    return vecs



# ------------------------------------------------------------------ one optimizer over its life (binding C, MC_PriorHistory.tla)
# MC_PriorDelivery_<tier>.cfg: Samplers (dypolychord ignored the priors in force until the L-C08b repair, /repo dd8cbe3)
def sampler_vias(tier):
    return ('direct', 'nestle', 'multinest', 'polychord', 'dypolychord')
HK = (0, 3, 8, 13, 16)                  # grid points at which update_model is observed after every compile
HIST_ACTIONS = ('mode', 'bounds', 'other', 'prior', 'again')


def from_normal_form(p):
    """The prior of the spec's normal form [kind, a, b] constructed directly."""
    a, b = float(frac(p['a'])), float(frac(p['b']))
    if p['kind'] in ('Uniform', 'LogUniform'):
        return klass(p['kind'])(bounds=(a, b))
    return klass(p['kind'])(mean=a, std=b)


def spelling_class(text):
    return 'lower' if text.islower() else 'upper' if text.isupper() else 'capitalised' if text == text.capitalize() else 'mixed'


def received_ok(r, got_all, p, k):
    """What one update_model handed to a setter against the exported delivery r = [sp, x] of prior p at u = k/UN."""
    a, b = float(frac(p['a'])), float(frac(p['b']))
    uni = p['kind'] in ('Uniform', 'LogUniform')
    x = float(frac(r['x'])) if uni else a + b * ND.inv_cdf(k / UN)
    rel = REL_U if uni else REL_G
    if len(got_all) != 1:
        return False, 'setter called %d times by update_model' % len(got_all)
    try:
        got = float(got_all[0])
    except Exception as e:
        return False, 'received %r (%r)' % (got_all[0], e)
    if r['sp'] == 'pow10':
        ok = got > 0 and math.isfinite(got) and abs(math.log10(got) - x) <= rel * max(abs(x), abs(a), abs(b)) + 1e-14
        ok = ok and (uni or abs(math.log10(got) - float(frac(r['x']))) <= b * 0.5 / ZS + 1e-9)
        return ok, 'received %r, expected 10**%r' % (got, x)
    ok = same(got, x, rel, scale=max(abs(a), abs(b)))
    ok = ok and (uni or abs(got - float(frac(r['x']))) <= b * 0.5 / ZS + 1e-9)
    return ok, 'received %r, expected %r' % (got, x)


def observe_optimizer(opt, owners, params):
    """(describe of the prior in force, what the setter receives at every u of HK) per parameter of `params`; raises when
    the fitted set is not exactly `params`."""
    names = [q[0] for q in opt.fitting_parameters]
    if sorted(names) != sorted(params.values()) or len(opt.fitting_priors) != len(names):
        raise LookupError('fitted parameters %r with %d priors, expected %r' % (names, len(opt.fitting_priors), sorted(params.values())))
    out = {slot: dict(prior=opt.fitting_priors[names.index(par)], recv={}) for slot, par in params.items()}
    log = {slot: owners[own_of(owners, par)].received[par] for slot, par in params.items()}
    for k in HK:
        cube = [float(q.sample(k / UN)) for q in opt.fitting_priors]
        before = {slot: len(log[slot]) for slot in params}
        opt.update_model(cube)
        for slot in params:
            out[slot]['recv'][k] = list(log[slot][before[slot]:])
    for slot in out:
        out[slot]['d'] = describe(out[slot]['prior'])
    return out


def rget(exp, k):
    """delivery at grid point k of an exported observation (as exported: a list over the grid; as kept with a violation: HK only)"""
    return exp['recv'][k] if isinstance(exp['recv'], list) else exp['recv'][str(k)]


def own_of(owners, param):
    return 'model' if param in owners['model'].received else 'observation'


def factor_route(bounds, rng):
    """(value, factors) with factors[i] * value == bounds[i] exactly in doubles (bounds are powers of ten)."""
    cands = [10.0 ** c for c in (1, -1, 2, -2, 3)]
    rng.shuffle(cands)
    for value in cands + [1.0]:
        factors = tuple(b / value for b in bounds)
        if all(f * value == b and f > 0 for f, b in zip(factors, bounds)):
            return value, factors
    raise Machinery('no exact factors for the bounds %r' % (bounds,))


def replay_walk(ctx, w, rng):
    """One exported walk on ONE real optimizer.  After every compile: the prior in force and what is delivered against
    the exported observation; the bounds objects handed over against private copies; after the last compile of a step
    also against an optimizer freshly built with the current settings."""
    opposite = {'linear': 'log', 'log': 'linear'}
    kind_of = {'linear': 'lin', 'log': 'log'}
    fp = fxp.PARAM[(w['owner'], kind_of[w['decl']])]
    cp = fxp.PARAM[(w['cown'], kind_of[opposite[w['decl']]])]
    params = dict(focus=fp, company=cp)
    opt, owners = fxp.fresh_owners()
    opt.enable_fit(fp)
    opt.enable_fit(cp)
    held = {}                               # slot -> (object, private copy, container) of the bounds object in the parameter table
    came = {}                               # slot -> route by which the present bounds came when no object of the caller's is held
    cur = dict(mtext='', call=None)
    trail = []
    done = []                               # the steps so far, as exported (kept with a violation: the replay needs nothing else)

    def vec(i):
        return dict(hist=True, owner=w['owner'], cown=w['cown'], decl=w['decl'], walk=done[:i + 1])

    def bounds_of(e):
        return tuple(10.0 ** int(x) for x in e['b'])

    for i, step in enumerate(w['walk']):
        e, n = step['e'], int(step['e']['n'])
        slim_step = dict(e=e, settings=step['settings'],
                         obs={sl: dict(o, recv={str(k): rget(o, k) for k in HK}) if 'recv' in o else o for sl, o in step['obs'].items()})
        done.append(slim_step)
        vi = vec(i)
        what = e['op'] + ((':' + spelling_class(e['text'])) if e['op'] == 'mode' else (':' + e['ct']) if e['op'] in ('bounds', 'other') else
                          (':' + e['call']['cls']) if e['op'] == 'prior' else '') + ':' + e['via']
        trail.append('%s%s' % (what, '+%dcompile' % n if n else ''))
        base = 'after=%s|owner=%s|company-owner=%s|declared=%s' % (what, w['owner'], w['cown'], w['decl'])
        try:
            if e['op'] in ('bounds', 'other'):
                slot, par = ('focus', fp) if e['op'] == 'bounds' else ('company', cp)
                if e['via'] == 'file':
                    lo, hi = bounds_of(e)
                    fxp.apply_fitting_lines(opt, ['%s:fit = True' % par, '%s:bounds = %r, %r' % (par, lo, hi)])
                    held.pop(slot, None)
                    came[slot] = 'file'
                elif e['via'] in ('factor', 'factor_file'):
                    # the other public route to the bounds: factors of the parameter's present value
                    value, factors = factor_route(bounds_of(e), rng)
                    owners[own_of(owners, par)].values[par] = value
                    if e['via'] == 'factor':
                        fobj, fcopy = make_arg(rng.choice(['tuple', 'list', 'ndarray_readonly']), factors)
                        opt.set_factor_boundary(par, fobj)
                        ok, now = arg_intact(fobj, fcopy)
                        ctx.verdict('argument_unchanged', ok, cls='set_factor_boundary:%s|%s' % (slot, base), vector=vi,
                                    detail='the factors handed to set_factor_boundary(%s, ..) hold %s, they held %r' % (par, now, fcopy))
                    else:
                        fxp.apply_fitting_lines(opt, ['%s:fit = True' % par, '%s:factor = %r, %r' % (par, factors[0], factors[1])])
                    held.pop(slot, None)
                    came[slot] = e['via']
                else:
                    obj, copy = make_arg(e['ct'], bounds_of(e))
                    opt.set_boundary(par, obj)
                    held[slot] = (obj, copy, e['ct'])
            elif e['op'] == 'mode':
                if e['via'] == 'file':
                    fxp.apply_fitting_lines(opt, ['%s:fit = True' % fp, '%s:mode = %s' % (fp, e['text'])])
                else:
                    opt.set_mode(fp, e['text'])
                cur['mtext'] = e['text']
            elif e['op'] == 'prior':
                kw = kwargs_of(e['call'])
                if e['via'] == 'object':
                    opt.set_prior(fp, klass(e['call']['cls'])(**kw))
                else:
                    text = rng.choice(text_forms(e['call']['cls'], kw, rng))
                    if e['via'] == 'file':
                        fxp.apply_fitting_lines(opt, ['%s:fit = True' % fp, '%s:prior = "%s"' % (fp, text)])
                    else:
                        from taurex.parameter.factory import create_prior
                        opt.set_prior(fp, create_prior(text))
                cur['call'] = e['call']
            elif e['op'] != 'again':
                raise Machinery('unknown edit %r in an exported walk' % (e,))
        except Machinery:
            raise
        except Exception as ex:
            ctx.verdict('history_call_accepted', False, cls=base, vector=vi,
                        detail='%s raised %r after %s' % (what, ex, ' '.join(trail[:-1]) or 'the start'))
            return
        for c in range(n):
            tag = '%s|compile#%d' % (base, c + 1)
            try:
                opt.compile_params()
                seen = observe_optimizer(opt, owners, params)
            except Exception as ex:
                ctx.verdict('history_call_accepted', False, cls=tag, vector=vi,
                            detail='compile_params / update_model raised %r after %s' % (ex, ' '.join(trail)))
                return
            for slot in ('focus', 'company'):
                exp = step['obs'][slot]
                scl = '%s:%s|mode=%s|bounds-in=%s|%s' % (slot, 'user-prior' if exp['given'] else 'default', exp['mode'],
                                                         held[slot][2] if slot in held else 'file', tag)
                direct = describe(from_normal_form(exp['p']))
                got = seen[slot]['d']
                okp = got == direct and got['mode'] == exp['space']
                ctx.verdict('history_prior_in_force', okp, cls=scl, vector=vi,
                            detail='%s (%s, mode %s, bounds 10^%s) after %s: prior in force %s(%s), the current settings give %s%r'
                                   % (params[slot], slot, exp['mode'], step['settings']['bounds' if slot == 'focus' else 'ob'], ' '.join(trail),
                                      got['cls'], seen[slot]['prior'].params(), exp['p']['kind'], direct['params']))
                for k in HK:
                    r = rget(exp, k)
                    if r['sp'] == 'none':
                        continue
                    ok, detail = received_ok(r, seen[slot]['recv'][k], exp['p'], k)
                    ctx.verdict('history_delivered', ok, cls=scl, vector=dict(vi, k=k),
                                detail='%s (%s) at u=%d/%d after %s: %s' % (params[slot], slot, k, UN, ' '.join(trail), detail))
            for slot, (obj, copy, ct) in sorted(held.items()):
                ok, now = arg_intact(obj, copy)
                ctx.verdict('argument_unchanged', ok, cls='set_boundary:%s:container=%s|mode=%s|%s' % (slot, ct, step['obs'][slot]['mode'], tag), vector=vi,
                            detail='the %s object handed to set_boundary(%s, ..) holds %s after compile_params, it held %r (%s)'
                                   % (ct, params[slot], now, copy, ' '.join(trail)))
            if c == n - 1:
                # the same settings on an optimizer that has no past
                try:
                    fopt, fown = fxp.fresh_owners()
                    fopt.enable_fit(fp)
                    fopt.enable_fit(cp)
                    st = step['settings']
                    fopt.set_boundary(fp, [10.0 ** int(x) for x in st['bounds']])
                    fopt.set_boundary(cp, [10.0 ** int(x) for x in st['ob']])
                    if cur['mtext']:
                        fopt.set_mode(fp, st['mode'])
                    if cur['call'] is not None:
                        fopt.set_prior(fp, klass(cur['call']['cls'])(**kwargs_of(cur['call'])))
                    fopt.compile_params()
                    fresh = observe_optimizer(fopt, fown, params)
                    okf = all(fresh[sl]['d'] == seen[sl]['d'] and fresh[sl]['recv'] == seen[sl]['recv'] for sl in params)
                    detail = 'long-lived %r, fresh %r' % ({sl: (seen[sl]['d']['cls'], seen[sl]['d']['params']) for sl in params},
                                                        {sl: (fresh[sl]['d']['cls'], fresh[sl]['d']['params']) for sl in params})
                except Exception as ex:
                    okf, detail = False, 'the fresh optimizer raised %r' % (ex,)
                ctx.verdict('history_equals_fresh', okf, cls=tag, vector=vi, detail='after %s: %s' % (' '.join(trail), detail))
    ctx.traces += 1


def run_history(ctx, zf, started):
    """Design-level runs of MC_PriorHistory (exhaustive + three expected counterexamples), the simulated walks and their replay."""
    q = ctx.tier == 'quick'
    res = started['history-walks'].result()
    ctx.add_tlc('history-walks(simulate)', res, counts=False)
    walks = res.tagged('HIST')
    nwant = 120 if q else 1200
    if len(walks) < nwant // 2:
        raise Machinery('TLC produced only %d history walks' % len(walks))
    # vacuity: every edit, every route, every container, every spelling class and both numbers of compiles occur, and some
    # default prior is compiled again after a change of the mode alone / with an array as bounds object
    steps = [st for w in walks for st in w['walk']]
    seen = {(st['e']['op'], st['e']['via']) for st in steps if int(st['e']['n']) > 0}
    need = {('mode', 'call'), ('mode', 'file'), ('bounds', 'call'), ('bounds', 'file'), ('bounds', 'factor'), ('bounds', 'factor_file'), ('other', 'call'), ('prior', 'object'), ('prior', 'text'),
            ('prior', 'file'), ('again', 'call')}
    spells = {(st['settings']['mode'], spelling_class(st['e']['text'])) for st in steps if st['e']['op'] == 'mode' and int(st['e']['n']) > 0 and not st['settings']['given']}
    conts = {st['e']['ct'] for st in steps if st['e']['op'] == 'bounds' and st['e']['via'] == 'call'}
    if not need <= seen or len(spells) < 6 or conts != set(walks[0]['conts']) or {int(st['e']['n']) for st in steps} != {0, 1, 2} \
            or {(w['owner'], w['cown'], w['decl']) for w in walks} != {(a, b, c) for a in ('model', 'observation') for b in ('model', 'observation') for c in ('linear', 'log')}:
        raise Machinery('history walks incomplete: edits %r, mode x spelling %r, containers %r' % (sorted(seen), sorted(spells), sorted(conts)))
    for e in {int(x) for w in walks for st in w['walk'] for x in st['e']['b']}:
        if math.log10(10.0 ** e) != float(e):
            raise Machinery('log10(10**%d) is not exact' % e)
    rng = random.Random(ctx.seed * 4243 + 8)
    for w in walks:
        replay_walk(ctx, w, rng)
    ctx.note('history: %d TLC-simulated walks of %d edits (0..2 compiles each) replayed on long-lived optimizers' % (len(walks), len(walks[0]['walk'])))
    last = next(st for st in walks[0]['walk'][::-1] if int(st['e']['n']) > 0)
    ctx.add_sample(dict(history_walk=dict(owner=walks[0]['owner'], cown=walks[0]['cown'], decl=walks[0]['decl'],
                                          edits=[st['e'] for st in walks[0]['walk']]),
                        last_observation={sl: dict(p=o['p'], space=o['space'], given=o['given'], mode=o['mode'], recv=o['recv'][:3]) for sl, o in last['obs'].items()}))
    SPELL.update({m: sorted(v) for m, v in walks[0]['modes'].items()})
    CONTS[:] = sorted(walks[0]['conts'])


# ------------------------------------------------------------------ one PRIOR object over its life (binding C, MC_PriorObject.tla)
def object_checks(ctx, obj, exp, cls, vec, trail, who):
    """What one prior object shows after a step of a walk against the exported observation: the support it reports, the inverse
    CDF on the whole grid (scalar u and the grid as one array), monotonicity, the value handed to the model, and equality with
    an object built afresh from the support it was given last."""
    import numpy as np
    p, rep = exp['p'], exp['rep']
    kind = p['kind']
    uni = kind in ('Uniform', 'LogUniform')
    a, b = float(frac(p['a'])), float(frac(p['b']))
    ks = [k for k in range(UN + 1) if exp['recv'][k]['sp'] != 'none']
    after = 'after %s' % ' '.join(trail)
    try:
        d = describe(obj)
        grid = [float(obj.sample(k / UN)) for k in ks]
        arr = obj.sample(np.array([k / UN for k in ks]))
        model = [obj.prior(x) if abs(x) < 300 else None for x in grid]          # 10**x must be a float
    except Exception as ex:
        ctx.verdict('object_call_accepted', False, cls=cls, vector=vec, detail='%s (%s): %s raised %r' % (who, kind, after, ex))
        return
    ra, rb = float(frac(rep['a'])), float(frac(rep['b']))
    okr = d['cls'] == rep['kind'] and d['mode'] == exp['space'] and len(d['params']) == 2 and same(d['params'][0], ra, REL_U) and same(d['params'][1], rb, REL_U)
    if uni:
        okr = okr and same(d['boundaries'][0], ra, REL_U) and same(d['boundaries'][1], rb, REL_U)
    ctx.verdict('object_reports_support', okr, cls=cls, vector=vec,
                detail='%s %s: reports %s %r / %r, the support given last is %s(%r, %r)' % (who, after, d['cls'], d['params'], d['boundaries'], rep['kind'], ra, rb))
    bad = None
    for k, got in zip(ks, grid):
        if uni:
            want = float(frac(exp['recv'][k]['x']))
            ok = same(got, want, REL_U, scale=max(abs(a), abs(b)))
        else:
            want = a + b * ND.inv_cdf(k / UN)
            ok = same(got, want, REL_G, scale=max(abs(a), abs(b))) and abs(got - float(frac(exp['recv'][k]['x']))) <= b * 0.5 / ZS + 1e-9
        if not ok and bad is None:
            bad = 'sample(%d/%d) = %r, the inverse CDF of %s(%r, %r) gives %r' % (k, UN, got, kind, a, b, want)
    ctx.verdict('object_inverse_cdf', bad is None, cls=cls, vector=vec, detail='%s %s: %s' % (who, after, bad))
    ctx.verdict('object_monotone', all(y > x for x, y in zip(grid, grid[1:])), cls=cls, vector=vec,
                detail='%s %s: samples on the grid %r' % (who, after, grid))
    try:
        flat = np.asarray(arr, dtype=float)
        okv = flat.shape == (len(ks),) and all(same(x, y, 1e-14, scale=max(abs(a), abs(b))) for x, y in zip(flat.tolist(), grid))
    except Exception:
        okv = False
    ctx.verdict('object_vector_u', okv, cls=cls, vector=vec, detail='%s %s: sample(<array of the grid>) = %r, one by one %r' % (who, after, arr, grid))
    want_m = [10.0 ** x if exp['space'] == 'log' else x for x in grid if abs(x) < 300]
    got_m = [m for m, x in zip(model, grid) if abs(x) < 300]
    try:
        okm = all(same(m, w, 1e-12) for m, w in zip(got_m, want_m)) and all(exp['recv'][k]['sp'] == ('pow10' if exp['space'] == 'log' else 'id') for k in ks)
    except Exception:
        okm = False
    ctx.verdict('object_back_transform', okm, cls=cls, vector=vec, detail='%s %s: prior(sample) = %r expected %r' % (who, after, got_m, want_m))
    try:
        if uni:
            fresh = klass(kind)(bounds=(float(frac(exp['last'][0])), float(frac(exp['last'][1]))))
        else:
            fresh = klass(kind)(mean=a, std=b)
        fd = describe(fresh)
        okf = fd == d and [float(fresh.sample(k / UN)) for k in ks] == grid
        detail = 'long-lived %r samples %r; built afresh %r' % (d, grid[:3], fd)
    except Exception as ex:
        okf, detail = False, 'the fresh object raised %r' % (ex,)
    ctx.verdict('object_equals_fresh', okf, cls=cls, vector=vec, detail='%s %s: %s' % (who, after, detail))


def replay_object_walk(ctx, w, rng):
    """One exported walk of MC_PriorObject on two real prior objects.  In a third of the walks `main` is attached to an optimizer from
    the start (set_prior) and what update_model delivers is observed after every step as well."""
    from taurex.parameter.factory import create_prior
    objs, held, born = {}, {}, {}
    trail = []
    done = []
    opt = owners = par = None
    attach = rng.random() < 0.34
    own, pk = rng.choice(['model', 'observation']), rng.choice(sorted(fxp.KIND_PARAM))

    for i, step in enumerate(w['walk']):
        e = step['e']
        who = e['who']
        done.append(step)
        vec = dict(objhist=True, walk=list(done))
        what = e['op'] + (':' + (e['ct'] or 'text') if e['op'] in ('set', 'reuse') else
                          ':%s:%s:%s' % (e['call']['cls'], form_of(e['call']), e['how'] + (':' + e['ct'] if e['ct'] and e['call']['key1'] in ('bounds', 'lin_bounds') else ''))
                          if e['op'] == 'make' else '')
        trail.append('%s(%s)' % (what, who) if e['op'] != 'look' else 'look')
        try:
            if e['op'] == 'make':
                call = e['call']
                if not lin_exact(call):
                    raise Machinery('log10(10**e) not exact for %r' % (call,))
                kw = kwargs_of(call)
                held.pop(who, None)
                if e['how'] == 'text':
                    name = rng.choice([call['cls'], call['cls'].lower(), call['cls'].upper()])
                    objs[who] = create_prior(rng.choice(text_forms(name, kw, rng)))
                else:
                    if e['ct'] and call['key1'] in ('bounds', 'lin_bounds'):
                        made = make_arg(e['ct'], kw[call['key1']])
                        kw[call['key1']] = made[0]
                        held[who] = [made[0], made[1], e['ct']]
                    objs[who] = klass(call['cls'])(**kw)
                born[who] = '%s:%s' % (form_of(call), e['how'])
                if who == 'main' and attach:
                    opt, owners = fxp.fresh_owners()
                    par = fxp.PARAM[(own, pk)]
                    opt.enable_fit(par)
                    opt.set_prior(par, objs['main'])
            elif e['op'] == 'set':
                made = make_arg(e['ct'], (float(frac(e['b'][0])), float(frac(e['b'][1]))))
                objs[who].set_bounds(made[0])
                held[who] = [made[0], made[1], e['ct']]
            elif e['op'] == 'reuse':
                arr = held[who][0]
                for j, x in enumerate((-77.25, 123.5)):          # the caller's own container: it holds what the caller writes
                    arr[j] = x
                held[who][1] = [-77.25, 123.5]
            elif e['op'] != 'look':
                raise Machinery('unknown step %r in an exported object walk' % (e,))
        except Machinery:
            raise
        except Exception as ex:
            ctx.verdict('object_call_accepted', False, cls='after=%s|object=%s' % (what, who), vector=vec,
                        detail='%s raised %r after %s' % (what, ex, ' '.join(trail[:-1]) or 'nothing'))
            return
        for name in ('main', 'other'):
            exp = step[name]
            if not exp['alive']:
                continue
            role = 'acted-on' if (name == who and e['op'] != 'look') else 'bystander'
            cls = '%s|born=%s|after=%s|%s' % (exp['p']['kind'], born[name], what, role)
            object_checks(ctx, objs[name], exp, cls, vec, trail, name)
            if name in held:
                ok, now = arg_intact(held[name][0], held[name][1])
                ctx.verdict('argument_unchanged', ok, cls='prior-object:%s:container=%s|after=%s' % (exp['p']['kind'], held[name][2], what), vector=vec,
                            detail='the %s object handed to %s holds %s, the caller left %r in it (%s)' % (held[name][2], name, now, held[name][1], ' '.join(trail)))
        if opt is not None:
            exp = step['main']
            cls = '%s|born=%s|after=%s|attached:%s(%s)' % (exp['p']['kind'], born['main'], what, own, pk)
            try:
                opt.compile_params()
                seen = observe_optimizer(opt, owners, dict(focus=par))['focus']
            except Exception as ex:
                ctx.verdict('object_call_accepted', False, cls=cls, vector=vec, detail='compile_params / update_model raised %r after %s' % (ex, ' '.join(trail)))
                return
            ctx.verdict('object_delivered', seen['prior'] is objs['main'], cls=cls, vector=vec,
                        detail='the prior in force of %s is not the object given to set_prior (%s)' % (par, ' '.join(trail)))
            for k in HK:
                r = exp['recv'][k]
                if r['sp'] == 'none':
                    continue
                ok, detail = received_ok(r, seen['recv'][k], exp['p'], k)
                ctx.verdict('object_delivered', ok, cls=cls, vector=dict(vec, k=k),
                            detail='%s of the %s with the long-lived %s at u=%d/%d after %s: %s' % (par, own, exp['p']['kind'], k, UN, ' '.join(trail), detail))
    ctx.traces += 1


def run_objects(ctx, started):
    """MC_PriorObject: exhaustive run, expected counterexamples, the simulated walks and their replay."""
    q = ctx.tier == 'quick'
    res = started['object-exhaustive'].result()
    ctx.add_tlc('object-exhaustive', res)
    if res.violated:
        raise Machinery('spec MC_PriorObject violates %s\n%s' % (res.violated, res.error_trace))
    if res.distinct == 0 or res.generated < 10 * res.distinct:
        raise Machinery('MC_PriorObject: %d transitions for %d states' % (res.generated, res.distinct))
    for label in OBJ_REFUTED:
        if label in started:
            r = started[label].result()
            ctx.add_tlc(label, r, counts=False)
            if r.violated != 'ObjectInv':
                raise Machinery('expected TLC to refute ObjectInv in %s, got %r' % (label, r.violated))
    res = started['object-walks'].result()
    ctx.add_tlc('object-walks(simulate)', res, counts=False)
    if res.violated:
        raise Machinery('MC_PriorObject (simulation) violates %s' % (res.violated,))
    walks = res.tagged('OBJ')
    nwant = 80 if q else 240
    if len(walks) < nwant // 2:
        raise Machinery('TLC produced only %d object walks' % len(walks))
    # vacuity: the setter on either object in every container, both orders of the bounds, every way of making an object, a container
    # written to by its owner, a plain second look, objects of all four classes
    steps = [st for w in walks for st in w['walk']]
    seen = {(st['e']['op'], st['e']['who']) for st in steps}
    conts = {st['e']['ct'] for st in steps if st['e']['op'] == 'set'}
    orders = {frac(st['e']['b'][0]) < frac(st['e']['b'][1]) for st in steps if st['e']['op'] == 'set'}
    makes = {(st['e']['call']['cls'], form_of(st['e']['call']), st['e']['how']) for st in steps if st['e']['op'] == 'make'}
    need = {('make', 'main'), ('make', 'other'), ('set', 'main'), ('set', 'other'), ('reuse', 'main'), ('reuse', 'other'), ('look', 'main')}
    if not need <= seen or conts != set(walks[0]['conts']) or orders != {True, False} \
            or {(f.split('+')[0], h) for _, f, h in makes} != {(f, h) for f in ('bounds', 'lin_bounds', 'default', 'mean') for h in ('direct', 'text')} \
            or {c for c, _, _ in makes} != {'Uniform', 'LogUniform', 'Gaussian', 'LogGaussian'} \
            or sum(1 for st in steps if st['e']['op'] == 'set' and st['e']['who'] == 'main') < len(walks) // 2:
        raise Machinery('object walks incomplete: steps %r, containers %r, ways of making an object %r' % (sorted(seen), sorted(conts), sorted(makes)))
    rng = random.Random(ctx.seed * 7919 + 8)
    for w in walks:
        replay_object_walk(ctx, w, rng)
    ctx.note('prior objects: %d TLC-simulated walks of %d steps (set_bounds on either of two objects, a second object made, the caller\'s container '
             'rewritten, a second look) replayed on long-lived prior objects, a third of them attached to an optimizer' % (len(walks), len(walks[0]['walk'])))
    ctx.add_sample(dict(object_walk=[st['e'] for st in walks[0]['walk']],
                        last_observation={n: ({k: o[k] for k in ('p', 'rep', 'space', 'last')} if o['alive'] else o) for n, o in
                                          (('main', walks[0]['walk'][-1]['main']), ('other', walks[0]['walk'][-1]['other']))}))


OBJ_REFUTED = ('object-support-frozen-refuted', 'object-support-on-class-refuted', 'object-keeps-callers-container-refuted')


def start_background(ctx, zf):
    """TLC runs that nothing in the first part of the driver waits for (tiny state spaces, mostly JVM start-up)."""
    from concurrent.futures import ThreadPoolExecutor
    env = tlc_env(zf)
    tiny = tlc_env(zf, True)
    q = ctx.tier == 'quick'
    pool = ThreadPoolExecutor(max_workers=4)
    jobs = {
        # the design-level runs nothing waits for at once (the vectors need the export only, which run() does itself)
        # (quick: without TLC's action coverage, which costs a third of these short runs; that every action was taken is read
        # from the shape of the state graph instead, see settle_spec)
        'exhaustive': lambda: run_tlc('MC_Priors', 'MC_Priors_%s.cfg' % ctx.tier, env=env, workers=4, coverage=not q),
        'delivery': lambda: run_tlc('MC_PriorDelivery', 'MC_PriorDelivery_%s.cfg' % ctx.tier, env=env, workers=1, coverage=not q),
        'history-walks': lambda: run_tlc('MC_PriorHistory', 'SIM_PriorHistory.cfg' if q else 'SIM_PriorHistory_thorough.cfg', env=env, workers=1,
                                         simulate='num=%d' % (120 if q else 1200), depth=20, seed=ctx.seed + 17),
        'object-walks': lambda: run_tlc('MC_PriorObject', 'SIM_PriorObject.cfg' if q else 'SIM_PriorObject_thorough.cfg', env=env, workers=1,
                                        simulate='num=%d' % (80 if q else 240), depth=20, seed=ctx.seed + 23, allow_violation=True),
        'history-exhaustive': lambda: run_tlc('MC_PriorHistory', 'MC_PriorHistory_%s.cfg' % ctx.tier, env=env, workers=4, coverage=not q),
        'object-exhaustive': lambda: run_tlc('MC_PriorObject', 'MC_PriorObject_%s.cfg' % ctx.tier, env=env, workers=2),
        'object-support-frozen-refuted': lambda: run_tlc('MC_PriorObject', 'MC_PriorObject_frozen.cfg', env=tiny, workers=1, allow_violation=True),
        'history-default-cache-refuted': lambda: run_tlc('MC_PriorHistory', 'MC_PriorHistory_cached.cfg', env=tiny, workers=2, allow_violation=True),
        'history-mode-as-typed-refuted': lambda: run_tlc('MC_PriorHistory', 'MC_PriorHistory_astyped.cfg', env=tiny, workers=2, allow_violation=True),
        'history-bounds-in-place-refuted': lambda: run_tlc('MC_PriorHistory', 'MC_PriorHistory_inplace.cfg', env=tiny, workers=2, allow_violation=True),
        'argument-in-place-refuted': lambda: run_tlc('MC_Priors', 'MC_Priors_inplace.cfg', env=tiny, workers=2, allow_violation=True),
        'keywords-coupled-refuted': lambda: run_tlc('MC_Priors', 'MC_Priors_coupled.cfg', env=tiny, workers=2, allow_violation=True),
        'unordered-bounds-refuted': lambda: run_tlc('MC_Priors', 'MC_Priors_asgiven.cfg', env=tiny, workers=1, allow_violation=True),
    }
    if not q:       # the two rarer ways in which a setter can miss the transform (quick: the refutation above shows ObjectInv is not vacuous)
        jobs['object-support-on-class-refuted'] = lambda: run_tlc('MC_PriorObject', 'MC_PriorObject_classlevel.cfg', env=tiny, workers=1, allow_violation=True)
        jobs['object-keeps-callers-container-refuted'] = lambda: run_tlc('MC_PriorObject', 'MC_PriorObject_byref.cfg', env=tiny, workers=1, allow_violation=True)
    started = {k: pool.submit(f) for k, f in jobs.items()}
    pool.shutdown(wait=False)
    return started


REFUTED = {'history-default-cache-refuted': 'HistoryInv', 'history-mode-as-typed-refuted': 'ModeSpellingInv',
           'history-bounds-in-place-refuted': 'ArgsFrameInv', 'argument-in-place-refuted': 'ArgsFrameInv',
           'keywords-coupled-refuted': 'LinArgsInv', 'unordered-bounds-refuted': 'MonotoneInv'}


def settle_spec(ctx, label, res, need_actions=(), chain=None):
    """What ctx.check_spec concludes from a design-level run, for a run that was started in the background.  chain = (depth,
    self_loops): for a run without action coverage -- the model is a chain of `depth` phases every start state walks through,
    each phase one action, plus `self_loops` transitions that change nothing; then depth and counts show that every action
    was taken."""
    ctx.add_tlc(label, res)
    if res.violated:
        raise Machinery('spec run %s violates %s\n%s' % (label, res.violated, res.error_trace))
    if res.action_cov:
        for a in need_actions:
            if res.action_cov.get(a, (0, 0))[1] == 0:
                raise Machinery('vacuous: action %s never taken in %s' % (a, label))
    elif chain is None or res.depth != chain[0] or res.distinct % chain[0] or res.generated - res.distinct != chain[1]:
        raise Machinery('vacuous: %s has depth %d, %d distinct / %d generated states (expected a chain %r)'
                        % (label, res.depth, res.distinct, res.generated, chain))
    if res.distinct == 0:
        raise Machinery('TLC reported 0 states for %s' % label)
    return res


def collect_background(ctx, started):
    import re
    res = started['history-exhaustive'].result()
    ctx.add_tlc('history-exhaustive', res)
    if res.violated:
        raise Machinery('spec MC_PriorHistory violates %s\n%s' % (res.violated, res.error_trace))
    if res.distinct == 0:
        raise Machinery('TLC reported 0 states for MC_PriorHistory')
    if ctx.tier != 'quick':          # action coverage costs as much as the run itself; in the quick tier the exported walks show every edit
        taken = {m.group(1): int(m.group(2)) for m in re.finditer(r'^<(\w+) line [^>]*>: \d+:(\d+)', res.out, re.M)}
        for a in ('SetMode', 'SetBoundary', 'SetOther', 'SetPrior', 'Again'):
            if not taken.get(a):
                raise Machinery('vacuous: action %s of MC_PriorHistory never taken (%r)' % (a, taken))
    elif res.generated < 20 * res.distinct:
        raise Machinery('MC_PriorHistory: %d transitions for %d states' % (res.generated, res.distinct))
    for label, inv in REFUTED.items():
        r = started[label].result()
        ctx.add_tlc(label, r, counts=False)
        if r.violated != inv:
            raise Machinery('expected TLC to refute %s in %s, got %r' % (inv, label, r.violated))


# ------------------------------------------------------------------ binding B
def dy(rng, lo, hi, den):
    return Fraction(rng.randint(lo * den, hi * den), den)


def random_events(rng, n):
    from taurex.core.priors import Uniform, LogUniform, Gaussian, LogGaussian
    S, UD = 1000, 256
    events = []
    while len(events) < n:
        kind = rng.choice(['Uniform', 'LogUniform', 'Gaussian', 'LogGaussian'])
        if kind in ('Uniform', 'LogUniform'):
            x, y = dy(rng, -100, 100, 4), dy(rng, -100, 100, 4)
            if x == y:
                continue
            obj = (Uniform if kind == 'Uniform' else LogUniform)(bounds=[float(x), float(y)])
            a, b = min(x, y), max(x, y)
            lo_j, hi_j = 0, UD
        else:
            a, b = dy(rng, -50, 50, 4), Fraction(rng.randint(1, 40), 4)
            obj = (Gaussian if kind == 'Gaussian' else LogGaussian)(mean=float(a), std=float(b))
            lo_j, hi_j = 1, UD - 1
        for _ in range(8):
            j1 = rng.randint(lo_j, hi_j)
            j2 = UD - j1 if rng.random() < 0.3 else rng.randint(lo_j, hi_j)
            if j2 < lo_j or j2 > hi_j:
                continue
            try:
                s1, s2 = float(obj.sample(j1 / UD)), float(obj.sample(j2 / UD))
            except Exception:
                s1 = s2 = float('nan')
            bad = not (abs(s1) < 900 and abs(s2) < 900)      # NaN / infinite / far outside any support used here
            m1, m2 = (0, 0) if bad else (int(round(s1 * S)), int(round(s2 * S)))
            events.append(dict(id=len(events), op='pair', kind=kind, a=[a.numerator, a.denominator], b=[b.numerator, b.denominator],
                               j1=j1, j2=j2, UD=UD, S=S, m1=m1, m2=m2, tol=1, bad=bad,
                               gtol=int(math.ceil(float(b) * 0.5 / ZS * S)) + 2, got=[s1, s2]))
    return events


def build_prior(kind, a, b):
    from taurex.core import priors
    if kind in ('Uniform', 'LogUniform'):
        return getattr(priors, kind)(bounds=[float(a), float(b)])
    return getattr(priors, kind)(mean=float(a), std=float(b))


def random_prior_args(rng, kind, tail=False):
    """Dyadic arguments (quarters); returns (a, b) of the normal form and the constructor arguments as given."""
    if kind in ('Uniform', 'LogUniform'):
        while True:
            x, y = dy(rng, -100, 100, 4), dy(rng, -100, 100, 4)
            if x != y:
                return min(x, y), max(x, y), (x, y)
    a, b = dy(rng, -50, 50, 4), Fraction(rng.randint(1, 40), 4)
    return a, b, (a, b)


def tail_event(obj, kind, a, b, pt1, pt2, eid):
    S = 1000
    try:
        s1, s2 = float(obj.sample(ladder_u(pt1)[0])), float(obj.sample(ladder_u(pt2)[0]))
    except Exception:
        s1 = s2 = float('nan')
    bad = not (abs(s1) < 450 and abs(s2) < 450)        # NaN / infinite / far outside anything the ladder can give here
    m1, m2 = (0, 0) if bad else (int(round(s1 * S)), int(round(s2 * S)))
    return dict(id=eid, op='tail', kind=kind, a=[a.numerator, a.denominator], b=[b.numerator, b.denominator],
                s1=pt1['side'], b1=int(pt1['base']), k1=int(pt1['k']), s2=pt2['side'], b2=int(pt2['base']), k2=int(pt2['k']), S=S, m1=m1, m2=m2, tol=1, bad=bad,
                gtol=int(math.ceil(float(b) * 0.5 / ZTS * S)) + 2, got=[s1, s2])


def tail_events(rng, n, pts, first_id):
    """Pairs of real sample() calls at two points of the spec's tail ladder."""
    events = []
    hi_ks = [int(p['k']) for p in pts if p['side'] == 'hi' and int(p['base']) == 2]
    while len(events) < n:
        kind = rng.choice(['Uniform', 'LogUniform', 'Gaussian', 'LogGaussian'])
        a, b, given = random_prior_args(rng, kind)
        obj = build_prior(kind, *given)
        for _ in range(6):
            pt1 = rng.choice(pts)
            if rng.random() < 0.3 and int(pt1['base']) == 2 and int(pt1['k']) in hi_ks:
                pt2 = dict(pt1, side='hi' if pt1['side'] == 'lo' else 'lo')        # mirror pair
            else:
                pt2 = rng.choice(pts)
            events.append(tail_event(obj, kind, a, b, pt1, pt2, first_id + len(events)))
    return events


def deliver_reading(recv, S):
    """Two-way reading of what the model received: as it is, and its log10 (scaled integers when they exist)."""
    out = dict(hasl=False, lin=0, hasg=False, log=0)
    try:
        r = float(recv)
    except Exception:
        return out
    if r == r and abs(r) < 900:
        out.update(hasl=True, lin=int(round(r * S)))
    if r == r and 0 < r < float('inf') and abs(math.log10(r)) < 900:
        out.update(hasg=True, log=int(round(math.log10(r) * S)))
    return out


def deliver_event(kind, a, b, given_args, pk, j, eid, owner='model', company='alone', given=True, mtext='', ptext='', cont='list', pre=0):
    """One real update_model on a fitted parameter of `owner` of kind `pk`.  given: the user attaches the prior
    kind(a, b) with set_prior; not given: a, b are the parameter's bounds (exponents of ten for a log-mode parameter,
    set with set_boundary in the order of given_args, in a container of kind `cont`) and the prior in force is
    compile_params' default.  company: 'alone', or a fitted parameter of the other owner with a 'default' / 'user' prior.
    mtext: the spelling in which the final mode is given ('' : not given, the declared mode holds).  pre: the optimizer has
    a past -- the parameter was fitted under the opposite mode (given as ptext) with other bounds and no prior, and
    compiled `pre` times, before the settings of the event were made."""
    S, UD = 1000, 256
    opt, owners = fxp.fresh_owners()
    param = fxp.PARAM[(owner, pk)]
    mode = 'log' if pk in ('log', 'lin2log') else 'linear'
    try:
        if pre:
            opt.enable_fit(param)
            opt.set_mode(param, ptext)
            opt.set_boundary(param, make_arg(cont, (0.1, 100.0))[0])
            for _ in range(pre):
                opt.compile_params()
        items = []
        if given:
            items.append(dict(param=param, mode_switch=mtext, route='set_prior', prior=build_prior(kind, *given_args)))
        else:
            bounds = [10.0 ** int(x) for x in given_args] if mode == 'log' else [float(x) for x in given_args]
            items.append(dict(param=param, mode_switch=mtext, route='default', bounds_obj=make_arg(cont, tuple(bounds))[0]))
        if company != 'alone':
            other = 'observation' if owner == 'model' else 'model'
            cparam = fxp.PARAM[(other, {'lin': 'log2lin', 'log': 'lin2log', 'lin2log': 'lin', 'log2lin': 'log'}[pk])]
            it = dict(param=cparam, mode_switch=fxp.SWITCH.get(cparam), route='default')
            if company == 'user':        # a prior of the other space than the one under focus
                it.update(route='set_prior', prior=build_prior('Gaussian' if kind.startswith('Log') else 'LogUniform', -1.25, 0.75))
            items.append(it)
        if eid % 2:
            items.reverse()
        fxp.setup_by_calls(opt, items)
        opt.compile_params()
        names = [p[0] for p in opt.fitting_parameters]
        cube = [float(q.sample(j / UD)) for q in opt.fitting_priors]
        opt.update_model(cube)
        got = owners[owner].received[param]
        recv = got[-1] if len(got) == 1 and names.count(param) == 1 and len(names) == len(items) else float('nan')
    except Machinery:
        raise
    except Exception:
        recv = float('nan')
    try:
        recv = float(recv)
    except Exception:
        recv = float('nan')
    e = dict(id=eid, op='deliver', kind=kind, a=[a.numerator, a.denominator], b=[b.numerator, b.denominator], pk=pk, mode=mode,
             owner=owner, company=company, given=bool(given), mtext=mtext, ptext=ptext, cont=cont, pre=int(pre),
             j1=j, UD=UD, S=S, tol=1, gtol=int(math.ceil(float(b) * 0.5 / ZS * S)) + 2, got=[recv])
    e.update(deliver_reading(recv, S))
    return e


def deliver_events(rng, n, first_id):
    events = []
    while len(events) < n:
        pk = rng.choice(sorted(fxp.KIND_PARAM))
        owner = rng.choice(['model', 'observation'])
        company = rng.choice(['alone', 'default', 'user'])
        mode = 'log' if pk in ('log', 'lin2log') else 'linear'
        if rng.random() < 0.75:
            kind = rng.choice(['Uniform', 'LogUniform', 'Gaussian', 'LogGaussian'])
            a, b, given_args = random_prior_args(rng, kind)
            given = True
        else:                       # no prior given: only the bounds are set; the default prior of the mode is in force
            given = False
            if mode == 'log':
                kind = 'LogUniform'
                x, y = rng.sample(range(-12, 7), 2)
                a, b, given_args = Fraction(min(x, y)), Fraction(max(x, y)), (Fraction(x), Fraction(y))
            else:
                kind = 'Uniform'
                a, b, given_args = random_prior_args(rng, kind)
        uni = kind in ('Uniform', 'LogUniform')
        j = rng.randint(0 if uni else 1, 256 if uni else 255)
        # the mode as text (any spelling of the specification), the container of the bounds object, an earlier life
        pre = rng.choice([0, 0, 0, 1, 1, 2])
        switched = pk in ('lin2log', 'log2lin')
        mtext = rng.choice(SPELL[mode]) if (switched or pre or rng.random() < 0.2) else ''
        ptext = rng.choice(SPELL['linear' if mode == 'log' else 'log']) if pre else ''
        events.append(deliver_event(kind, a, b, given_args, pk, j, first_id + len(events), owner=owner, company=company, given=given,
                                    mtext=mtext, ptext=ptext, cont=rng.choice(CONTS), pre=pre))
    return events


EVENT_KEYS = {'pair': ('id', 'op', 'kind', 'a', 'b', 'j1', 'j2', 'UD', 'S', 'tol', 'gtol'),
              'tail': ('id', 'op', 'kind', 'a', 'b', 's1', 'b1', 'k1', 's2', 'b2', 'k2', 'S', 'tol', 'gtol'),
              'deliver': ('id', 'op', 'kind', 'a', 'b', 'pk', 'mode', 'owner', 'company', 'given', 'j1', 'UD', 'S', 'tol', 'gtol')}


def event_detail(e):
    if e['op'] == 'tail':
        return 'TLC rejected samples %r of %s(%s,%s) at u=%s,%s' % (
            e['got'], e['kind'], e['a'], e['b'], pt_name(dict(side=e['s1'], base=e['b1'], k=e['k1'])), pt_name(dict(side=e['s2'], base=e['b2'], k=e['k2'])))
    if e['op'] == 'deliver':
        return 'TLC rejected the value %r received by the %s-mode parameter (%s%s) of the %s (company: %s) with %s %s(%s,%s) at u=%d/%d%s' % (
            e['got'], e['mode'], e['pk'], ', mode given as %r' % e['mtext'] if e.get('mtext') else '', e.get('owner', 'model'), e.get('company', 'alone'),
            'the user prior' if e.get('given', True) else 'no prior given, bounds (%s) for the default' % e.get('cont', 'list'), e['kind'], e['a'], e['b'], e['j1'], e['UD'],
            '; the optimizer had been compiled %d time(s) before with mode %r, other bounds, no prior' % (e['pre'], e['ptext']) if e.get('pre') else '')
    return 'TLC rejected samples %r of %s(%s,%s) at u=%d/%d,%d/%d' % (e['got'], e['kind'], e['a'], e['b'], e['j1'], e['UD'], e['j2'], e['UD'])


def event_cls(e):
    if e['op'] == 'tail':
        return '%s:trace:tail' % e['kind']
    if e['op'] == 'deliver':
        return '%s:trace:mode=%s(%s%s)|owner=%s|company=%s|%s%s' % (e['kind'], e['mode'], e['pk'], ',' + spelling_class(e['mtext']) if e.get('mtext') else '',
                                                                     e.get('owner', 'model'), e.get('company', 'alone'),
                                                                     'given' if e.get('given', True) else 'default:' + e.get('cont', 'list'),
                                                                     '|past' if e.get('pre') else '')
    return '%s:trace' % e['kind']


def run_traces(ctx, n, zf, pts):
    rng = random.Random(ctx.seed * 6007 + 8)
    events = random_events(rng, n)
    events += tail_events(random.Random(ctx.seed * 6007 + 9), max(600, n // 5), pts, len(events))
    events += deliver_events(random.Random(ctx.seed * 6007 + 10), max(600, n // 10), len(events))
    slim = [{k: v for k, v in e.items() if k != 'got'} for e in events]
    accepted, bad, res = validate_trace('Trace_Priors', 'Trace_Priors.cfg', slim, env=tlc_env(zf))
    ctx.add_tlc('trace', res, counts=False)
    if res.postcondition_false and not bad:
        raise Machinery('trace spec did not consume the whole trace:\n' + res.out[-1500:])
    badids = {b['id']: b for b in bad}
    ctx.traces += len(events)
    for e in events:
        b = badids.get(e['id'])
        if b and b['why'] in ('tail_unknown_point', 'unknown_op'):
            raise Machinery('trace event outside the specification: %r' % (e,))
        ctx.verdict('trace_' + (b['why'] if b else 'accepted' if e['op'] == 'pair' else e['op'] + '_accepted'), b is None,
                    cls=event_cls(e), detail=event_detail(e), vector=dict(e, trace=True))
    ctx.add_sample(dict(trace_event=slim[0]))
    for op in ('tail', 'deliver'):
        ctx.add_sample(dict(trace_event=next(e for e in slim if e['op'] == op)))
    # canaries: one corrupted event of every kind of event, validated in one TLC run; every one must be rejected
    canaries = []
    for op, kind in (('pair', 'Uniform'), ('pair', 'Gaussian'), ('tail', 'Gaussian'), ('tail', 'Uniform'), ('deliver', 'LogUniform'), ('deliver', 'Gaussian')):
        cand = [e for e in slim if e['op'] == op and e['kind'] == kind]
        good = [e for e in cand if e['id'] not in badids and (op != 'pair' or 16 <= e['j1'] <= 240)      # closed bracket
                and (op != 'deliver' or 16 <= e['j1'] <= 240)]
        if not good:
            if any(e['id'] in badids for e in cand):
                continue                    # every candidate was rejected already: the validation is not vacuous
            raise Machinery('no %s/%s event for the canary' % (op, kind))
        c = dict(good[len(good) // 2])
        # far outside every bracket of the normal table: a cell of the grid is at most 0.39 standard deviations wide
        bump = 40 * abs(c['gtol']) + 500 + abs(int(c['S'] * c['b'][0] / c['b'][1]))
        if op == 'deliver':                 # the other reading of the value: 10**x where x is due and vice versa
            for f in ('lin', 'log'):
                c[f] = c[f] + bump
        else:
            c['m1'] = c['m1'] + bump
        canaries.append(c)
    if canaries:
        ok2, bad2, _ = validate_trace('Trace_Priors', 'Trace_Priors.cfg', canaries, env=tlc_env(zf, True))
        rejected = {b['id'] for b in bad2}
        for c in canaries:
            if c['id'] not in rejected:
                raise Machinery('canary (%s %s) accepted: trace validation is vacuous' % (c['op'], c['kind']))


def run(ctx):
    q = ctx.tier == 'quick'
    ctx.bounds = dict(tier=ctx.tier,
                      exhaustive='all constructor calls over %s rational arguments (both orders), exponents -12..6 for lin_*, u = k/16'
                                 % ('16' if q else '48'),
                      vectors='exported calls x 3 name spellings x 3 text styles; uniform 1e-12, gaussian 1e-9 vs statistics.NormalDist',
                      traces='%d random dyadic priors/u pairs + %d tail-ladder pairs + %d update_model deliveries'
                             % ((4000, 800, 600) if q else (40000, 8000, 4000)),
                      tail_ladder='u = 2^-k, 1 - 2^-k (k <= 53), 10^-k, 1 - 10^-k (k <= 12) for k in TK / TD of the cfg '
                                  '(%d points quick / %d thorough) from 2^-1074 to 1 - 2^-53, joined to the grid at 1/16, 15/16'
                                  % (17 + 10 + 11 + 5, 30 + 19 + 24 + 11),
                      delivery='6 constructor forms x 4 parameter kinds (declared linear/log, switched either way) x routes '
                               'set_prior / text (3 spellings) / input file / default, u = k/16; x owner of the parameter '
                               '(model / observation) x fitted set (that parameter alone, or with a fitted parameter of the other '
                               'owner that has a default prior / a user prior of the other space)')
    ctx.bounds.update(history='%d TLC-simulated walks of 6 edits (set_mode in 3-4 spellings by call / file, set_boundary with tuple / list / '
                              'array / read-only array by call / file, the companion\'s bounds, set_prior object / text / file, nothing) with 0..2 '
                              'compile_params() after each, bounds 10^e (e in -2, 0, 3), parameter declared linear / log on either owner'
                              % (120 if q else 1200),
                      containers='every exported constructor call built twice from one argument object: tuple, list, float64 array, read-only '
                                 'array (bounds); float, numpy.float64 (mean, std, lin_mean)')
    ctx.bounds.update(keywords='18 constructor forms: every subset of the keywords (bounds | lin_bounds | -; mean | lin_mean | - x std | lin_std | -), '
                               'lin_std = 10^e, e in %s' % ('{1,2}' if q else '{1,2,3}'),
                      prior_objects='%d TLC-simulated walks of %d steps on two long-lived prior objects (set_bounds with tuple / list / array / read-only '
                                    'array in either order, a second object made directly or from text, the caller\'s container rewritten, a second look); '
                                    'scalar u and the grid as one array; a third of the walks attached to an optimizer' % ((80, 7) if q else (240, 10)))
    ctx.assumptions = ['the normal quantile is an uninterpreted strictly increasing odd table in the spec; its numerical '
                       'values come from statistics.NormalDist.inv_cdf (stdlib), not from scipy',
                       'float 10**x at the boundary; log10(10**e) == e checked for every exponent used',
                       'degenerate intervals (equal bounds) and std <= 0 are outside the checked domain',
                       'a keyword left out of a constructor call has the value of the documented signature (bounds [0, 1], mean 0.5, std 0.25; '
                       'read with inspect.signature: if the signature gives another number the call is only compared with the explicit call); '
                       'lin_std = 10^e with integer e >= 1; giving an argument in both spellings at once is outside the checked domain',
                       'long-lived prior objects: set_bounds is the only public setter of the four classes; the bounds of the walks stay <= 250 '
                       'so that 10**x is a float for the log kinds',
                       'tail ladder: the normal quantile at 2^-k is a second uninterpreted table (stdlib AS241, cross-checked by '
                       'inverting math.erfc); the inverse-CDF identity is evaluated with math.erfc at the boundary with a '
                       'tolerance of 1e-9 plus the conditioning of x = mean + sd z; below 2^-1022 (subnormal mass) only the table, '
                       'finiteness, monotonicity',
                       'uniform kinds cannot be strictly monotone in doubles for tiny u (lo + u w rounds to lo): non-decreasing there',
                       'delivery is observed at the setters of a recording ForwardModel and of a recording BaseSpectrum subclass, both '
                       'declared with @fitparam (harness/fx_priors.py); parameter names are distinct between the two owners',
                       'history walks: the bounds of the walked parameters are powers of ten (legal under either mode); the fresh '
                       'optimizer of history_equals_fresh gets the current settings in the plainest form (lower-case mode, lists, objects)',
                       'a read-only numpy array is a legal bounds object: a constructor / compile_params that raises on it has written to it',
                       'TLC + CommunityModules Json/IOUtils']
    verify_ladder_table(['MC_Priors_%s.cfg' % ctx.tier, 'MC_Priors_asgiven.cfg', 'EX_Priors.cfg' if q else 'EX_Priors_thorough.cfg',
                         'Trace_Priors.cfg', 'MC_PriorDelivery_%s.cfg' % ctx.tier, 'MC_PriorDelivery_bymode.cfg',
                         'MC_PriorDelivery_secondblind.cfg', 'MC_PriorDelivery_clipped.cfg', 'MC_Priors_inplace.cfg', 'MC_PriorHistory_%s.cfg' % ctx.tier,
                         'SIM_PriorHistory.cfg' if q else 'SIM_PriorHistory_thorough.cfg', 'MC_PriorHistory_cached.cfg',
                         'MC_PriorHistory_astyped.cfg', 'MC_PriorHistory_inplace.cfg', 'MC_Priors_coupled.cfg',
                         'MC_PriorObject_%s.cfg' % ctx.tier, 'SIM_PriorObject.cfg' if q else 'SIM_PriorObject_thorough.cfg',
                         'MC_PriorObject_frozen.cfg', 'MC_PriorObject_classlevel.cfg', 'MC_PriorObject_byref.cfg'])
    zf = z_file()
    started = None
    try:
        import time
        t0 = time.time()
        JVM['quick'] = q
        env = tlc_env(zf)
        started = start_background(ctx, zf)
        defaults0 = default_objects()
        res = ctx.check_spec('export', 'MC_Priors', 'EX_Priors.cfg' if q else 'EX_Priors_thorough.cfg', env=env, workers=1)
        vecs = res.tagged('VEC')
        pts = vecs[0]['tpts'] if vecs else []
        us = [ladder_u(p)[0] for p in pts]
        if not (pts and us[0] == 2.0 ** -1074 and us[-1] == 1.0 - 2.0 ** -53 and all(x < y for x, y in zip(us, us[1:]))
                and {2, 10} == {int(p['base']) for p in pts} and vecs[0]['zts'] == ZTS):
            raise Machinery('the exported tail ladder is not increasing from 2^-1074 to 1 - 2^-53 with decimal points: %r' % (pts,))
        if len(vecs) < 300:
            raise Machinery('only %d vectors exported' % len(vecs))
        rng = random.Random(ctx.seed * 31 + 8)
        kinds = set()
        for v in vecs:
            check_vector(ctx, v, rng)
            kinds.add((v['call']['cls'], v['call']['key1'], v['call']['key2']))
        if len(kinds) != 18:        # 2 + 3 forms of the uniform kinds, 2 x 2 + 3 x 3 of the normal kinds (MC_Priors: FormsInv)
            raise Machinery('exported vectors do not cover the 18 constructor forms: %r' % sorted(kinds))
        for n in sorted(NOTES):
            ctx.note(n)
        ctx.add_sample(dict(vector=vecs[len(vecs) // 2]))
        import time
        t1 = time.time()
        settle_spec(ctx, 'exhaustive', started['exhaustive'].result(), ('Eval',), chain=(2, 0))          # Init -> Eval
        ctx.exhaustive = True
        collect_background(ctx, started)
        run_history(ctx, zf, started)
        run_objects(ctx, started)
        t2 = time.time()
        run_delivery(ctx, zf, started=started)
        t3 = time.time()
        run_traces(ctx, 4000 if q else 40000, zf, pts)
        ctx.note('wall: export + vectors %.0f s, design-level runs, history and object walks %.0f s, delivery %.0f s, traces %.0f s' % (t1 - t0, t2 - t1, t3 - t2, time.time() - t3))
        # the defaults of omitted arguments are what they were before anything was built
        defaults1 = default_objects()
        for name in sorted(defaults0):
            ctx.verdict('default_arguments_stable', defaults0[name] == defaults1[name] and defaults0[name][0] != 'raised', cls=name,
                        vector=dict(defaults=name), detail='%s() at the start of the run: %r, at the end: %r' % (name, defaults0[name], defaults1[name]))
    finally:
        if started:
            for f in started.values():      # nothing reads the table file after this
                try:
                    f.result()
                except Exception:
                    pass
        os.unlink(zf)


def replay(ctx, violations):
    zf = z_file()
    try:
        rng = random.Random(0)
        if any(v['vector'].get('hist') or v['vector'].get('mtext') or v['vector'].get('dlv') for v in violations):
            res = run_tlc('MC_PriorHistory', 'SIM_PriorHistory_thorough.cfg', env={'PRIORS_Z_FILE': zf}, workers=1, simulate='num=1', depth=30, seed=1)
            one = res.tagged('HIST')
            if not one:
                raise Machinery('replay: no walk exported for the mode spellings')
            SPELL.update({m: sorted(x) for m, x in one[0]['modes'].items()})
            CONTS[:] = sorted(one[0]['conts'])
        dlv = {dlv_key(v['vector']) for v in violations if v['vector'].get('dlv')}
        if dlv:
            res = run_tlc('MC_PriorDelivery', 'MC_PriorDelivery_thorough.cfg', env={'PRIORS_Z_FILE': zf}, workers=1)
            allv = res.tagged('DLV')
            if not dlv <= {dlv_key(v) for v in allv}:
                res = run_tlc('MC_PriorDelivery', 'MC_PriorDelivery_quick.cfg', env={'PRIORS_Z_FILE': zf}, workers=1)
                allv = res.tagged('DLV')
            run_delivery(ctx, zf, vecs=[v for v in allv if dlv_key(v) in dlv])
        for v in violations:
            vec = v['vector']
            if vec.get('dlv'):
                continue
            if vec.get('hist'):
                replay_walk(ctx, vec, random.Random(0))
                continue
            if vec.get('objhist'):
                replay_object_walk(ctx, vec, random.Random(0))
                continue
            if vec.get('defaults'):
                d0 = default_objects()
                ctx.verdict('default_arguments_stable', d0[vec['defaults']][0] != 'raised', cls=vec['defaults'], vector=vec,
                            detail='%s() gives %r (replay: a fresh process)' % (vec['defaults'], d0[vec['defaults']]))
                continue
            if vec.get('trace'):
                op = vec.get('op', 'pair')
                a, b = Fraction(*vec['a']), Fraction(*vec['b'])
                if op == 'deliver':
                    e = deliver_event(vec['kind'], a, b, (a, b), vec['pk'], vec['j1'], vec['id'], owner=vec.get('owner', 'model'),
                                      company=vec.get('company', 'alone'), given=vec.get('given', True), mtext=vec.get('mtext', ''),
                                      ptext=vec.get('ptext', ''), cont=vec.get('cont', 'list'), pre=vec.get('pre', 0))
                elif op == 'tail':
                    e = tail_event(build_prior(vec['kind'], a, b), vec['kind'], a, b, dict(side=vec['s1'], base=vec['b1'], k=vec['k1']),
                                   dict(side=vec['s2'], base=vec['b2'], k=vec['k2']), vec['id'])
                else:
                    e = {k: vec[k] for k in EVENT_KEYS['pair']}
                    obj = build_prior(e['kind'], a, b)
                    s1, s2 = float(obj.sample(e['j1'] / e['UD'])), float(obj.sample(e['j2'] / e['UD']))
                    e['bad'] = not (abs(s1) < 900 and abs(s2) < 900)
                    e['m1'], e['m2'] = (0, 0) if e['bad'] else (int(round(s1 * e['S'])), int(round(s2 * e['S'])))
                    e['got'] = [s1, s2]
                got = e.pop('got')
                _, bad, _ = validate_trace('Trace_Priors', 'Trace_Priors.cfg', [e], env={'PRIORS_Z_FILE': zf})
                ctx.verdict('trace_' + (bad[0]['why'] if bad else 'accepted' if op == 'pair' else op + '_accepted'), not bad,
                            cls=event_cls(e), detail='observed %r' % (got,), vector=vec)
            else:
                # rebuild the exported fields that check_vector needs from the spec again
                full = export_one(vec['call'], zf)
                check_vector(ctx, full, rng)
    finally:
        os.unlink(zf)


_EXPORT = []


def export_one(call, zf):
    """Re-export the vector of `call` from the specification (replay); one TLC run serves all."""
    if not _EXPORT:
        res = run_tlc('MC_Priors', 'EX_Priors_thorough.cfg', env={'PRIORS_Z_FILE': zf}, workers=1)
        _EXPORT.extend(res.tagged('VEC'))
    for v in _EXPORT:
        if v['call'] == call:
            return v
    raise Machinery('call %r is not in the export config' % (call,))
