"""C18 -- parallel post-processing is invariant to how samples are split across MPI ranks.

Spec: spec/ParallelStatsOps.tla (operators), spec/ParallelStats.tla (ranks, Update/Gather/Combine,
      Derive/AllReduceConcat/Reorder, invariants), spec/MC_ParallelStats.tla (sample spaces, export),
      spec/Trace_ParallelStats.tla (binding B).
Design level: TLC verifies the repaired mechanisms (value NaN test, reorder by layout) for every
      interleaving / every partition in small constants and REFUTES the as-built ones (identity NaN
      test under serialisation, reorder by weight with ties) and a wrong slice stride.
Binding A/C: TLC-exported (samples, rank count, per-rank accumulators, exact mean / variance) replayed
      on simulated MPI runs: one real process per rank, harness/doubles/mpi4py, every exchanged value
      pickled through pipes (harness/fx_mpi.py).  Paths: OnlineVariance.update/parallelVariance,
      Optimizer.generate_profiles (small real TransmissionModel, fake solution), compute_derived_trace.
Binding B: events U/G/C logged inside the worker processes (per-process sequence numbers) for exported
      and seeded random runs, validated by TLC (Trace_ParallelStats), + canaries.
Zero weights: the weight domain of the profile / spectrum statistics includes weights that are exactly zero
      (numpy float64 and python floats) at every position -- first sample of a rank, every sample of a rank,
      all but one overall -- for every rank count: exhaustive configs *_zero_*, the 0/0 branch of the update
      (ZeroGuard) with its unguarded variant refuted, zero-mask export (EX_*_var_zero) replayed through
      OnlineVariance (explicit partition) and through generate_profiles (the drawn list steered to the
      exported order), seeded random runs with zero weights validated by TLC.
Unit of the weights (round 3): the ranks are handed the weights times a common factor WScale (spec constant; TLC:
      every result equals the statistics of the UNSCALED samples for WScale = 1/1024 and 1024, WeightScaleLemma;
      an absolute threshold in the "nothing weighed yet" test -- ZeroGuard = "tolerant" -- passes at WScale = 1 and
      is refuted at 1/256).  Bindings: the exported vectors are also run with every weight multiplied by 2**e
      (WEXPS: 2**-27 ~ 7e-9, 2**-100 ~ 1e-30, 2**40; a power of two, so the floats are the exported rationals
      times the factor exactly) through all three paths; accumulators wcount / M2 are expected to carry the factor,
      mean / variance / std / derived summaries not.  Event logs are written in units of the run's factor.  Zero
      masks are also realised as weights of 2**-60 (mixed magnitudes: leading dead points of a nested-sampling run).
Summary source / ranks that fail (round 3): the spec's Reorder step computes the weighted-mean summary
      (SummarySource "gathered"; "local" refuted: SummaryMeanIsGlobal, NoRankFails).  A collective that cannot
      complete because a rank raised or returned without taking part is a verdict (every_rank_completes), not a
      machinery failure: the hub aborts the waiting ranks and the run is reported with what every rank did.
"""
import math
import os
import random
from fractions import Fraction

import numpy as np

from ..core import Machinery, frac, validate_trace, run_tlc
from .. import fx_mpi

REL = 1e-9
S = 10000              # scale of logged floats (spec units)
TOL = 2                # units of 1/S
CHAN_A = (1.0, 2.0, -1.0)      # value channels of the OnlineVariance path: x = a*u + b
CHAN_B = (0.0, 1.0, 0.5)
T0, TA = 1000.0, 100.0         # T = T0 + TA*u
X0, XA = 0.1, 0.1              # H2O mixing ratio = X0 + XA*u
MAX_SIZE = 6

# =============================================================================================
# worker side (runs in the forked rank processes only)
# =============================================================================================
_W = dict(installed=False, seq=0, events=None, log=False, nobj=0, proj={}, cur_i=-1, last_cv=None,
          pv=None, opt={}, lin={}, wunit=1.0, shape_ord={}, conf='plain')
WEXPS = (-27, -100, 40)          # weights are handed over times 2**e (quick and thorough)
WEXPS_THOROUGH = (-12, -60, -200, 100)
TINY = -60                       # a masked weight realised as k/4 * 2**TINY instead of exactly zero


def _kind_and_value(x, pj):
    """(kind, value in spec units) of an exchanged variance/mean as the rank sees it."""
    if x is np.nan:
        return 'nanobj', 0.0
    if x is None:
        return 'none', 0.0
    if np.ndim(x) == 0:
        xv = float(x)
    else:
        xv = float(np.asarray(x)[pj[0]])
    if xv != xv:
        return 'nan', 0.0
    return 'num', xv


def _sc(x):
    x = float(x)
    if x != x or abs(x) * S >= 5000000:      # NaN / absurd: a sentinel no exact value is close to
        return 5000000
    return int(round(x * S))


def _qpair(x):
    f = Fraction(float(x))
    if f.denominator > 4096 or abs(f.numerator) > 10 ** 6:
        raise RuntimeError('value %r is not a small rational: cannot be logged exactly' % (x,))
    return [f.numerator, f.denominator]


def _wpair(w):
    """Logged weight.  Optimizer.sample_parameters hands a zero weight over as 1e-300; nothing that is logged
    (scale 1/S) can tell a weight below 1e-200 from zero, so it is logged as the zero it stands for."""
    w = float(w)
    if 0.0 <= w < 1e-200:
        return [0, 1], 0
    f = Fraction(w)
    if w != w or f.denominator > 4096 or abs(f.numerator) > 10 ** 6:
        return [0, 1], 1          # not a weight the harness fed (those are k/4): flagged, TLC rejects the update
    return [f.numerator, f.denominator], 0


def _emit(ev):
    ev['seq'] = _W['seq']
    _W['seq'] += 1
    _W['events'].append(ev)


def _install():
    """Wrap public methods of OnlineVariance from outside the repository (no source hook)."""
    if _W['installed']:
        return
    from taurex.util.math import OnlineVariance
    import mpi4py
    comm = mpi4py.MPI.COMM_WORLD
    o_init, o_update = OnlineVariance.__init__, OnlineVariance.update
    o_pv, o_cv = OnlineVariance.parallelVariance, OnlineVariance.combine_variance

    def __init__(self, *a, **k):
        o_init(self, *a, **k)
        self._verif_ord = _W['nobj']
        _W['nobj'] += 1

    def proj_of(self, value=None):
        # the accumulator whose events are logged: by creation order, or (key = a shape) the one that is fed
        # arrays of that shape -- e.g. the condensate profiles, whatever place compute_error gives them
        pj = getattr(self, '_verif_pj', None)
        if pj is None:
            pj = _W['proj'].get(getattr(self, '_verif_ord', None))
            if pj is None and value is not None:
                pj = _W['proj'].get(tuple(np.shape(value)))
                if pj is not None:           # remembered: a rank that holds no sample never feeds it, and still combines it
                    _W['shape_ord'][(_W['conf'], tuple(np.shape(value)))] = getattr(self, '_verif_ord', None)
            if pj is not None:
                self._verif_pj = pj
        return pj

    def update(self, value, weight=1.0):
        r = o_update(self, value, weight)
        pj = proj_of(self, value)
        if pj is not None and _W['log']:
            idx, a, b = pj
            u = (float(np.asarray(value)[idx]) - b) / a
            un = _W['wunit']             # the log is written in units of the run's weight factor (a power of two)
            wq, wx = _wpair(float(weight) / un)
            _emit(dict(ev='U', i=int(_W['cur_i']), v=_qpair(u), w=wq, wx=wx, cnt=int(self.count),
                       wc=_sc(float(self.wcount) / un), mean=_sc((float(np.asarray(self.mean)[idx]) - b) / a),
                       m2=_sc(float(np.asarray(self.M2)[idx]) / (a * a) / un)))
        return r

    def combine_variance(self, averages, variance, counts):
        out = o_cv(self, averages, variance, counts)
        _W['last_cv'] = out
        return out

    def parallelVariance(self):
        _W['pv'] = []
        _W['last_cv'] = None
        try:
            res = o_pv(self)
        finally:
            ex, _W['pv'] = _W['pv'], None
        pj = proj_of(self)
        if pj is not None and _W['log']:
            if len(ex) < 4:
                raise RuntimeError('parallelVariance made %d exchanges, 4 expected' % len(ex))
            idx, a, b = pj
            vk, vv = _kind_and_value(ex[0][0], (idx,))
            mk, mv = _kind_and_value(ex[1][0], (idx,))
            _emit(dict(ev='G', vk=vk, var=_sc(vv / (a * a)), mk=mk, mean=_sc((mv - b) / a) if mk == 'num' else 0,
                       wc=_sc(float(ex[2][0]) / _W['wunit']), cnt=int(ex[3][0])))
            rk = [_kind_and_value(x, (idx,))[0] for x in ex[0][1]]
            cv = _W['last_cv']
            if cv is None:
                cmk, cmv = 'none', 0.0
            else:
                cmk, cmv = _kind_and_value(cv[0], (idx,))
            cvk, cvv = _kind_and_value(res, (idx,))
            _emit(dict(ev='C', rk=rk, mk=cmk, mean=_sc((cmv - b) / a) if cmk == 'num' else 0,
                       vk=cvk, var=_sc(cvv / (a * a)) if cvk == 'num' else 0))
        return res

    OnlineVariance.__init__ = __init__
    OnlineVariance.update = update
    OnlineVariance.combine_variance = combine_variance
    OnlineVariance.parallelVariance = parallelVariance

    def hook(kind, sent, received):
        if _W['pv'] is not None:
            _W['pv'].append((sent, received))
    comm.hooks.append(hook)
    _W['installed'] = True


def _tolist(x):
    if x is None:
        return None
    a = np.asarray(x, dtype=float)
    return a.tolist()


def _begin_case(case, rank, size):
    _W['events'] = []
    _W['log'] = bool(case.get('log'))
    _W['nobj'] = 0
    _W['cur_i'] = -1
    _W['last_cv'] = None
    _W['wunit'] = math.ldexp(1.0, int(case.get('wexp', 0)))
    return dict(tid=case['tid'], nr=size, n=len(case['v']), rank=rank, S=S, tol=TOL, rr=int(case.get('rr', 0)))


def _finish_events(common):
    out = []
    for e in _W['events']:
        d = dict(common)
        d.update(e)
        out.append(d)
    return out


def _run_ov(rank, size, case):
    from taurex.util.math import OnlineVariance
    common = _begin_case(case, rank, size)
    _W['proj'] = {0: ((0,), 1.0, 0.0)}
    ov = OnlineVariance()
    npw = bool(case.get('npw'))
    for i in case['mine'][rank]:
        _W['cur_i'] = i
        u = float(Fraction(*case['v'][i]))
        w = math.ldexp(float(Fraction(*case['w'][i])), int(case.get('wexp', 0)))
        if w == 0 and case.get('tiny'):
            w = math.ldexp((1 + i % 4) / 4.0, int(case['tiny']) + int(case.get('wexp', 0)))
        x = np.array([a * u + b for a, b in zip(CHAN_A, CHAN_B)])
        ov.update(x, weight=np.float64(w) if npw else w)
    acc = dict(count=float(ov.count), wcount=float(ov.wcount), mean=_tolist(ov.mean), M2=_tolist(ov.M2))
    var = ov.parallelVariance()
    cv = _W['last_cv']
    return dict(acc=acc, var=_tolist(var), mean=_tolist(cv[0]) if cv is not None else None,
                events=_finish_events(common))


def _params(u, i, names, modes):
    d = {'T': T0 + TA * u, 'planet_radius': math.sqrt(1.0 + u), 'planet_distance': 1.0 + i, 'H2O': X0 + XA * u}
    return [math.log10(d[n]) if modes[n] == 'log' else d[n] for n in names]


NCOND = 3                       # condensates of the 'cond' fixture: profiles of shape (NCOND, layers), unlike every other accumulator
COND_A = 2.0 ** -20             # condensate k in layer l: (k + 1) * COND_A * T_l * (P_l / P_max) ** 0.25  (exactly affine in T)
OUT_KEYS = dict(temp='temp_profile_std', active='active_mix_profile_std', inactive='inactive_mix_profile_std',
                cond='condensate_profile_std', native='native_std', binned='binned_std')


def _optimizer(conf='plain'):
    """A small real forward model + an Optimizer whose 'solution' is supplied by the harness.
    conf: 'plain' -- a free chemistry without condensates;  'cond' -- the same chemistry reporting condensates
    through the documented hook (Chemistry.condensates / condensateMixProfile), as an equilibrium-chemistry
    plugin does: compute_error then keeps one more accumulator and returns one more standard deviation."""
    if conf in _W['opt']:
        return _W['opt'][conf]
    from taurex.log import disableLogging
    disableLogging()
    from taurex.model import TransmissionModel
    from taurex.temperature import Isothermal
    from taurex.chemistry import TaurexChemistry, ConstantGas
    from taurex.planet import Planet
    from taurex.stellar import BlackbodyStar
    from taurex.optimizer.optimizer import Optimizer
    from taurex.data.spectrum.array import ArraySpectrum
    from taurex.cache import OpacityCache
    from ..fixtures import GridOpacity
    OpacityCache().clear_cache()
    wn = np.array([1000., 2000., 3000., 4000.])
    OpacityCache().add_opacity(GridOpacity('H2O', wn, [100., 5000.], [1e-2, 1e7], np.ones((2, 2, 4)) * 1e-22))
    if conf == 'cond':
        class CondensingChemistry(TaurexChemistry):
            @property
            def condensates(self):
                return ['C%d(s)' % (k + 1) for k in range(NCOND)]

            def initialize_chemistry(self, nlayers=100, temperature_profile=None, pressure_profile=None,
                                     altitude_profile=None):
                super().initialize_chemistry(nlayers, temperature_profile, pressure_profile, altitude_profile)
                shape = (np.asarray(pressure_profile, dtype=float) / float(np.max(pressure_profile))) ** 0.25
                shape[0] = 1.0
                self._verif_cond = np.array([(k + 1) * COND_A * np.asarray(temperature_profile, dtype=float) * shape
                                             for k in range(NCOND)])

            @property
            def condensateMixProfile(self):
                return self._verif_cond
        chem = CondensingChemistry(fill_gases=['H2', 'He'], ratio=0.17)
    elif conf == 'plain':
        chem = TaurexChemistry(fill_gases=['H2', 'He'], ratio=0.17)
    else:
        raise RuntimeError('unknown model configuration %r' % (conf,))
    chem.addGas(ConstantGas('H2O', 1e-3))
    model = TransmissionModel(planet=Planet(planet_mass=1.0, planet_radius=1.0),
                              star=BlackbodyStar(temperature=5000, radius=1.0), chemistry=chem,
                              temperature_profile=Isothermal(T=1000.0), nlayers=3,
                              atm_min_pressure=1e-1, atm_max_pressure=1e5)
    model.build()
    obs = ArraySpectrum(np.array([[10000 / 3500., 0.01, 0.001, 0.5], [10000 / 1500., 0.01, 0.001, 2.0]]))

    class FakeSolution(Optimizer):
        def __init__(self, **kw):
            super().__init__('verif-c18', **kw)
            self.S = np.zeros((0, 4))
            self.W = np.zeros(0)

        def get_samples(self, solution_id):
            return self.S

        def get_weights(self, solution_id):
            return self.W

        def get_solution(self):
            yield 0, self.S[0], self.S[0], []

    opt = FakeSolution(observed=obs, model=model, sigma_fraction=1.0)
    for p in ('T', 'planet_radius', 'planet_distance', 'H2O'):
        opt.enable_fit(p)
    opt.enable_derived('avg_T')
    opt.compile_params()
    names = list(opt.fit_names)
    if sorted(names) != ['H2O', 'T', 'planet_distance', 'planet_radius'] and \
            sorted(names) != ['T', 'log_H2O', 'planet_distance', 'planet_radius']:
        raise RuntimeError('unexpected fitting parameters %r' % (names,))
    names = ['H2O' if n == 'log_H2O' else n for n in names]
    # find out (from the public behaviour) whether a parameter is applied as 10**x
    modes = {}
    for n in names:
        modes[n] = 'linear'
    probe = dict(T=1234.0, planet_radius=1.5, planet_distance=7.0, H2O=-0.5)
    opt.update_model([probe[n] for n in names])
    from taurex.constants import RJUP
    if abs(float(model.temperature.isoTemperature) - 1234.0) > 1e-9 or abs(model.planet.fullRadius / RJUP - 1.5) > 1e-9:
        raise RuntimeError('update_model does not apply T / planet_radius linearly')
    mix = float(model.fittingParameters['H2O'][2]())
    if abs(mix + 0.5) < 1e-12:
        modes['H2O'] = 'linear'
    elif abs(mix - 10 ** -0.5) < 1e-9:
        modes['H2O'] = 'log'
    else:
        raise RuntimeError('cannot interpret the H2O fitting parameter (%r)' % mix)
    o_um = opt.update_model
    tag = names.index('planet_distance')

    def update_model(fit_params):
        _W['cur_i'] = int(round(float(fit_params[tag]))) - 1
        return o_um(fit_params)
    opt.update_model = update_model
    # per-unit slopes of every observed quantity (all are affine in u by construction)
    grid = obs.wavenumberGrid

    def observe(u):
        o_um(_params(u, 0, names, modes))
        ng, native, _, _ = model.model(wngrid=grid, cutoff_grid=False)
        d = dict(temp_profile_std=np.array(model.temperatureProfile, dtype=float),
                 active_mix_profile_std=np.array(model.chemistry.activeGasMixProfile, dtype=float),
                 inactive_mix_profile_std=np.array(model.chemistry.inactiveGasMixProfile, dtype=float),
                 native_std=np.array(native, dtype=float),
                 binned_std=np.array(opt._binner.bindown(ng, native)[1], dtype=float))
        if model.chemistry.hasCondensates:
            d['condensate_profile_std'] = np.array(model.chemistry.condensateMixProfile, dtype=float)
        return d
    o0, o1, o3 = observe(0.0), observe(1.0), observe(3.0)
    lin = {}
    for k in o0:
        a = o1[k] - o0[k]
        if not np.allclose(o3[k], o0[k] + 3.0 * a, rtol=1e-12, atol=0.0):
            raise RuntimeError('fixture observable %s is not affine in the sample value' % k)
        lin[k] = np.abs(a).tolist()
    if conf == 'cond' and (lin['condensate_profile_std'][0][0] != COND_A * TA or np.shape(o0['condensate_profile_std']) != (NCOND, 3)):
        raise RuntimeError('condensate fixture: slope %r, shape %r' % (lin['condensate_profile_std'][0][0], np.shape(o0['condensate_profile_std'])))
    _W['opt'][conf], _W['lin'][conf] = (opt, names, modes), lin
    return _W['opt'][conf]


def _run_prof(rank, size, case):
    conf = case.get('model', 'plain')
    opt, names, modes = _optimizer(conf)
    common = _begin_case(case, rank, size)
    _W['conf'] = conf
    projknown = True
    if case.get('proj') == 'cond':
        # the accumulator that is fed the (NCOND, layers) arrays: first condensate, bottom layer = COND_A * T.
        # Its place among the accumulators of compute_error is learnt from the first run in which this rank feeds
        # it; until then a run in which this rank holds no sample cannot log its (empty) contribution.
        pj = ((0, 0), COND_A * TA, COND_A * T0)
        _W['proj'] = {(NCOND, 3): pj}
        o = _W['shape_ord'].get((conf, (NCOND, 3)))
        if o is not None:
            _W['proj'][o] = pj
        else:
            projknown = len(range(rank, len(case['v']), size)) > 0
    else:
        _W['proj'] = {0: ((0,), TA, T0)}      # the first OnlineVariance of compute_error: temperature profile
    us = [float(Fraction(*q)) for q in case['v']]
    ws = [math.ldexp(float(Fraction(*q)), int(case.get('wexp', 0))) for q in case['w']]
    opt.S = np.array([_params(u, i, names, modes) for i, u in enumerate(us)], dtype=float).reshape(len(us), len(names))
    opt.W = np.array(ws, dtype=float)              # numpy float64 weights, exact zeros included, as a sampler returns
    if case.get('steer') and len(us) > 0:
        # Make the list rank 0 draws equal the exported sequence (position k of the list = sample k of the
        # vector): learn the permutation the public sample_parameters() yields from this random state on
        # index-tagged rows, and store sample k in the row that is drawn k-th.  Steering only: expected values
        # do not depend on the order, and the judge classifies the run by the order that was really processed.
        tag = names.index('planet_distance')
        random.seed(case["rseed"])
        drawn = [int(round(float(p[tag]))) - 1 for p, _ in opt.sample_parameters(0)]
        if sorted(drawn) == list(range(len(us))):
            rows, wts = [None] * len(us), [0.0] * len(us)
            for k, idx in enumerate(drawn):
                rows[idx] = _params(us[k], k, names, modes)
                wts[idx] = ws[k]
            opt.S = np.array(rows, dtype=float).reshape(len(us), len(names))
            opt.W = np.array(wts, dtype=float)
    random.seed(case["rseed"] + 7919 * rank)     # every MPI process has its own random state
    out = dict(lin=_W['lin'][conf], projknown=projknown)
    if case.get('profiles', True):
        pd, sd = opt.generate_profiles(0, opt._observed.wavenumberGrid)
        out['std'] = {k: _tolist(v) for k, v in list(pd.items()) + list(sd.items())}
    if case.get('derived'):
        dd = opt.compute_derived_trace(0)
        out['derived'] = {k: dict(trace=_tolist(v['trace']), mean=float(v['mean']), value=float(v['value']),
                                  sigma_m=float(v['sigma_m']), sigma_p=float(v['sigma_p']))
                          for k, v in dd.items()}
    out['events'] = _finish_events(common)
    return out


def worker_main(rank, size, batch):
    """Runs in a rank process.  A case that raises ends the batch (the ranks must stay in step)."""
    _install()
    import mpi4py
    res = []
    for k, case in enumerate(batch):
        mpi4py.MPI.COMM_WORLD.epoch = k
        try:
            if case['kind'] == 'ov':
                res.append(('ok', _run_ov(rank, size, case)))
            else:
                res.append(('ok', _run_prof(rank, size, case)))
        except BaseException as e:          # noqa
            import traceback
            res.append(('raised', '%s: %s\n%s' % (type(e).__name__, e, traceback.format_exc()[-1500:])))
            break
    return res


# =============================================================================================
# parent side
# =============================================================================================

class Runner(object):
    """Keeps one RankGroup per rank count; restarts a group after a failure."""

    def __init__(self):
        self.groups = {}
        self.collectives = 0
        # import and JIT-compile once in the parent (sequential numba kernels, no threads): the forked
        # rank processes inherit the compiled code and build their own model objects
        _optimizer()
        _optimizer('cond')
        _W['opt'] = {}
        _W['lin'] = {}

    def group(self, size):
        g = self.groups.get(size)
        if g is None or g.dead:
            try:
                g = fx_mpi.RankGroup(size, worker_main)
            except fx_mpi.GroupFailure as e:
                raise Machinery('cannot start %d simulated ranks: %s' % (size, e))
            self.groups[size] = g
        return g

    def run_batch(self, size, cases):
        """-> list of per-case results: ('ok', [per-rank dict]) | ('raised', text) | ('hung', text) | ('failed', text).
        'raised': a rank raised; 'hung': besides, ranks were left waiting in a collective that could not complete
        (aborted by the hub; a real MPI run hangs) -- both are outcomes of the code under test.  'failed': the
        simulation itself broke down (timeout, dead process)."""
        if not cases:
            return []
        try:
            g = self.group(size)
            per_rank = g.run(cases)
            aborts = list(g.last_aborts)
        except fx_mpi.GroupFailure as e:
            if len(cases) == 1:
                return [('failed', str(e))]
            out = []
            for c in cases:                  # isolate the culprit
                out.extend(self.run_batch(size, [c]))
            return out
        out = []
        for k, c in enumerate(cases):
            rs = [pr[k] if k < len(pr) else None for pr in per_rank]
            if any(r is None for r in rs):
                # an earlier case of the batch raised on some rank: rerun the rest separately
                self.close(size)
                for c2 in cases[k:]:
                    out.extend(self.run_batch(size, [c2]))
                return out
            if all(r[0] == 'ok' for r in rs):
                out.append(('ok', [r[1] for r in rs]))
            else:
                out.append(describe_failure(rs, [a for a in aborts if k in a['epoch']]))
                if k + 1 < len(cases):
                    self.close(size)
                    for c2 in cases[k + 1:]:
                        out.extend(self.run_batch(size, [c2]))
                    return out
        return out

    def close(self, size=None):
        for s, g in list(self.groups.items()):
            if size is None or s == size:
                self.collectives += g.collectives
                g.close()
                del self.groups[s]


def describe_failure(rs, aborts):
    """Outcome of a case in which not every rank returned a result."""
    own, waited = [], []
    for r, x in enumerate(rs):
        if x[0] == 'ok':
            continue
        first = x[1].split('\n')[0]
        if 'aborted by the hub' in first:
            waited.append(r)
        else:
            own.append('rank %d raised %s' % (r, first[:160]))
    okr = [r for r, x in enumerate(rs) if x[0] == 'ok']
    text = '; '.join(own) if own else ''
    if okr and (own or waited):
        text += ('; ' if text else '') + 'ranks %s returned a result' % okr
    if waited or aborts:
        why = aborts[0]['why'] if aborts else 'unmatched collective'
        text += ('; ' if text else '') + 'ranks %s were left waiting (a real MPI run hangs): %s' % (waited, why[:200])
        return ('hung', text)
    return ('raised', text)


def fail_clause(res):
    return 'every_rank_completes' if res[0] == 'hung' else 'no_exception'


def xnum(x):
    """exported extended value -> Fraction or None (NaN / not produced)."""
    return frac(x['q']) if x['k'] == 'num' else None


def near(got, exp, scale=1.0):
    """|got - exp| within REL relative to the magnitude of the quantity (scale: typical size)."""
    if got is None:
        return False
    got = float(got)
    if got != got or got in (float('inf'), float('-inf')):
        return False
    exp = float(exp)
    return abs(got - exp) <= REL * max(abs(exp), abs(got), scale)


def all_nan(x):
    if x is None:
        return False
    a = np.asarray(x, dtype=float)
    return a.size > 0 and bool(np.all(np.isnan(a)))


def shape_class(counts):
    if any(c == 1 for c in counts):
        return 'rank-with-one-sample'
    if any(c == 0 for c in counts):
        return 'rank-with-no-sample'
    return 'all-ranks-two-or-more'


def zero_class(lists):
    """lists: per rank, the weights in the order the rank processed them."""
    ws = [w for lst in lists for w in lst]
    if not any(w == 0 for w in ws):
        return ''
    tags = []
    if any(lst and lst[0] == 0 for lst in lists):
        tags.append('first-on-a-rank')
    if any(lst and all(w == 0 for w in lst) for lst in lists):
        tags.append('rank-all-zero')
    if sum(1 for w in ws if w > 0) == 1:
        tags.append('all-but-one')
    return 'zero-weight-' + ('+'.join(tags) if tags else 'later-only')


def processed_lists(per_rank, ws):
    """Per rank, the weights of the samples in the order the rank really processed them (U events)."""
    out = []
    for o in per_rank:
        ev = sorted((e for e in o.get('events', []) if e['ev'] == 'U'), key=lambda e: e['seq'])
        out.append([ws[e['i']] if 0 <= e['i'] < len(ws) else -1 for e in ev])
    return out


def scale_tag(case):
    e = int(case.get('wexp', 0))
    return ':wscale=2^%d' % e if e else ''


def rr_counts(n, size):
    return [len(range(r, n, size)) for r in range(size)]


def case_from_vector(vec, tid, kind, rng, partition='vector', wexp=0, tiny=0):
    nr, n = vec['nr'], vec['n']
    c = dict(kind=kind, tid=tid, v=[list(map(int, q)) for q in vec['v']], w=[list(map(int, q)) for q in vec['w']],
             nr=nr, log=True, npw=bool(tid % 2))
    if wexp:
        c['wexp'] = int(wexp)
    if tiny:
        c['tiny'] = int(tiny)
        c['log'] = False          # a weight of 2**-60 is none of the weights the trace specification knows
    if kind == 'ov':
        if partition == 'vector':
            c['mine'] = [[i - 1 for i in lst] for lst in vec['mine']]
            c['rr'] = 1
        else:
            owner = [rng.randrange(nr) for _ in range(n)]
            c['mine'] = [[i for i in range(n) if owner[i] == r] for r in range(nr)]
            c['rr'] = 0
    else:
        c['rr'] = 1
        c['rseed'] = rng.randrange(10 ** 6)
    return c


def judge_ov(ctx, vec, case, res):
    """Binding A/C, OnlineVariance path: per-rank accumulators and the combined result on every rank."""
    nr, n = vec['nr'], vec['n']
    counts = [len(m) for m in case['mine']]
    cls = 'ov:%s' % shape_class(counts)
    wsf = [frac(q) for q in case['w']]
    zc = zero_class([[wsf[i] for i in m] for m in case['mine']])
    if zc and case.get('tiny'):
        cls += ':%s:tiny-for-zero' % zc           # the masked weights are 2**TINY * k/4 instead of exactly zero
    elif zc:
        cls += ':%s:%s' % (zc, 'numpy-weights' if case.get('npw') else 'python-weights')
        if not case.get('wexp'):
            COVER.add(('ov', nr, zc, bool(case.get('npw'))))
    cls += scale_tag(case)
    un = math.ldexp(1.0, int(case.get('wexp', 0)))      # wcount and M2 carry the unit of the weights, nothing else does
    info = dict(case, vector=dict(mean=vec['mean'], var=vec['var']))
    if res[0] != 'ok':
        ctx.verdict(fail_clause(res), False, cls=cls, detail=res[1][-600:], vector=info)
        return
    ctx.verdict('no_exception', True, cls=cls, vector=info)
    evar, emean = xnum(vec['var']), xnum(vec['mean'])
    for r, out in enumerate(res[1]):
        # -- accumulators after the rank's updates (only comparable when the partition is the exported one)
        if case['rr'] == 1:
            ea = vec['acc'][r]
            a = out['acc']
            ok = a['count'] == ea['count'] and near(a['wcount'], float(frac(ea['wcount'])) * un, un)
            det = 'rank %d count/wcount %r/%r expected %r/%r' % (r, a['count'], a['wcount'], ea['count'], float(frac(ea['wcount'])) * un)
            weighed = frac(ea['wcount']) != 0       # only zero weights so far: mean and M2 are placeholders nobody reads
            if ok and ea['count'] > 0:
                for ch, (ca, cb) in enumerate(zip(CHAN_A, CHAN_B)):
                    em = ca * float(frac(ea['mean'])) + cb
                    e2 = ca * ca * float(frac(ea['M2'])) * un
                    if weighed and not (near(a['mean'][ch], em, 1.0) and near(a['M2'][ch], e2, un)):
                        ok = False
                        det = 'rank %d channel %d mean/M2 %r/%r expected %r/%r' % (r, ch, a['mean'][ch], a['M2'][ch], em, e2)
            elif ok and a['mean'] is not None:
                ok, det = False, 'rank %d holds no sample but has a mean' % r
            ctx.verdict('rank_accumulators_are_two_pass', ok, cls=cls, detail=det, vector=info)
        # -- combined result
        if n < 2:
            ctx.verdict('variance_is_two_pass', all_nan(out['var']), cls=cls,
                        detail='rank %d: fewer than two samples, got %r (single process gives NaN)' % (r, out['var']), vector=info)
            continue
        okv, okm, dv, dm = True, True, '', ''
        for ch, (ca, cb) in enumerate(zip(CHAN_A, CHAN_B)):
            ev = ca * ca * float(evar)
            em = ca * float(emean) + cb
            gv = np.asarray(out['var'], dtype=float).ravel()
            gv = float(gv[ch]) if gv.size > ch else float('nan')
            gm = out['mean'][ch] if out['mean'] is not None else None
            if not near(gv, ev, 1.0):
                okv, dv = False, 'rank %d/%d channel %d variance %r expected %r (n=%d, per-rank counts %s)' % (r, nr, ch, gv, ev, n, counts)
            if not near(gm, em, 1.0):
                okm, dm = False, 'rank %d/%d channel %d mean %r expected %r' % (r, nr, ch, gm, em)
        ctx.verdict('variance_is_two_pass', okv, cls=cls, detail=dv, vector=info)
        ctx.verdict('mean_is_weighted_mean', okm, cls=cls, detail=dm, vector=info)


def judge_prof(ctx, vec, case, res, ref):
    """generate_profiles / compute_derived_trace on every rank against the exact statistics;
    quantile summaries against the one-rank run of the same code (ref)."""
    nr, n = vec['nr'], vec['n']
    counts = rr_counts(n, nr)
    ws = [frac(q) for q in vec['w']]
    ties = len(set(ws)) < len(ws)
    cls = 'profiles:%s' % shape_class(counts)
    if case.get('profiles', True) and any(w == 0 for w in ws):
        # classified by the order the ranks really processed the samples in (logged update events)
        zc = (zero_class(processed_lists(res[1], ws)) if res[0] == 'ok' else '') or 'zero-weight-unclassified'
        cls += ':%s:numpy-weights' % zc
        if not case.get('wexp'):
            COVER.add(('profiles', nr, zc, True))
    if case.get('model', 'plain') != 'plain':
        cls += ':model=' + case['model']
    cls += scale_tag(case)
    dcls = 'derived:%s:%s%s' % ('tied-weights' if ties else 'distinct-weights', 'one-rank' if nr == 1 else 'several-ranks', scale_tag(case))
    info = dict(case, vector=dict(mean=vec.get('mean'), var=vec.get('var'), keys=vec.get('keys')))
    if res[0] != 'ok':
        ctx.verdict(fail_clause(res), False, cls=cls if case.get('profiles', True) else dcls, detail=res[1][-600:], vector=info)
        return
    ctx.verdict('no_exception', True, cls=cls, vector=info)
    for r, out in enumerate(res[1]):
        if 'std' in out:
            evar = xnum(vec['var'])
            if vec.get('keys'):
                # the configuration's family of statistics: one entry per reported quantity, none missing
                want = sorted(OUT_KEYS[k_] for k_ in vec['keys'])
                miss = [k_ for k_ in want if k_ not in out['std']]
                ctx.verdict('profiles_std', not miss, cls=cls, vector=info,
                            detail='rank %d/%d: %s not returned for a model reporting %s (returned: %s)' % (r, nr, miss, sorted(vec['keys']), sorted(out['std'])))
            for k, got in sorted(out['std'].items()):
                clause = 'spectra_std' if k in ('native_std', 'binned_std') else 'profiles_std'
                if k not in out['lin']:
                    raise Machinery('no fixture slope for output %s' % k)
                a = np.asarray(out['lin'][k], dtype=float)
                g = np.asarray(got, dtype=float)
                if n < 2:
                    ok, det = all_nan(g), 'rank %d %s: fewer than two samples, got %r' % (r, k, got)
                else:
                    exp = a * math.sqrt(float(evar))
                    ok = g.shape == exp.shape and bool(np.all(np.isfinite(g))) and \
                        bool(np.all(np.abs(g - exp) <= REL * np.maximum(np.abs(exp), a) + 1e-300))
                    det = 'rank %d/%d %s = %r expected %r (n=%d, per-rank counts %s)' % (r, nr, k, g.ravel()[:3].tolist(), exp.ravel()[:3].tolist(), n, counts)
                ctx.verdict(clause, ok, cls=cls, detail=det, vector=info)
        if 'derived' in out:
            d = out['derived'].get('avg_T_derived')
            if d is None:
                raise Machinery('avg_T_derived missing from compute_derived_trace output')
            exp_tr = [T0 + TA * float(frac(q)) for q in vec['v']]
            ok = d['trace'] is not None and len(d['trace']) == n and all(near(g, e) for g, e in zip(d['trace'], exp_tr))
            det = 'rank %d/%d trace %r expected %r (weights %s)' % (r, nr, d['trace'], exp_tr, [float(x) for x in ws])
            mu = out['derived'].get('mu_derived')
            rmu = ref['derived'].get('mu_derived') if ref is not None else None
            if ok and mu is not None and rmu is not None:
                # second derived parameter (depends on the H2O abundance of the sample): against the one-rank run
                if not (len(mu['trace']) == n and all(near(g, e) for g, e in zip(mu['trace'], rmu['trace']))):
                    ok, det = False, 'rank %d/%d mu trace %r, single-process run %r' % (r, nr, mu['trace'], rmu['trace'])
            ctx.verdict('derived_trace_in_sample_order', ok, cls=dcls, detail=det, vector=info)
            em = T0 + TA * float(frac(vec['mean']))
            okm = near(d['mean'], em)
            det = 'rank %d/%d mean %r expected %r' % (r, nr, d['mean'], em)
            if okm and ref is not None:
                for name, dd, rd in (('avg_T', d, ref['derived']['avg_T_derived']), ('mu', mu, rmu)):
                    if dd is None or rd is None:
                        continue
                    for k in ('mean', 'value', 'sigma_m', 'sigma_p'):
                        if not near(dd[k], rd[k], 1.0):
                            okm, det = False, 'rank %d/%d %s %s %r, single-process run %r' % (r, nr, name, k, dd[k], rd[k])
            ctx.verdict('derived_summaries_equal_serial', okm, cls=dcls, detail=det, vector=info)


def random_case(rng, tid):
    """Seeded random run for binding B (TLC computes the expectation from the logged inputs)."""
    nr = rng.randint(1, MAX_SIZE)
    n = rng.choice([0, 1, 2, 2, 3, 3, 4, 5, 6, 7, 8, 10])
    v = [[rng.randint(0, 5), 1] for _ in range(n)]
    w = [Fraction(rng.randint(0, 4), 4) for _ in range(n)]     # k/4 keeps TLC's 32-bit rationals small; 0 = an underflowed weight
    if n >= 1 and not any(w):                                  # never all of them: the statistics would be 0/0
        w[rng.randrange(n)] = Fraction(rng.randint(1, 4), 4)
    w = [list(_qp(x)) for x in w]
    c = dict(kind='ov', tid=tid, v=v, w=w, nr=nr, log=True, npw=bool(rng.getrandbits(1)))
    e = rng.choice((0, 0) + WEXPS)               # unit of the weights (the log is written in that unit)
    if e:
        c['wexp'] = e
    mode = rng.random()
    if mode < 0.5:
        c['mine'] = [list(range(r, n, nr)) for r in range(nr)]
        c['rr'] = 1
    else:
        owner = [rng.randrange(nr) for _ in range(n)]
        c['mine'] = [[i for i in range(n) if owner[i] == r] for r in range(nr)]
        c['rr'] = 0
    return c


def _qp(f):
    return f.numerator, f.denominator


def merge_events(per_rank):
    """One linearisation of the run: all updates, then all contributions, then all combines."""
    evs = [e for out in per_rank for e in out['events']]
    order = {'U': 0, 'G': 1, 'C': 2}
    return sorted(evs, key=lambda e: (order[e['ev']], e['rank'], e['seq']))


def validate_events(ctx, runs, label):
    """runs: list of (case, per-rank results).  TLC validates every run; returns accepted tids."""
    events, by_tid, pr_by_tid = [], {}, {}
    for case, per_rank in runs:
        pr_by_tid[case['tid']] = per_rank
        ev = merge_events(per_rank)
        if not ev:
            raise Machinery('no event recorded for run %r' % case['tid'])
        events.extend(ev)
        by_tid[case['tid']] = (case, ev)
    if not events:
        raise Machinery('no trace events for ' + label)
    accepted, bad, res = validate_trace('Trace_ParallelStats', 'Trace_ParallelStats.cfg', events)
    ctx.add_tlc('trace-' + label, res, counts=False)
    if res.postcondition_false or res.violated:
        raise Machinery('trace spec did not consume the whole log:\n' + res.out[-1500:])
    oks = set(o['tid'] for o in res.tagged('OK'))
    bads = {b['tid']: b for b in bad}
    good = []
    for tid, (case, ev) in sorted(by_tid.items()):
        b = bads.get(tid)
        if b is None and tid not in oks:
            b = dict(why='incomplete', ev='-', rank=-1, l=-1)
        if b is not None and b['why'] == 'serialisation':
            raise Machinery('the communicator double delivered an unserialised value (run %r)' % tid)
        counts = [len(m) for m in case['mine']] if 'mine' in case else rr_counts(len(case['v']), case['nr'])
        cls = '%s:%s' % ('ov' if case['kind'] == 'ov' else 'profiles', shape_class(counts))
        wsf = [frac(x) for x in case['w']]
        if any(x == 0 for x in wsf):
            per_rank = pr_by_tid.get(tid, [])
            cls += ':%s:%s' % (zero_class(processed_lists(per_rank, wsf)) or 'zero-weight-unclassified',
                               'numpy-weights' if (case['kind'] != 'ov' or case.get('npw')) else 'python-weights')
        if case.get('model', 'plain') != 'plain':
            cls += ':model=%s:%s-accumulator' % (case['model'], case.get('proj', 'temp'))
        cls += scale_tag(case)
        ctx.verdict('trace_' + (b['why'] if b else 'accepted'), b is None, cls=cls,
                    detail='TLC rejected event %s of rank %s (line %s): %s; n=%d nr=%d per-rank counts %s' %
                           (b['ev'], b['rank'], b['l'], b['why'], len(case['v']), case['nr'], counts) if b else '',
                    vector=dict(case, trace=True))
        if b is None:
            good.append(tid)
    ctx.traces += len(by_tid)
    return good, by_tid


def canary(ctx, by_tid, good):
    """Corrupt accepted runs; TLC must reject each corruption with the expected reason."""
    cands = [t for t in good if len(by_tid[t][0]['v']) >= 3 and by_tid[t][0]['nr'] >= 2]
    zcands = [t for t in cands if any(x[0] == 0 for x in by_tid[t][0]['w']) and by_tid[t][0]['kind'] == 'ov']
    cands = [t for t in cands if all(x[0] != 0 for x in by_tid[t][0]['w'])]
    if not cands or not zcands:
        raise Machinery('no accepted run available for the canary')
    base = by_tid[cands[len(cands) // 2]][1]
    muts = []
    # (0) zero weights: a zero-weight update that moves the weight sum; a NaN where the first positive weight
    #     after zero weights must give the sample itself
    zb = None
    for t in zcands:
        ev, acc_w = by_tid[t][1], {}
        for k, e in enumerate(ev):
            if e['ev'] != 'U':
                continue
            prev = acc_w.get(e['rank'], 0)
            if e['w'][0] != 0 and prev == 0 and any(x['ev'] == 'U' and x['rank'] == e['rank'] for x in ev[:k]):
                zb = (ev, k)
                break
            acc_w[e['rank']] = prev + e['w'][0]
        if zb:
            break
    if zb is None:
        raise Machinery('no accepted run with a positive weight after zero weights on one rank (canary)')
    ev = [dict(e, tid=900005) for e in zb[0]]
    ev[zb[1]]['mean'] = 5000000           # what _sc() logs for NaN
    muts.append((900005, 'update', ev))
    ev = [dict(e, tid=900006) for e in zb[0]]
    z = next(e for e in ev if e['ev'] == 'U' and e['w'][0] == 0)
    z['wc'] += 2500
    muts.append((900006, 'update', ev))
    # (1) a sample processed twice (and another one never)
    ev = [dict(e, tid=900001) for e in base]
    us = [e for e in ev if e['ev'] == 'U']
    us[0]['i'] = us[1]['i']
    muts.append((900001, 'each_sample_once', ev))
    # (2) combined variance off by 1e-3
    ev = [dict(e, tid=900002) for e in base]
    c = [e for e in ev if e['ev'] == 'C'][-1]
    c['var'] += 10
    muts.append((900002, 'variance', ev))
    # (3) an accumulator that does not follow the update rule
    ev = [dict(e, tid=900003) for e in base]
    u = [e for e in ev if e['ev'] == 'U'][-1]
    u['m2'] += 7
    muts.append((900003, 'update', ev))
    # (5) an update with a weight that is none of the fed ones
    ev = [dict(e, tid=900007) for e in base]
    u = [e for e in ev if e['ev'] == 'U'][0]
    u['wx'] = 1
    muts.append((900007, 'weight', ev))
    # (4) per-process sequence numbers out of order
    ev = [dict(e, tid=900004) for e in base]
    g = [e for e in ev if e['ev'] == 'G'][0]
    g['seq'] = -5
    muts.append((900004, 'seq', ev))
    allev = [e for _, _, ev in muts for e in ev]
    accepted, bad, res = validate_trace('Trace_ParallelStats', 'Trace_ParallelStats.cfg', allev)
    why = {b['tid']: b['why'] for b in bad}
    for tid, expect, _ in muts:
        if why.get(tid) != expect:
            raise Machinery('canary %d (%s) was not rejected as expected: %r' % (tid, expect, why.get(tid)))


COVER = set()          # (path, rank count, zero-weight class, numpy weights?) exercised by this run


def dedup(vecs):
    seen, out = set(), []
    for v in vecs:
        k = repr(sorted(v.items()))
        if k not in seen:
            seen.add(k)
            out.append(v)
    return out


def tlc_parallel(jobs, par, big_workers):
    """Run the TLC jobs concurrently; -> TLCResult or the exception, in the order of `jobs`."""
    from concurrent.futures import ThreadPoolExecutor

    def one(j):
        try:
            return run_tlc(j.get('module', 'MC_ParallelStats'), j['cfg'], workers=1 if j['kind'] == 'export' else big_workers,
                           coverage=bool(j.get('need')), allow_violation=(j['kind'] == 'refute'),
                           heap='3g' if big_workers <= 4 else '6g')
        except Exception as e:       # noqa  (reported in order by the caller)
            return e
    with ThreadPoolExecutor(max_workers=par) as ex:
        return list(ex.map(one, jobs))


def run(ctx):
    COVER.clear()
    q = ctx.tier == 'quick'
    rng = random.Random(ctx.seed * 104729 + 18)
    ctx.bounds = dict(
        tier=ctx.tier,
        exhaustive='ranks 1..4, up to %d samples, values/weights from small sets: every interleaving of Update/Gather/Combine '
                   '(round-robin split) and every partition (combine step alone), weights that are exactly zero at every position '
                   'included; derived traces with zero and tied weights; weights handed over times 1/1024 (and 1024, thorough): '
                   'results equal the statistics of the unscaled samples' % (4 if q else 5),
        simulated_runs='rank counts 1..6 (one process per rank, all exchanges pickled), 0..12 samples, weights k/4, k = 0 included '
                       '(numpy float64 and python zeros; first sample of a rank, every sample of a rank, all but one); '
                       'every weight times 2**e, e in %s; masked weights as 2**%d instead of zero' %
                       (list(WEXPS if q else WEXPS + WEXPS_THOROUGH), TINY))
    ctx.assumptions = [
        'the mpi4py double reproduces the semantics of the pickle-based collectives (allgather, bcast, allreduce folding with + in rank order)',
        'TLC + CommunityModules Json/IOUtils',
        'the fixture forward model is affine in the sample value for every observed output (checked at start-up in each worker)',
        'quantile summaries of derived parameters are compared with the one-rank run of the same code; traces, means, variances with the specification',
        'independence of the unit of the weights is verified by TLC for the factors 1/1024 and 1024 (32-bit rationals) and applied by the '
        'bindings at 2**-200..2**100 (multiplying a float by a power of two is exact; 1e-300 stays negligible against every such weight)',
    ]
    t = ctx.tier
    # ---------------------------------------------------------------- design level + exports
    # (per-action coverage slows TLC down a lot: the big configs prove non-vacuity by the depth of their
    #  state graph -- every sample updated, every rank gathered and combined / reordered -- and the two small
    #  configs, which take the same actions, by TLC's action coverage.)
    # The TLC runs are independent of each other: they are started together (threads around the TLC
    # subprocesses) and accounted for in a fixed order afterwards; no simulated rank is forked meanwhile.
    jobs = []

    def deep(label, cfg, depth):
        jobs.append(dict(kind='check', label=label, cfg=cfg, depth=depth))

    def refute(label, cfg, inv):
        jobs.append(dict(kind='refute', label=label, cfg=cfg, inv=inv))
    if q:
        deep('var-interleavings', 'MC_ParallelStats_var_quick.cfg', 1 + 4 + 2 * 3)
        deep('var-zero-weights-interleavings', 'MC_ParallelStats_zero_quick.cfg', 1 + 4 + 2 * 3)
        deep('var-every-partition', 'MC_ParallelStats_any_quick.cfg', 1 + 2 * 3)
        deep('derived-trace', 'MC_ParallelStats_trace_quick.cfg', 1 + 4 + 1 + 3)
    else:
        deep('var-interleavings', 'MC_ParallelStats_var_thorough.cfg', 1 + 4 + 2 * 4)
        deep('var-zero-weights-interleavings', 'MC_ParallelStats_zero_thorough.cfg', 1 + 4 + 2 * 4)
        deep('var-interleavings-5', 'MC_ParallelStats_var_thorough5.cfg', 1 + 5 + 2 * 4)
        deep('var-every-partition', 'MC_ParallelStats_any_thorough.cfg', 1 + 2 * 4)
        deep('var-zero-weights-every-partition', 'MC_ParallelStats_zeroany_thorough.cfg', 1 + 2 * 4)
        deep('derived-trace', 'MC_ParallelStats_trace_thorough.cfg', 1 + 4 + 1 + 4)
        deep('derived-trace-5', 'MC_ParallelStats_trace_thorough5.cfg', 1 + 5 + 1 + 4)
    ex_var = ['EX_ParallelStats_var_all.cfg', 'EX_ParallelStats_var_gen.cfg']
    ex_zero = ['EX_ParallelStats_var_zero.cfg' if q else 'EX_ParallelStats_var_zero_thorough.cfg']
    ex_trace = ['EX_ParallelStats_trace_all.cfg', 'EX_ParallelStats_trace_gen.cfg']
    for cfg in ex_var + ex_zero + ex_trace:
        jobs.append(dict(kind='export', label='export-' + cfg, cfg=cfg))
    jobs.append(dict(kind='check', label='in-process-identity-test', cfg='MC_ParallelStats_inproc.cfg', depth=0,
                     need=('UpdateStep', 'GatherStep', 'CombineStep')))
    jobs.append(dict(kind='check', label='as-built-reorder-keeps-summaries', cfg='MC_ParallelStats_asbuilt_summaries_%s.cfg' % t,
                     depth=0, need=('DeriveStep', 'AllReduceConcat', 'ReorderStep')))
    refute('refute-identity-nan-test', 'MC_ParallelStats_refute_nan.cfg', 'VarianceIsTwoPass')
    refute('refute-reorder-by-weight', 'MC_ParallelStats_refute_tie.cfg', 'TraceInSampleOrder')
    refute('refute-wrong-stride', 'MC_ParallelStats_refute_stride.cfg', 'EachSampleOnce')
    # the unguarded 0/0 of the update (zero weight met while nothing has been weighed): the result depends on
    # which sample happens to be the first one of a rank
    refute('refute-unguarded-zero-weight-sched', 'MC_ParallelStats_refute_zero_sched.cfg', 'ScheduleIndependent')
    # unit of the weights: an absolute threshold in the "nothing weighed yet" test of the update passes with
    # weights of ordinary size (tolerant_unit, thorough) and is refuted as soon as the weights are small as a whole
    refute('refute-absolute-threshold-on-weight-sum', 'MC_ParallelStats_refute_scale.cfg', 'VarianceIsTwoPass')
    # the weighted-mean summary of a derived parameter taken from the lists the rank filled itself
    refute('refute-summary-from-local-lists', 'MC_ParallelStats_refute_localmean.cfg', 'SummaryMeanIsGlobal')
    # the family of statistics a run reports (spec/PostStats.tla): one accumulator per reported quantity, optional
    # ones (condensate profiles) for every model configuration; each combined across the ranks
    ex_post = 'EX_PostStats_%s.cfg' % t
    jobs.append(dict(kind='check', module='MC_PostStats', label='statistic-family', cfg='MC_PostStats_%s.cfg' % t, depth=1 + (3 if q else 4)))
    jobs.append(dict(kind='refute', module='MC_PostStats', label='refute-statistic-from-own-accumulator', cfg='MC_PostStats_refute_local.cfg',
                     inv='EveryStatisticIsCombined'))
    jobs.append(dict(kind='export', module='MC_PostStats', label='export-' + ex_post, cfg=ex_post))
    if not q:
        jobs.append(dict(kind='check', module='MC_PostStats', label='own-accumulator-is-right-on-one-rank', cfg='MC_PostStats_local_one_rank.cfg', depth=2))
    if not q:
        refute('refute-absolute-threshold-sched', 'MC_ParallelStats_refute_scale_sched.cfg', 'ScheduleIndependent')
        refute('refute-local-summary-rank-fails', 'MC_ParallelStats_refute_norank.cfg', 'NoRankFails')
        deep('absolute-threshold-passes-at-unit-scale', 'MC_ParallelStats_tolerant_unit.cfg', 1 + 3 + 2 * 3)
        refute('refute-unguarded-zero-weight', 'MC_ParallelStats_refute_zero.cfg', 'VarianceIsTwoPass')
        refute('refute-identity-nan-test-sched', 'MC_ParallelStats_refute_sched.cfg', 'ScheduleIndependent')
    results = tlc_parallel(jobs, par=5 if q else 3, big_workers=4 if q else 8)
    exported = {}
    for j, res in zip(jobs, results):
        if isinstance(res, Exception):
            raise res
        if j['kind'] == 'refute':
            ctx.add_tlc(j['label'], res, counts=False)
            if res.violated != j['inv']:
                raise Machinery('expected TLC to refute %s in %s/%s, got %r' % (j['inv'], j.get('module', 'MC_ParallelStats'), j['cfg'], res.violated))
            continue
        ctx.add_tlc(j['label'], res)
        if res.violated:
            raise Machinery('spec %s/%s violates %s\n%s' % (j.get('module', 'MC_ParallelStats'), j['cfg'], res.violated, res.error_trace))
        if res.distinct == 0:
            raise Machinery('TLC reported 0 states for MC_ParallelStats/%s' % j['cfg'])
        for a in j.get('need', ()):
            if res.action_cov.get(a, (0, 0))[1] == 0:
                raise Machinery('vacuous: action %s never taken in %s' % (a, j['cfg']))
        if j['kind'] == 'check' and res.depth < j['depth']:
            raise Machinery('vacuous: state graph of %s has depth %d < %d' % (j['cfg'], res.depth, j['depth']))
        if j['kind'] == 'export':
            exported[j['cfg']] = dedup(res.tagged('VEC'))
    ctx.exhaustive = True
    vv = [v for cfg in ex_var for v in exported[cfg]]
    zv = [v for cfg in ex_zero for v in exported[cfg]]
    tv = [v for cfg in ex_trace for v in exported[cfg]]
    if len(vv) < 500 or len(tv) < 500 or len(zv) < 150:
        raise Machinery('too few exported vectors (%d, %d, %d)' % (len(vv), len(tv), len(zv)))
    if any(not v['defined'] for v in vv + zv) or not all(any(frac(x) == 0 for x in v['w']) for v in zv):
        raise Machinery('exported vectors: a sample set without positive weight, or a zero mask without zero weight')
    vv = vv + zv
    pv = exported[ex_post]
    if len(pv) < 100 or not any('cond' in v['conf'] for v in pv) or not any(not v['conf'] for v in pv):
        raise Machinery('statistic-family export: %d vectors' % len(pv))
    runner = Runner()
    try:
        execute(ctx, runner, rng, vv, tv, q, pv)
    finally:
        runner.close()
        fx_mpi.close_all()
    ctx.note('simulated collectives completed by the hub: %d' % runner.collectives)
    # non-vacuity of the zero-weight domain (only judged on a run without violations: a defect may derail the steering)
    if not ctx.has_violations():
        for nr in range(1, MAX_SIZE + 1):
            for path, npws in (('ov', (True, False)), ('profiles', (True,))):
                need = ['first-on-a-rank'] + (['rank-all-zero'] if nr >= 2 else []) + (['all-but-one'] if path == 'ov' else [])
                for npw in npws:
                    got = set(t for (p_, k, zc, w_) in COVER if p_ == path and k == nr and w_ == npw
                              for t in zc.replace('zero-weight-', '').split('+'))
                    miss = [x for x in need if x not in got]
                    if miss:
                        raise Machinery('zero-weight classes %s never exercised on %d ranks (%s, %s weights)' %
                                        (miss, nr, path, 'numpy' if npw else 'python'))
    ctx.note('zero-weight classes exercised (path, ranks, class, numpy weights): %d' % len(COVER))


def execute(ctx, runner, rng, vv, tv, q, pv=()):
    tid = [0]

    def next_tid():
        tid[0] += 1
        return tid[0]
    traced = []                      # (case, per-rank results) to be validated by TLC
    import time
    marks = [('start', time.time(), 0)]

    def mark(name):
        marks.append((name, time.time(), tid[0]))
    B = 40
    ZSHARE = 0.3 if q else 1.0       # share of the zero-mask runs whose event logs go to TLC
    ZPROF = 0.5 if q else 1.0        # share of the zero-mask vectors (3..6 ranks) run through generate_profiles
    # unit of the weights: every weight of the vector times 2**e, e cycling through `exps`
    exps = WEXPS if q else WEXPS + WEXPS_THOROUGH
    SC_BIG = 0.5 if q else 1.0       # share of the generic / zero-mask vectors also run with scaled weights (OnlineVariance path)
    SC_SMALL = 0.15 if q else 0.5    # the same for the small exhaustive vectors (n <= 3)
    SC_TRACE = 0.3 if q else 0.5     # share of the scaled runs whose event logs go to TLC
    SC_PROF = 0.25 if q else 0.5     # share of the generate_profiles vectors also run with scaled weights
    SC_DER = 0.5 if q else 1.0       # share of the generic derived-trace sample sets also run with scaled weights
    TINY_SHARE = 0.25 if q else 0.5  # share of the zero-mask vectors also run with 2**TINY instead of zero
    nexp = [0]

    def next_exp():
        nexp[0] += 1
        return exps[nexp[0] % len(exps)]
    haszero = lambda v: any(frac(x) == 0 for x in v['w'])
    # -------- OnlineVariance path: every exported vector with its own partition, a share with random partitions
    by_nr = {}
    for v in vv:
        by_nr.setdefault(v['nr'], []).append(v)
    n_trace_budget = 260 if q else 1500
    for nr in sorted(by_nr):
        items = []
        for v in by_nr[nr]:
            items.append((v, case_from_vector(v, next_tid(), 'ov', rng)))
            if nr > 1 and v['n'] >= 2 and rng.random() < (0.25 if q else 1.0):
                items.append((v, case_from_vector(v, next_tid(), 'ov', rng, partition='random')))
            if v['n'] >= 2 and rng.random() < (SC_BIG if (v['n'] >= 4 or haszero(v)) else SC_SMALL):
                part = 'random' if (nr > 1 and rng.random() < 0.25) else 'vector'
                items.append((v, case_from_vector(v, next_tid(), 'ov', rng, partition=part, wexp=next_exp())))
            if haszero(v) and rng.random() < TINY_SHARE:
                items.append((v, case_from_vector(v, next_tid(), 'ov', rng, tiny=TINY)))
        for k in range(0, len(items), B):
            chunk = items[k:k + B]
            out = runner.run_batch(nr, [c for _, c in chunk])
            for (v, c), res in zip(chunk, out):
                if res[0] == 'failed':
                    raise Machinery('simulated run failed: ' + res[1][-600:])
                judge_ov(ctx, v, c, res)
                zero = any(x[0] == 0 for x in c['w'])
                if not c['log'] or (c.get('wexp') and rng.random() >= SC_TRACE):
                    continue
                if res[0] == 'ok' and ((v['n'] >= 4 and (not zero or v['nr'] == 2 or rng.random() < ZSHARE)) or
                                       rng.random() < n_trace_budget / float(len(vv) * 1.3)):
                    traced.append((c, res[1]))
    mark('OnlineVariance')
    ctx.add_sample(dict(binding='A/C', path='OnlineVariance', vector={k: vv[len(vv) // 2][k] for k in ('nr', 'n', 'v', 'w', 'mean', 'var')}))
    # -------- generate_profiles: generic vectors + a share of the small ones
    # Zero-mask vectors: generate_profiles hands a zero weight over as 1e-300, so a zero-weight sample leaves a
    # rounding residue (1e-16 relative, of either sign) in the streaming M2.  That is immaterial unless the exact
    # variance is 0 (all samples of positive weight equal, e.g. all weights but one are zero), where the square
    # root turns it into 1e-10 or NaN -- on one rank already.  Such ill-conditioned sets are judged on the
    # OnlineVariance path only (exact zeros); see the report.
    zprof, seen = [], {}
    for v in vv:
        if v['n'] < 3 or not haszero(v) or xnum(v['var']) == 0:
            continue
        wsf = [frac(x) for x in v['w']]
        tags = zero_class([[wsf[i] for i in range(r, v['n'], v['nr'])] for r in range(v['nr'])]).split('+')
        fresh = [tg for tg in tags if seen.get((v['nr'], tg), 0) < 2]
        if fresh or rng.random() < ZPROF:
            zprof.append(v)
            for tg in tags:
                seen[(v['nr'], tg)] = seen.get((v['nr'], tg), 0) + 1
    prof = [v for v in vv if v['n'] >= 4 and not haszero(v)] + zprof + \
           [v for v in vv if v['n'] < 4 and not haszero(v) and rng.random() < (0.12 if q else 0.6)]
    by_nr = {}
    for v in prof:
        by_nr.setdefault(v['nr'], []).append(v)
    for nr in sorted(by_nr):
        items = [(v, dict(case_from_vector(v, next_tid(), 'prof', rng), profiles=True, derived=False, steer=haszero(v)))
                 for v in by_nr[nr]]
        items += [(v, dict(case_from_vector(v, next_tid(), 'prof', rng, wexp=next_exp()), profiles=True, derived=False,
                           steer=haszero(v)))
                  for v in by_nr[nr] if v['n'] >= 3 and rng.random() < SC_PROF]
        for k in range(0, len(items), B):
            chunk = items[k:k + B]
            out = runner.run_batch(nr, [c for _, c in chunk])
            for (v, c), res in zip(chunk, out):
                if res[0] == 'failed':
                    raise Machinery('simulated run failed: ' + res[1][-600:])
                judge_prof(ctx, v, c, res, None)
                if res[0] == 'ok' and (not c.get('wexp') or rng.random() < SC_TRACE):
                    traced.append((c, res[1]))
    mark('generate_profiles')
    # -------- the family of reported statistics over the model configurations (spec/PostStats.tla): every standard
    # deviation the run returns -- the optional ones (condensate profiles) included -- on every rank; the event log
    # of the condensate accumulator (or of the temperature accumulator) goes to TLC
    by_nr = {}
    ntraced_cond = 0
    for v in pv:
        if 'cond' in v['conf'] or rng.random() < (0.25 if q else 1.0):
            by_nr.setdefault(v['nr'], []).append(v)
    for nr in sorted(by_nr):
        items = []
        for v in sorted(by_nr[nr], key=lambda v_: -v_['n']):      # every rank holds samples in the first runs
            c = dict(case_from_vector(v, next_tid(), 'prof', rng), profiles=True, derived=False,
                     model='cond' if 'cond' in v['conf'] else 'plain')
            if c['model'] == 'cond' and c['tid'] % 3:
                c['proj'] = 'cond'
            items.append((v, c))
            if c['model'] == 'cond' and v['n'] >= 3 and rng.random() < SC_PROF:
                items.append((v, dict(case_from_vector(v, next_tid(), 'prof', rng, wexp=next_exp()), profiles=True, derived=False,
                                      model='cond', proj='cond')))
        for k in range(0, len(items), B):
            chunk = items[k:k + B]
            out = runner.run_batch(nr, [c for _, c in chunk])
            for (v, c), res in zip(chunk, out):
                if res[0] == 'failed':
                    raise Machinery('simulated run failed: ' + res[1][-600:])
                judge_prof(ctx, v, c, res, None)
                if res[0] == 'ok' and v['n'] >= 1 and (c.get('proj') == 'cond' or rng.random() < 0.3) and \
                        all(o.get('projknown', True) for o in res[1]):
                    traced.append((c, res[1]))
                    ntraced_cond += c.get('proj') == 'cond'
    if ntraced_cond < 20 and not ctx.has_violations():
        raise Machinery('only %d event logs of the condensate accumulator' % ntraced_cond)
    mark('statistic-family')
    # -------- compute_derived_trace: one-rank reference first, then the same samples on 2..6 ranks
    dv = [v for v in tv if v['n'] >= 1 and frac(v['wsum']) > 0]
    dv = [v for v in dv if v['n'] >= 4 or rng.random() < (0.25 if q else 1.0)]
    # (vector, exponent of the weight unit): the generic vectors also with scaled weights, the same exponent for
    # every rank count of one sample set; the one-rank reference is run in the same unit
    expof = {}
    dvx = []
    for v in dv:
        dvx.append((v, 0))
        if v['n'] >= 4:
            k0 = repr((v['v'], v['w']))
            if k0 not in expof:
                expof[k0] = next_exp() if rng.random() < SC_DER else 0
            if expof[k0]:
                dvx.append((v, expof[k0]))
    key = lambda v, e=0: repr((v['v'], v['w'], e))
    refs = {}
    ones = {}
    for v, e in dvx:
        ones.setdefault(key(v, e), (v, e))
    items = [(v, dict(case_from_vector(dict(v, nr=1), next_tid(), 'prof', rng, wexp=e), profiles=False, derived=True, log=False))
             for v, e in ones.values()]
    for k in range(0, len(items), B):
        chunk = items[k:k + B]
        out = runner.run_batch(1, [c for _, c in chunk])
        for (v, c), res in zip(chunk, out):
            if res[0] == 'failed':
                raise Machinery('simulated run failed: ' + res[1][-600:])
            judge_prof(ctx, dict(v, nr=1), c, res, None)
            if res[0] == 'ok':
                refs[key(v, c.get('wexp', 0))] = res[1][0]
    by_nr = {}
    for v, e in dvx:
        if v['nr'] > 1:
            by_nr.setdefault(v['nr'], []).append((v, e))
    for nr in sorted(by_nr):
        items = [(v, dict(case_from_vector(v, next_tid(), 'prof', rng, wexp=e), profiles=False, derived=True, log=False))
                 for v, e in by_nr[nr]]
        for k in range(0, len(items), B):
            chunk = items[k:k + B]
            out = runner.run_batch(nr, [c for _, c in chunk])
            for (v, c), res in zip(chunk, out):
                if res[0] == 'failed':
                    raise Machinery('simulated run failed: ' + res[1][-600:])
                judge_prof(ctx, v, c, res, refs.get(key(v, c.get('wexp', 0))))
    mark('compute_derived_trace')
    ctx.add_sample(dict(binding='A/C', path='compute_derived_trace', vector={k: dv[len(dv) // 2][k] for k in ('nr', 'n', 'v', 'w', 'mean')}))
    # -------- binding B: seeded random runs (TLC computes what they must give)
    nrand = 250 if q else 2500
    rcases = [random_case(rng, next_tid()) for _ in range(nrand)]
    by_nr = {}
    for c in rcases:
        by_nr.setdefault(c['nr'], []).append(c)
    for nr in sorted(by_nr):
        for k in range(0, len(by_nr[nr]), B):
            chunk = by_nr[nr][k:k + B]
            out = runner.run_batch(nr, chunk)
            for c, res in zip(chunk, out):
                if res[0] == 'failed':
                    raise Machinery('simulated run failed: ' + res[1][-600:])
                counts = [len(m) for m in c['mine']]
                ctx.verdict('no_exception' if res[0] == 'ok' else fail_clause(res), res[0] == 'ok',
                            cls='ov:%s%s' % (shape_class(counts), scale_tag(c)), detail=res[1][-600:] if res[0] != 'ok' else '', vector=c)
                if res[0] == 'ok':
                    traced.append((c, res[1]))
    mark('random')
    good, by_tid = [], {}
    CH = 700
    for k in range(0, len(traced), CH):
        g, b = validate_events(ctx, traced[k:k + CH], 'batch%d' % (k // CH))
        good += g
        by_tid.update(b)
    if not q or True:
        canary(ctx, by_tid, good)
    ctx.add_sample(dict(binding='B', trace_events=by_tid[good[0]][1][:4] if good else None))
    mark('trace-validation')
    ctx.note('simulated runs: %d (TLC-validated event logs: %d)' % (tid[0], len(traced)))
    ctx.note('phases (wall s / simulated runs): ' + ', '.join(
        '%s %.1f/%d' % (b[0], b[1] - a[1], b[2] - a[2]) for a, b in zip(marks, marks[1:])))


def replay(ctx, violations):
    rng = random.Random(0)
    runner = Runner()
    try:
        for v in violations:
            case = dict(v['vector'])
            case.pop('trace', None)
            vec = case.pop('vector', None)
            nr = case['nr']
            if case.get('proj') == 'cond':
                # fresh rank processes: let every rank feed the condensate accumulator once, so that a rank that
                # holds no sample in the replayed run knows which accumulator to log (see _run_prof)
                warm = dict(case, v=[[k % 3, 1] for k in range(2 * nr)], w=[[1, 4]] * (2 * nr), tid=899999, wexp=0, steer=False)
                runner.run_batch(nr, [warm])
            res = runner.run_batch(nr, [case])[0]
            if res[0] == 'failed':
                raise Machinery('simulated run failed: ' + res[1][-600:])
            if res[0] != 'ok':
                ctx.verdict(fail_clause(res), False, cls=v.get('cls', ''), detail=res[1][-600:], vector=v['vector'])
                continue
            if case.get('log'):
                validate_events(ctx, [(case, res[1])], 'replay')
            print('replayed run tid=%s on %d ranks: %s' % (case.get('tid'), nr,
                  {k: res[1][0].get(k) for k in ('var', 'mean', 'std', 'derived') if k in res[1][0]}))
            if vec is None or case.get('tid', 0) >= 900000:
                continue
            full = dict(nr=nr, n=len(case['v']), v=case['v'], w=case['w'], mean=vec.get('mean'), var=vec.get('var'), keys=vec.get('keys'), acc=None)
            if case['kind'] == 'ov' and vec.get('var') is not None:
                judge_ov(ctx, full, dict(case, rr=0), res)
            elif case['kind'] == 'prof':
                ref = None
                if case.get('derived') and nr > 1:
                    one = runner.run_batch(1, [dict(case, nr=1, log=False)])[0]
                    ref = one[1][0] if one[0] == 'ok' else None
                judge_prof(ctx, full, case, res, ref)
    finally:
        runner.close()
        fx_mpi.close_all()
    del rng
