"""C17 -- observations load independent of row order with aligned columns and units.

Spec: spec/Observation.tla (Load, BinnerOf, clauses), spec/MC_Observation.tla (exhaustive over all
      row permutations + export + refuted slip variants), spec/Trace_Observation.tla.
Binding A: TLC-exported (rows, exact loaded object) vectors replayed in EVERY row permutation through
      ArraySpectrum, ObservedSpectrum (text file) and TaurexSpectrum (HDF5 in the layout main() writes),
      two unit scalings; widths / edges accepted under either consistent reading (exported exactly).
Binding B: seeded random rows on a 1/8 micron lattice through the same three sources, one event per
      load (+ create_binner + binned piecewise-constant model), validated by TLC + canary.
Last sentence (model binned to the observation, element by element): spec/ObsBin.tla defines the model
      over exactly [wn_i - w_i/2, wn_i + w_i/2] with Binning!Binned (overlap-weighted mean) and the window
      algorithm of FluxBinner with the "search resumed from the previous bin" slips; spec/MC_ObsBin.tla
      checks it for narrow channels + broad bands (overlapping, nested, gapped bins, edges that do not
      ascend with the centres) in every row order, refutes the slips and exports (rows, native model,
      exact binned model) vectors; 4-column trace events carry a random native model decided by TLC.
Histories: spec/BinnerHistory.tla (one long-lived binner: any sequence of bindown / bin_model / generate_spectrum_output leaves
      it the binner it was; design mutants "memo keyed on length / ends", "widths converted in place" refuted); TLC's operation
      sequences (every ordered pair + longer random ones) replayed on observation.create_binner() for the three sources:
      exposed centres / widths stay the observation's, the binned model stays TLC's exact value, every call equals a fresh
      create_binner()'s (harness/fx_binnerhist.py) + canary on the harness's own mutants of the real FluxBinner.
"""
import itertools
import os
import random
import tempfile
from fractions import Fraction

import numpy as np

from ..core import Machinery, frac, close, validate_trace

REL = 1e-12


def _klasses():
    from taurex.data.spectrum.array import ArraySpectrum
    from taurex.data.spectrum.observed import ObservedSpectrum
    from taurex.data.spectrum.taurex import TaurexSpectrum
    return ArraySpectrum, ObservedSpectrum, TaurexSpectrum


def real_rows(rows, ncol, D, scale):
    """rows of lattice integers -> float array (wl um, val, err[, wid um]); wl = k/(D*scale)."""
    a = np.array([[r[0] / (D * scale), float(r[1]), float(r[2]), r[3] / (D * scale)] for r in rows], dtype=float)
    return a[:, :ncol]


# 4 roundings of 2^-24 relative: a float32 array is loaded in float32 arithmetic (10000/wl: one rounding; 10000 w/wl^2: three;
# wl -/+ w/2 is exact on the lattice fixtures, then one division) -- Observation.tla: route array:float32
REL32 = 4 * 2.0 ** -24
BASE_ROUTES = {'array': 'array:float64', 'text': 'text:class', 'hdf5': 'hdf5:class'}
KNOWN_ROUTES = {'array:float64', 'array:float32', 'array:int', 'array:fortran', 'array:readonly', 'array:list',
                'text:class', 'text:parser', 'hdf5:class', 'hdf5:helper', 'hdf5:parser'}


class SourceModified(Exception):
    pass


def _via_parser(key, path, tmpdir):
    """the parameter file's [Observation] section (taurex.parameter.ParameterParser.generate_observation)"""
    from taurex.parameter import ParameterParser
    par = os.path.join(tmpdir, 'obs.par')
    with open(par, 'w') as f:
        f.write('[Observation]\n%s = %s\n' % (key, path))
    pp = ParameterParser()
    pp.read(par)
    return pp.generate_observation()


def load(source, arr, tmpdir, layout=None):
    """source: a route of Observation.tla (RoutesOf), '<source>:<way in>'; the bare source names are the class routes.
    layout: the line records of spec/TextFile.tla (text source only): the rows are written line by line in the number
    styles, with the comment / blank lines, the specification chose; default: numpy.savetxt."""
    A, O, T = _klasses()
    source = BASE_ROUTES.get(source, source)
    if source not in KNOWN_ROUTES:
        raise Machinery('route %r of the specification has no binding' % source)
    src, way = source.split(':')
    if src == 'array':
        if way == 'float32':
            given = arr.astype(np.float32)
        elif way == 'int':
            given = arr.astype(np.int64)
        elif way == 'fortran':
            given = np.asfortranarray(arr.copy())
        else:
            given = arr.copy()
        if not np.array_equal(np.asarray(given, float), arr):
            raise Machinery('the rows are not representable in the element type of route %s' % source)
        if way == 'readonly':
            given.setflags(write=False)
        if way == 'list':
            return A(given.tolist())
        keep = given.copy()
        obs = A(given)
        if not (np.array_equal(given, keep) and given.dtype == keep.dtype):
            raise SourceModified('the array handed to ArraySpectrum was modified by the load')
        return obs
    if src == 'text':
        path = os.path.join(tmpdir, 'obs.dat')
        if layout is None:
            np.savetxt(path, arr, fmt='%.17g')
        else:
            from .. import fx_textfile
            fx_textfile.write_text(path, arr, layout)
        return O(path) if way == 'class' else _via_parser('observed_spectrum', path, tmpdir)
    if src == 'hdf5':
        import h5py
        path = os.path.join(tmpdir, 'obs.h5')
        wl, wid = arr[:, 0], arr[:, 3]
        wn = 10000.0 / wl
        with h5py.File(path, 'w') as f:
            g = f.create_group('Output').create_group('Spectra')
            g['instrument_wngrid'] = wn
            g['instrument_wlgrid'] = wl
            g['instrument_spectrum'] = arr[:, 1]
            g['instrument_noise'] = arr[:, 2]
            g['instrument_wnwidth'] = 10000.0 * wid / (wl * wl)
        if way == 'helper':
            from taurex.util.hdf5 import taurex_hdf5_to_observation
            return taurex_hdf5_to_observation(path)
        return T(path) if way == 'class' else _via_parser('taurex_spectrum', path, tmpdir)
    raise Machinery('source ' + source)


def observe(obs):
    return dict(wn=np.asarray(obs.wavenumberGrid, float), val=np.asarray(obs.spectrum, float),
                err=np.asarray(obs.errorBar, float), wid=np.asarray(obs.binWidths, float),
                ed=np.asarray(obs.binEdges, float))


def allclose(got, exp, rel):
    return len(got) == len(exp) and all(close(float(g), float(e), rel=rel) for g, e in zip(got, exp))


def tiles_model(wn, wid, val):
    """Piecewise-constant native model: 4 native bins tiling each observation bin (value val[i]),
    filler bins in the gaps and outside.  None if the observation bins overlap each other."""
    lo, hi = wn - wid / 2, wn + wid / 2
    if np.any(lo[1:] < hi[:-1]) or np.any(wid <= 0):
        return None
    c, w, f = [], [], []
    FILL = -999.0
    prev = lo[0] - wid[0]
    for i in range(len(wn)):
        if lo[i] > prev:
            c.append((prev + lo[i]) / 2); w.append(lo[i] - prev); f.append(FILL)
        e = np.linspace(lo[i], hi[i], 5)
        for a, b in zip(e[:-1], e[1:]):
            c.append((a + b) / 2); w.append(b - a); f.append(val[i])
        prev = hi[i]
    c.append(prev + wid[-1] / 2); w.append(wid[-1]); f.append(FILL)
    return np.array(c), np.array(w), np.array(f)


def binner_check(obs, o, tiles=True):
    """(grid_ok, widths_ok, aligned or None, binned values or None)."""
    b = obs.create_binner()
    model = tiles_model(o['wn'], o['wid'], o['val']) if tiles else None
    if model is None:
        lo, hi = o['wn'].min(), o['wn'].max()
        g = np.linspace(lo * 0.9, hi * 1.1, 50)
        out = b.bin_model((g, np.ones_like(g), None, None))
        return np.array_equal(out[0], o['wn']), np.array_equal(out[3], o['wid']), None, None
    c, w, f = model
    p = np.random.RandomState(len(c)).permutation(len(c))
    out = b.bindown(c[p], f[p], grid_width=w[p])
    binned = np.asarray(out[1], float)
    aligned = all(close(float(x), float(v), rel=1e-9, abs_=1e-9) for x, v in zip(binned, o['val']))
    return np.array_equal(out[0], o['wn']), np.array_equal(out[3], o['wid']), aligned, binned


def judge_vector(ctx, vec, perm, source, scale, tmpdir, ref, layout=None, lcls=None):
    rows, ncol, ex = vec['rows'], vec['ncol'], vec['exp']
    n = len(rows)
    prow = [rows[i] for i in perm]
    ident = list(perm) == list(range(n))
    cls = '%s:%dcol:%s' % (source, ncol, 'sorted-asc-wl' if ident else 'permuted') + (':lines=' + lcls if lcls else '')
    meta = dict(vec, perm=list(perm), source=source, scale=scale)
    if layout is not None:
        meta.update(layout=layout, lcls=lcls)
    f32 = source == 'array:float32'
    REL = REL32 if f32 else globals()['REL']
    try:
        obs = load(source, real_rows(prow, ncol, 1, scale), tmpdir, layout)
        o = observe(obs)
    except Machinery:
        raise
    except Exception as exn:
        # nested lists in place of an array may be refused (they are not an array); they may not be loaded differently
        refused = source == 'array:list' and not isinstance(exn, SourceModified)
        ctx.verdict('rows_stay_together', refused, cls=cls + (':refused' if refused else ''), detail='exception %r' % exn, vector=meta)
        return None
    s = float(scale)
    wn = [float(frac(x)) * s for x in ex['wn']]
    ctx.verdict('wavenumber_ascending_10000_over_wl', allclose(o['wn'], wn, REL) and bool(np.all(np.diff(o['wn']) > 0)), cls=cls,
                detail='got %r expected %r' % (o['wn'].tolist(), wn), vector=meta)
    ctx.verdict('rows_stay_together', np.array_equal(o['val'], np.array(ex['val'], float)) and
                np.array_equal(o['err'], np.array(ex['err'], float)), cls=cls,
                detail='values %r errors %r expected %r %r' % (o['val'].tolist(), o['err'].tolist(), ex['val'], ex['err']), vector=meta)
    wA = [float(frac(x)) * s for x in ex['wnwA']]
    wB = [float(frac(x)) * s for x in ex['wnwB']]
    ctx.verdict('widths_converted_or_midpoint', allclose(o['wid'], wA, REL) or allclose(o['wid'], wB, REL), cls=cls,
                detail='got %r expected %r (or %r)' % (o['wid'].tolist(), wA, wB), vector=meta)
    eA = [float(frac(x)) * s for x in ex['edA']]
    eB = [float(frac(x)) * s for x in ex['edB']]
    ctx.verdict('edges_consistent', allclose(o['ed'], eA, REL) or allclose(o['ed'], eB, REL), cls=cls,
                detail='got %r expected %r (or %r)' % (o['ed'].tolist(), eA, eB), vector=meta)
    try:
        # float32 bins: the binner's float32 edges differ from the float64 tiling by 2^-24 relative, slivers of the filler enter
        gok, wok, aligned, binned = binner_check(obs, o, tiles=not f32)
    except Exception as exn:
        gok, wok, aligned, binned = False, False, False, repr(exn)
    ctx.verdict('binner_aligned', gok and wok and aligned is not False, cls=cls,
                detail='binner grid ok %r widths ok %r binned model %r vs values %r' % (gok, wok, binned, o['val'].tolist()), vector=meta)
    if 'nat' in vec and not f32:
        judge_model(ctx, vec, obs, o, s, allclose(o['wid'], wA, REL), allclose(o['wid'], wB, REL), cls, meta)
    if ref is not None:
        same = all(np.array_equal(o[k], ref[k]) for k in ('wn', 'val', 'err', 'wid', 'ed'))
        ctx.verdict('permutation_invariant', same, cls=cls, detail='differs from the object loaded from rows sorted by wavelength', vector=meta)
    return o


GEO = ('overlap', 'nested', 'gap', 'lownonasc', 'upnonasc', 'widthsdiffer')


def geo_class(g):
    return '+'.join(k for k in GEO if g.get(k)) or 'disjoint-ascending'


def judge_model(ctx, vec, obs, o, s, isA, isB, cls, meta):
    """Native model of the spec (cells vec['nat'] cm-1, values vec['f']) binned with the observation's
    own binner, native points shuffled: element i = exact overlap-weighted mean over the bin of element i
    (TLC: ObsBin!ModelOnObs), for the reading the loaded widths follow."""
    nat = np.array(vec['nat'], float) * s
    c, w, f = (nat[:, 0] + nat[:, 1]) / 2, nat[:, 1] - nat[:, 0], np.array(vec['f'], float)
    p = np.random.RandomState(len(c) + len(vec['rows'])).permutation(len(c))
    if any(x['k'] != 'num' for k in 'AB' for x in vec['mod' + k]):
        raise Machinery('a model vector exported for a covering native grid has a bin without model')
    cands = [(k, [float(frac(x['v'])) for x in vec['mod' + k]]) for k, on in (('A', isA or not isB), ('B', isB)) if on]
    gcls = cls + ':bins=' + geo_class(vec['geo' + cands[0][0]])
    try:
        out = obs.create_binner().bindown(c[p], f[p], grid_width=w[p])
        got = np.asarray(out[1], float)
        ok = np.array_equal(out[0], o['wn']) and any(len(got) == len(e) and all(close(g, x, rel=1e-9) for g, x in zip(got, e)) for _, e in cands)
        detail = 'binned model %r expected %r (bin centres %r widths %r)' % (got.tolist(), cands[0][1], o['wn'].tolist(), o['wid'].tolist())
    except Exception as exn:
        ok, detail = False, 'exception %r' % exn
    ctx.verdict('model_binned_over_own_centre_and_width', ok, cls=gcls, detail=detail, vector=meta)


COV = ('low', 'high', 'mid', 'partial')


def cov_class(c):
    return '+'.join(k for k in COV if c.get(k)) or 'all-covered'


def judge_cover(ctx, vec, perm, source, scale, tmpdir, route):
    """COVERAGE of the observation's bins by the model (MC_ObsBin: Cuts, ObsBin!ModelOnObsCov): the native grid of the model
    stops short of some bins (low end, high end, both) or has a gap.  Element i of the binned model is TLC's exact value
    for the bin of element i wherever the model reaches that bin; the bins it does not reach are not judged (documented:
    they carry no model flux) -- but they may not move the others.  route 'bindown': create_binner().bindown with the cells'
    widths; 'bin_model': create_binner().bin_model((wngrid, flux, ..)) -- no widths are passed on, so the same piecewise
    constant model is handed over on its uniform refinement (cells of the finest native width; contiguous grids only)."""
    rows, ncol = vec['rows'], vec['ncol']
    prow = [rows[i] for i in perm]
    meta = dict(vec, perm=list(perm), source=source, scale=scale, cover=route)
    s = float(scale)
    cls0 = '%s:%dcol:%s' % (source, ncol, 'sorted-asc-wl' if list(perm) == sorted(perm) else 'permuted')
    try:
        obs = load(source, real_rows(prow, ncol, 1, scale), tmpdir)
        o = observe(obs)
        wA = [float(frac(x)) * s for x in vec['exp']['wnwA']]
        wB = [float(frac(x)) * s for x in vec['exp']['wnwB']]
        k = 'B' if (allclose(o['wid'], wB, REL) and not allclose(o['wid'], wA, REL)) else 'A'
        exp, cov = vec['mod' + k], vec['cov' + k]
        cls = '%s:cover=%s:cut=%s:%s' % (cls0, cov_class(cov), vec['cut'], route)
        nat = np.array(vec['nat'], float) * s
        lo, hi, f = nat[:, 0], nat[:, 1], np.array(vec['f'], float)
        if route == 'bin_model':
            if np.any(lo[1:] != hi[:-1]):
                raise Machinery('bin_model route asked for a native grid with a gap')
            iw = [int(y) - int(x) for x, y in vec['nat']]
            g = float(np.gcd.reduce(iw)) * s
            reps = np.array(iw) // int(np.gcd.reduce(iw))
            ed = lo[0] + g * np.arange(reps.sum() + 1)
            lo, hi, f = ed[:-1], ed[1:], np.repeat(f, reps)
        c, w = (lo + hi) / 2, hi - lo
        p = np.random.RandomState(len(c) + len(rows)).permutation(len(c))
        b = obs.create_binner()
        out = b.bin_model((c[p], f[p], None, None)) if route == 'bin_model' else b.bindown(c[p], f[p], grid_width=w[p])
        got = np.asarray(out[1], float)
        ok = np.array_equal(out[0], o['wn']) and np.array_equal(out[3], o['wid']) and got.shape == o['wn'].shape
        # 1e-9: the sums of at most ~40 products of lattice numbers of size <= 1e4 (rounding ~1e-14 relative)
        bad = [] if not ok else [i for i, e in enumerate(exp) if e['k'] == 'num' and not close(float(got[i]), float(frac(e['v'])), rel=1e-9)]
        ok = ok and not bad
        detail = ('binned model %r; expected at the covered elements %r (element(s) %r differ); bin centres %r widths %r; native cells %r'
                  % (got.tolist(), [float(frac(e['v'])) if e['k'] == 'num' else e['k'] for e in exp], bad, o['wn'].tolist(), o['wid'].tolist(), vec['nat']))
    except Machinery:
        raise
    except Exception as exn:
        ok, detail, cls = False, 'exception %r' % exn, cls0 + ':cover:' + route
    ctx.verdict('binner_aligned', ok, cls=cls, detail=detail, vector=meta)
    ctx.verdict('model_binned_over_own_centre_and_width', ok, cls=cls, detail=detail, vector=meta)


def run_cover(ctx, vecs, rng):
    """every exported (rows, cut native model, exact binned model with coverage kinds) vector: array source in the sorted and
    one random row order, both routes where the grid is contiguous; a file-based source for every fourth."""
    need = {'low', 'high', 'mid', 'partial'}
    seen = {k for v in vecs for k in need if v['covA'][k]}
    if seen != need or not any(v['covA']['low'] and v['covA']['ncov'] >= 2 for v in vecs):
        raise Machinery('exported coverage patterns lack %r' % sorted(need - seen))
    n = 0
    with tempfile.TemporaryDirectory(prefix='c17c_') as tmpdir:
        for vi, vec in enumerate(vecs):
            ident = tuple(range(len(vec['rows'])))
            perms = list(itertools.permutations(ident))
            perm = perms[rng.randrange(1, len(perms))]
            routes = ['bindown'] + (['bin_model'] if vec['cut'] != 'gap' else [])
            for pi, pm in enumerate((ident, perm)):
                for route in routes:
                    judge_cover(ctx, vec, pm, 'array', 1 if (vi + pi) % 2 else 4, tmpdir, route)
                    n += 1
            if vi % 4 == ctx.seed % 4:
                judge_cover(ctx, vec, perm, ('text', 'hdf5')[(vi // 4) % 2], 1, tmpdir, routes[-1])
                n += 1
    ctx.traces += n
    return n


def run_vectors(ctx, vecs, rng, perm_cap, one_file_source=False):
    with tempfile.TemporaryDirectory(prefix='c17_') as tmpdir:
        for vi, vec in enumerate(vecs):
            n = len(vec['rows'])
            perms = list(itertools.permutations(range(n)))
            if len(perms) > perm_cap:
                rest = perms[1:]
                rng.shuffle(rest)
                perms = [perms[0]] + rest[:perm_cap - 1]
            sources = ['array', 'text'] + (['hdf5'] if vec['ncol'] == 4 else [])
            if one_file_source:      # array in every row order, text and hdf5 alternating from vector to vector
                sources = ['array', sources[1 + vi % (len(sources) - 1)]]
            for source in sources:
                scale = 1 if (vi + len(source)) % 2 == 0 else 4
                ref = None
                for perm in perms:
                    if source != 'array' and (len(perms) > 6 or one_file_source) and perm != perms[0] and rng.random() < 0.5:
                        continue       # file-based sources: half of the permutations of >= 4 rows
                    o = judge_vector(ctx, vec, perm, source, scale, tmpdir, ref)
                    if ref is None:
                        ref = o


def run_routes(ctx, vecs, routes, rng):
    """Observation.tla RoutesOf / RoutesAgree: every OTHER public way of reaching the same source (element type and memory
    layout of the array; the parameter file's [Observation] keys; the HDF5 helper of taurex.util.hdf5) loads the
    specification's exact object for the same rows: sorted and one random row order per vector and array route, one row order
    per file-based route, every clause.
    The class routes are run in every row order by run_vectors."""
    extra = sorted(set(routes) - set(BASE_ROUTES.values()))
    unknown = set(routes) - KNOWN_ROUTES
    if unknown or not set(BASE_ROUTES.values()) <= set(routes) | {'hdf5:class'}:
        raise Machinery('routes of the specification %r: no binding for %r' % (sorted(routes), sorted(unknown)))
    n = 0
    with tempfile.TemporaryDirectory(prefix='c17r_') as tmpdir:
        for vi, vec in enumerate(vecs):
            ident = tuple(range(len(vec['rows'])))
            perms = list(itertools.permutations(ident))
            for ri, route in enumerate(extra):
                # integers only at unit scale (D = 1: whole microns, odd and even widths); the others alternate
                scale = 1 if route == 'array:int' or (vi + ri) % 2 == 0 else 4
                perm = perms[rng.randrange(1, len(perms))]
                if route.startswith('array'):
                    ref = judge_vector(ctx, vec, ident, route, scale, tmpdir, None)
                    judge_vector(ctx, vec, perm, route, scale, tmpdir, ref)
                else:       # file-based routes (the dearer ones): one row order, rotating between sorted and random
                    judge_vector(ctx, vec, perm if (vi + ri) % 3 else ident, route, scale, tmpdir, None)
                n += 2 if route.startswith('array') else 1
    ctx.traces += n
    return n


def run_text_layouts(ctx, files, vecs, rng):
    """The text source over the LINES of the file (spec/TextFile.tla): every exported file layout (number style of each data
    row, comment and blank lines anywhere) carries the rows of an exported vector with as many rows, in a row order that
    rotates through all permutations; wavelengths k/16 and k/8 um (below one micron: a number written without the zero before
    the point starts with '.').  The loaded object must be the specification's exact one for those rows -- every clause."""
    from .. import fx_textfile
    by_n = {}
    for v in vecs:
        by_n.setdefault(len(v['rows']), []).append(v)
    done = 0
    with tempfile.TemporaryDirectory(prefix='c17t_') as tmpdir:
        for i, t in enumerate(files):
            n = len(t['rows'])
            if n not in by_n:
                raise Machinery('no exported vector with %d rows for the text layout %r' % (n, t['lines']))
            vec = by_n[n][(i * 7 + ctx.seed) % len(by_n[n])]
            perms = list(itertools.permutations(range(n)))
            perm = perms[(i + ctx.seed) % len(perms)]
            # every wavelength of the exported vectors is <= 12: scale 16 puts all of them below one micron
            judge_vector(ctx, vec, perm, 'text', 16, tmpdir, None, layout=t['lines'], lcls=fx_textfile.layout_class(t))
            done += 1
    ctx.traces += done
    return done


# ----------------------------------------------------------------------------
# binding B
# ----------------------------------------------------------------------------
D, S, SW, SE, SM = 8, 1000, 100, 100, 1000


def random_rows(rng):
    ncol = rng.choice([3, 4])
    n = rng.randint(2, 24)
    u = rng.random()
    narrow = u < 0.5
    bands = u >= 0.75            # narrow channels plus a few broad bands (4 columns)
    nbroad = rng.randint(1, 3)
    while True:
        # narrow 4-column rows: even lattice points, so that the bins (width 1/8 um) do not touch
        ks = rng.sample(range(8, 129, 2) if (narrow and ncol == 4) else range(8, 129), n)
        s = sorted(ks)
        if ncol == 4 or 3 * s[0] > s[1]:
            break
    rows = []
    broad = set(rng.sample(range(n), min(nbroad, n))) if bands else ()
    for i, k in enumerate(ks):
        if narrow:
            j = 1
        elif bands:
            j = rng.randint(min(8, 2 * k - 1), min(16, 2 * k - 1)) if i in broad else rng.randint(1, 2)
        else:
            j = rng.randint(1, min(16, 2 * k - 1))
        rows.append([k, rng.randint(0, 1000), rng.randint(1, 100), j])
    return rows, ncol


def random_native(rows, rng):
    """Contiguous native cells with integer cm-1 edges covering every bin of the (4-column) rows, random
    non-uniform sizes, random integer values 0..20.  The hull comes from the rows, not from the code."""
    wn = [Fraction(10000 * D, r[0]) for r in rows]
    hw = [Fraction(10000 * D * r[3], 2 * r[0] * r[0]) for r in rows]
    a = max(0, int(min(c - h for c, h in zip(wn, hw))) - 3)
    b = int(max(c + h for c, h in zip(wn, hw))) + 4
    inner = set(rng.sample(range(a + 1, b), min(rng.randint(15, 45), b - a - 1)))
    inner |= {int(c) for c in wn if rng.random() < 0.5 and a < int(c) < b}
    ed = [a] + sorted(inner) + [b]
    nat = [[x, y] for x, y in zip(ed[:-1], ed[1:])]
    return nat, [rng.randint(0, 20) for _ in nat]


def exact_load(rows, ncol):
    """Fractions: reading A / B of widths and edges (classification only; TLC re-validates reading A)."""
    s = sorted(rows, key=lambda r: -r[0])
    wl = [Fraction(r[0], D) for r in s]
    wn = [10000 / x for x in wl]

    def mid(g):
        n = len(g)
        return [g[0] - (g[1] - g[0]) / 2] + [(g[i] + g[i + 1]) / 2 for i in range(n - 1)] + [g[-1] + (g[-1] - g[-2]) / 2]
    if ncol == 4:
        wid = [Fraction(r[3], D) for r in s]
        wA = [10000 * w / (x * x) for w, x in zip(wid, wl)]
        wB = wA
        eA = [e for x, w in zip(wl, wid) for e in (10000 / (x + w / 2), 10000 / (x - w / 2))]
        eB = [e for c, w in zip(wn, wA) for e in (c - w / 2, c + w / 2)]
    else:
        ed = mid(wl)
        wid = [abs(ed[i + 1] - ed[i]) for i in range(len(wl))]
        wA = [10000 * w / (x * x) for w, x in zip(wid, wl)]
        edn = mid(wn)
        wB = [abs(edn[i + 1] - edn[i]) for i in range(len(wn))]
        eA = [10000 / e for e in ed]
        eB = edn
    return wA, wB, eA, eB


def sc(x, s_):
    x = float(x)
    if x != x or abs(x) * s_ >= 2 ** 30:
        return -1
    return int(round(x * s_))


def make_event(rows, ncol, source, tmpdir, native=None):
    obs = load(source, real_rows(rows, ncol, D, 1), tmpdir)
    o = observe(obs)
    wA, wB, eA, eB = exact_load(rows, ncol)
    isA = allclose(o['wid'], wA, 1e-9) and allclose(o['ed'], eA, 1e-9)
    isB = allclose(o['wid'], wB, 1e-9) and allclose(o['ed'], eB, 1e-9)
    b = obs.create_binner()
    model = tiles_model(o['wn'], o['wid'], o['val'])
    if model is None:
        g = np.linspace(o['wn'].min() * 0.9, o['wn'].max() * 1.1, 50)
        out = b.bin_model((g, np.ones_like(g), None, None))
        mb, chk = [], False
    else:
        c, w, f = model
        p = np.random.RandomState(len(c)).permutation(len(c))
        out = b.bindown(c[p], f[p], grid_width=w[p])
        mb, chk = [sc(x, S) for x in out[1]], True

    nat, nf, mbin = [], [], []
    if native is not None and ncol == 4:
        nat, nf = native
        na = np.array(nat, float)
        p = np.random.RandomState(len(nat)).permutation(len(nat))
        mo = obs.create_binner().bindown(((na[:, 0] + na[:, 1]) / 2)[p], np.array(nf, float)[p], grid_width=(na[:, 1] - na[:, 0])[p])
        mbin = [sc(x, SM) for x in mo[1]]

    def ints(a):
        return [int(x) if float(x) == int(x) else -1 for x in a]
    return dict(rows=rows, ncol=ncol, D=D, S=S, Sw=SW, Se=SE, tol=1, Sm=SM, chkmodel=bool(nat), nat=nat, nf=nf, mbin=mbin,
                mwn=[sc(x, S) for x in o['wn']], val=ints(o['val']), err=ints(o['err']),
                mwid=[sc(x, SW) for x in o['wid']], med=[sc(x, SE) for x in o['ed']],
                reading='A' if isA else ('B' if isB else 'none'), readA=bool(isA),
                bgrid=[sc(x, S) for x in out[0]], bwid=[sc(x, SW) for x in out[3]], chkalign=chk, mb=mb)


def run_traces(ctx, nloads):
    rng = random.Random(ctx.seed * 15485863 + 17)
    events, metas = [], []
    with tempfile.TemporaryDirectory(prefix='c17_') as tmpdir:
        for i in range(nloads):
            rows, ncol = random_rows(rng)
            source = rng.choice(['array', 'text'] + (['hdf5'] if ncol == 4 else []))
            native = random_native(rows, rng) if ncol == 4 else None
            try:
                ev = make_event(rows, ncol, source, tmpdir, native)
            except Exception as exn:
                ctx.verdict('trace_load', False, cls='%s:%dcol:exception' % (source, ncol), detail=repr(exn),
                            vector=dict(trace=True, rows=rows, ncol=ncol, source=source))
                continue
            ev['id'] = len(events)
            events.append(ev)
            metas.append(dict(trace=True, rows=rows, ncol=ncol, source=source, native=native))
    if len(events) < 10:
        raise Machinery('too few trace events')
    slim = [{k: v for k, v in e.items() if k != 'reading'} for e in events]
    accepted, bad, res = validate_trace('Trace_Observation', 'Trace_Observation.cfg', slim)
    ctx.add_tlc('trace', res, counts=False)
    if (res.postcondition_false or res.rc != 0) and not bad:
        raise Machinery('trace spec did not consume the whole trace:\n' + res.out[-1500:])
    badids = {b['id'] for b in bad}
    ctx.traces += len(events)
    nalign = 0
    for e, m in zip(events, metas):
        nalign += bool(e['chkalign'])
        cls = '%s:%dcol:trace' % (m['source'], m['ncol'])
        ctx.verdict('trace_load', e['id'] not in badids, cls=cls, detail='TLC rejected the loaded object %r' % {k: e[k] for k in ('mwn', 'val', 'err', 'mwid', 'med', 'bgrid', 'bwid', 'mb', 'mbin')}, vector=m)
        # widths / edges must follow one of the two consistent readings (classified with exact fractions;
        # reading A is re-validated by TLC in the event)
        ctx.verdict('trace_widths_edges_reading', e['reading'] != 'none', cls=cls, detail='widths/edges follow neither reading', vector=m)
    ctx.add_sample(dict(trace_event=slim[0]))
    nmodel = sum(bool(e['chkmodel']) for e in events)
    ctx.note('trace: %d loads (%d with the binned piecewise-constant model aligned check, %d with a random native model binned over each element\'s own bin)' % (len(events), nalign, nmodel))
    if nmodel < len(events) // 10 and not badids:
        raise Machinery('too few native-model checks in the trace (%d of %d)' % (nmodel, len(events)))
    if nalign < len(events) // 10 and not badids:
        raise Machinery('too few aligned-model checks in the trace (%d of %d)' % (nalign, len(events)))
    # canary: swap two observed values of an accepted 4-column event with an aligned check
    good = [e for e in slim if e['id'] not in badids and e['chkalign'] and len(e['val']) >= 3 and e['val'][0] != e['val'][1]]
    if not good:
        if badids:
            return            # candidates already rejected: the run reports violations
        raise Machinery('no event available for the canary')
    c1 = dict(good[len(good) // 2]); c1['val'] = [c1['val'][1], c1['val'][0]] + c1['val'][2:]; c1['id'] = 900001
    c2 = dict(good[0]); c2['mwid'] = list(reversed(c2['mwid'])); c2['bwid'] = c2['mwid']; c2['id'] = 900002
    if c2['mwid'] == good[0]['mwid']:
        c2['mwid'] = [x + 5 for x in c2['mwid']]; c2['bwid'] = c2['mwid']
    canaries = [c1, c2]
    gm = [e for e in slim if e['id'] not in badids and e['chkmodel']]
    if gm:       # one binned model value off by 5/1000
        c3 = dict(gm[len(gm) // 2]); c3['mbin'] = [c3['mbin'][0] + 5] + c3['mbin'][1:]; c3['id'] = 900003
        canaries.append(c3)
    elif not badids:
        raise Machinery('no event available for the native-model canary')
    ok2, bad2, _ = validate_trace('Trace_Observation', 'Trace_Observation.cfg', canaries)
    if ok2 or {b['id'] for b in bad2} != {c['id'] for c in canaries}:
        raise Machinery('canary accepted: trace validation is vacuous (%r)' % (bad2,))


# ----------------------------------------------------------------------------
# histories of the observation's binner (spec/BinnerHistory.tla)
# ----------------------------------------------------------------------------
HIST_CLAUSE = dict(exposed='binner_stays_on_observation', wlwidth='binner_stays_on_observation', obs='binner_stays_on_observation',
                   values='model_binned_over_own_centre_and_width', tau='model_binned_over_own_centre_and_width')


def history_rows(A, ncol, rng):
    """Rows (wavelength um, value, error[, width um]) of an observation whose bins are the target bins of the
    BinnerHistory alphabet (centre c cm-1, full width w cm-1: wl = 10000/c, width = w wl^2/10000), in random row order."""
    wl = 10000.0 / A.tc
    arr = np.column_stack([wl, [float(rng.randint(1, 900)) for _ in wl], [float(rng.randint(1, 90)) for _ in wl], A.tw * wl * wl / 10000.0])
    order = list(range(len(wl)))
    rng.shuffle(order)
    return arr[order][:, :ncol]


def run_binner_histories(ctx, only=None):
    """The last sentence over HISTORIES: observation -> create_binner() -> any sequence of bindown / bin_model /
    generate_spectrum_output (what the program and Optimizer.generate_solution do with the observation's binner) -- after every
    call the binner still exposes exactly the observation's centres and widths, the binned model is still the model over each
    element's own bin (TLC, exact), the call returns what a fresh create_binner() returns, and the observation is untouched."""
    from .. import fx_binnerhist as BH
    q = ctx.tier == 'quick'
    rng = random.Random(ctx.seed * 7919 + 1717)
    if only is None:
        # quick: the design-level run over the whole reachable graph is part of ./check C16 quick (same module); here the pairs
        # run checks the clauses of the sound design for every ordered pair and TLC evaluates, per sequence, which design mutants
        # it refutes (generate() requires each mutant to be refuted by many sequences)
        if not q:
            BH.check_design(ctx, thorough=True)
        A, walks = BH.generate(ctx, thorough=not q, nwalks=None if q else 500)
        longer = [w for w in walks if w['src'] == 'walk']
        pairs = [w for w in walks if w['src'] == 'pair']
        some = longer + pairs[ctx.seed % 4::4]
        todo = [('array', 4, walks), ('text', 4, some), ('hdf5', 4, some), ('array', 3, some)]
    else:
        A, walks = BH.generate(ctx, thorough=any(o['g'] > 4 for v in only for o in v['ops']), nwalks=20, unit=only[0].get('unit'))
        todo = [(v['source'], v['ncol'], [dict(ops=v['ops'], src='replay', flux=[], simple=[])]) for v in only]
    n = 0
    with tempfile.TemporaryDirectory(prefix='c17h_') as tmpdir:
        for source, ncol, ws in todo:
            arr = history_rows(A, ncol, rng)
            state = {}

            def reload():
                state['obs'] = load(source, arr, tmpdir)
                state['o0'] = {k: np.array(v, copy=True) for k, v in observe(state['obs']).items()}
            try:
                reload()
            except Exception as exn:
                ctx.verdict('rows_stay_together', False, cls='%s:%dcol:history' % (source, ncol), detail='exception %r' % exn,
                            vector=dict(binner_history=True, source=source, ncol=ncol, ops=[], unit=A.U))
                continue
            o0 = state['o0']
            # 4 columns: the loaded bins are the alphabet's (up to rounding of 10000/(10000/c)), so TLC's exact values apply
            onlat = ncol == 4 and o0['wn'].shape == A.c.shape and np.allclose(o0['wn'], A.c, rtol=1e-12, atol=0) and np.allclose(o0['wid'], A.w, rtol=1e-9, atol=0)
            if ncol == 4 and not onlat and not ctx.has_violations():
                raise Machinery('history observation (%s) is not on the bins of the alphabet: %r %r' % (source, o0['wn'].tolist(), o0['wid'].tolist()))
            it = BH.replay(A, 'flux', lambda: state['obs'].create_binner(), ws, ref=lambda: (state['o0']['wn'], state['o0']['wid']),
                           tol=1e-9 if onlat else None)
            for w, problems in it:
                ops = w['ops']
                n += 1
                now = observe(state['obs'])
                changed = [k for k in now if not np.array_equal(now[k], state['o0'][k], equal_nan=True)]
                if changed:
                    problems = problems + [(len(ops) - 1, 'obs', 'the observation itself changed while its binner was used: %s' % ', '.join(changed))]
                    reload()
                vec = dict(binner_history=True, source=source, ncol=ncol, ops=ops, unit=A.U)
                by = {}
                for j, tag, detail in problems:
                    by.setdefault(HIST_CLAUSE.get(tag, 'binner_history_independent'), (j, tag, detail))
                clauses = {'binner_stays_on_observation', 'binner_history_independent'} | ({'model_binned_over_own_centre_and_width'} if onlat else set())
                for c in sorted(clauses | set(by)):
                    if c in by:
                        j, tag, detail = by[c]
                        ctx.verdict(c, False, cls='%s:%dcol:%s' % (source, ncol, BH.failure_class(A, 'flux', ops, j)), vector=vec,
                                    detail='observation -> create_binner() -> %s: call %d (%s) -- %s' % (BH.trail(ops), j + 1, tag, detail))
                    else:
                        ctx.verdict(c, True, cls='%s:%dcol:history' % (source, ncol), vector=vec)
    if only is None:
        # the doubles are built on the real FluxBinner: once the real binner fails the canary concludes nothing
        ncan = BH.canary(A, walks) if not ctx.has_violations() else 0
        ctx.traces += n
        ctx.note('binner histories: %d operation sequences (all %d ordered pairs of %d operations + %d longer ones) replayed on the binner of observations '
                 'loaded from array / text / hdf5 (4 columns, bins = the alphabet\'s) and array (3 columns); canary: %d sequences on the harness\'s own mutants'
                 % (n, len(pairs), len(A.table['flux']), len(longer), ncan))
        ctx.add_sample(dict(binner_history=walks[-1]['ops'], exposes=walks[-1]['flux']))


# ----------------------------------------------------------------------------
# histories of the holders of an observation and its binner (spec/ObsHolder.tla)
# ----------------------------------------------------------------------------
HOLD_CLAUSE = dict(exposed='binner_stays_on_observation', values='model_binned_over_own_centre_and_width')


class _Deferred:
    """Stands in for ctx while TLC generates in a background thread; the add_tlc calls are replayed on ctx afterwards."""

    def __init__(self, ctx):
        self.seed, self.tier, self.calls = ctx.seed, ctx.tier, []

    def add_tlc(self, *a, **k):
        self.calls.append((a, k))

    def flush(self, ctx):
        for a, k in self.calls:
            ctx.add_tlc(*a, **k)


def run_obs_holders(ctx, only=None, generated=None):
    """The last sentence over the HOLDERS of an observation: the library's Optimizer is given an observation (constructor
    keyword, set_observed), bins the model to it and compares / stores it (chisq_trans, generate_solution with its
    contributions), is given another observation, ...; a second holder lives in the same process.  Whenever a holder bins
    the model it bins onto the observation it holds now: binned centres / widths are that observation's, the binned model and
    chi-squared are TLC's exact ones for it, and the use returns what a freshly built holder of that observation returns."""
    from .. import fx_obsholder as OH
    import taurex.log as tlog
    from taurex.log.logger import root_logger
    q = ctx.tier == 'quick'
    table, walks = generated if generated is not None else OH.generate(ctx, thorough=not q)
    if only is not None:
        walks = [dict(acts=v['acts'], held=v['held'], kills=[], src='replay') for v in only]
    unit = (only[0].get('unit') if only else None) or (8.0, 16.0, 32.0, 64.0)[ctx.seed % 4]
    sources = ['array', 'text', 'hdf5']
    saved = (tlog.last_log, root_logger.level)
    tlog.setLogLevel(60)                     # generate_solution() re-enables logging at the last set level
    n = 0
    try:
        with tempfile.TemporaryDirectory(prefix='c17o_') as tmpdir:
            src = {}

            def load_obs(o, rows):
                d = os.path.join(tmpdir, 'o%d' % o)
                os.makedirs(d, exist_ok=True)
                src[o] = sources[(o + ctx.seed) % 3]
                return load(src[o], rows, d)
            try:
                world = OH.World(table, unit, load_obs)
            except Machinery:
                raise
            except Exception as exn:
                ctx.verdict('rows_stay_together', False, cls='holder:observations', detail='exception %r' % exn, vector=dict(obs_holder=True, acts=[], held=[], unit=unit))
                return
            off = [o for o, e in world.exp.items() if e is None]
            if off and not ctx.has_violations():
                raise Machinery('holder observations %r are not on the bins of the alphabet' % (off,))
            for w, problems in OH.replay(world, walks):
                n += 1
                acts = w['acts']
                vec = dict(obs_holder=True, acts=acts, held=w['held'], unit=unit)
                by = {}
                for j, tag, detail in problems:
                    by.setdefault(HOLD_CLAUSE.get(tag, 'binner_history_independent'), (j, tag, detail))
                for c in sorted({'binner_stays_on_observation', 'binner_history_independent', 'model_binned_over_own_centre_and_width'} | set(by)):
                    if c in by:
                        j, tag, detail = by[c]
                        a = acts[j]
                        ctx.verdict(c, False, cls='holder:optimizer:%s(O%d from %s):%s' % (a['u'] if a['a'] == 'use' else a['a'], w['held'][j], src.get(w['held'][j], '-'), OH.situation(acts, j)),
                                    vector=vec, detail='%s: step %d (%s) -- %s' % (OH.trail(acts), j + 1, tag, detail))
                    else:
                        ctx.verdict(c, True, cls='holder:optimizer:history', vector=vec)
            ncan = 0
            if only is None and not ctx.has_violations():
                ncan = OH.canary(world, walks)
    finally:
        tlog.last_log = saved[0]
        root_logger.setLevel(saved[1])
    if only is None:
        ctx.traces += n
        how = 'give, use, give, use for every pair of observations given' if q else 'every history of 4 actions'
        ctx.note('observation holders: %d histories (%d short ones on one Optimizer: %s; %d random ones on two) '
                 'of constructor / set_observed / chisq_trans / generate_solution over 3 observations (array, text, hdf5; 4, 4 and 3 bins); '
                 'canary: %d histories on the harness\'s own unsound holders'
                 % (n, sum(1 for w in walks if w['src'] == 'short'), how, sum(1 for w in walks if w['src'] == 'walk'), ncan))
        ctx.add_sample(dict(holder_history=OH.trail(walks[-1]['acts']), exposes=walks[-1]['kills']))


def run(ctx):
    q = ctx.tier == 'quick'
    t = ctx.tier
    ctx.bounds = dict(tier=t,
                      exhaustive='2-3 rows over wavelengths {4,6,9,12} (quick) / {4,5,6,8,9,12} (thorough), values/errors/widths in {1,2}, all row permutations, 3 and 4 columns; 4 (5) generic rows',
                      vectors='2-4 (2-5) generic rows over 6 (7) wavelengths, every permutation (<=24; 5 rows: 40 sampled), sources array/text/hdf5, unit scales 1 and 4',
                      traces='2-24 rows, wavelengths k/8 um (k in 8..128), 3/4 columns, random order, three sources; 4 columns: widths 1/8 um (disjoint), random 1/8..2 um, or narrow channels + 1-3 broad bands; random native model of 16-70 contiguous cells with integer cm-1 edges',
                      model_vectors='3 (3-4) rows over wavelengths {4,5,6,8,9,12}, widths {1,5} um in all combinations (4 columns) / derived (3 columns), native cells 40/80/120 cm-1, every row order, three sources',
                      binner_histories='observation (bins = 4 target bins of the BinnerHistory alphabet: overlapping, gapped, unsorted rows) -> create_binner() -> every ordered pair of 32 (40) '
                      'operations (bindown with / without grid_width and error, bin_model, generate_spectrum_output x 3 sizes on 4 (5) native grids) and 120 (500) random '
                      'sequences of 6 (9); sources array (all), text / hdf5 / 3-column array (the longer ones + a quarter of the pairs)',
                      coverage='3 rows over {4,6,12} ({4,6,9,12}) um, widths {1,5} um; native cells 120/240/360 cm-1 removed below / above / (both) / between any two edges of the observation\'s bins; '
                      'sorted + one random row order; bindown with widths and bin_model on the uniform refinement; MC_ObsBin: window algorithm of FluxBinner with cuts low / gap (thorough: + 4 rows, low)',
                      obsbin_exhaustive='2-3 (2-4) rows over {4,5,10,20} ({4,5,10,20,25}) um, widths {1,7} um, native cells 200/400/600 (100/200/300) cm-1, FluxBinner window algorithm on the 12.5 (0.5) cm-1 lattice')
    ctx.assumptions = ['distinct positive wavelengths, >=2 rows, 4 columns: 0 < width < 2 wl; 3 columns: lowest mirrored edge positive',
                       'widths / edges: either consistent reading accepted (wavelength-space or wavenumber-space)',
                       'HDF5 written by the harness in the layout taurex.taurex.main() writes (Output/Spectra/instrument_*)',
                       'TLC + CommunityModules Json/IOUtils; float64 evaluation of 10000/wl within 1e-12',
                       'binner histories: wavelengths 10000/c and widths w wl^2/10000 put the loaded bins on the lattice bins (c, w) of the alphabet up to rounding (checked at 1e-12 / 1e-9); '
                       'binned values compared with TLC\'s exact ones at 1e-9, exposed centres / widths and fresh-binner results bit for bit',
                       'model binned to the observation: the native model tiles an interval containing every observation bin, or (coverage vectors) stops short of some bins / has a gap: covered and partly covered bins are judged (mean over the covered part, C05), bins the model does not reach and bins it only touches are not; binned values compared at 1e-9 relative (vectors) / 2e-3 absolute on values 0..20 (traces)']
    # TLC generates the text files and the holder histories (small single-worker runs) while the runs below are under way
    from concurrent.futures import ThreadPoolExecutor
    from .. import fx_textfile, fx_obsholder
    bg = ThreadPoolExecutor(max_workers=2)
    dtext, dhold = _Deferred(ctx), _Deferred(ctx)
    fut_text = bg.submit(fx_textfile.generate, dtext, not q)
    fut_hold = bg.submit(fx_obsholder.generate, dhold, not q)
    bg.shutdown(wait=False)
    for c in ('4col', '3col'):
        ctx.check_spec('exhaustive-' + c, 'MC_Observation', 'MC_Observation_%s_%s.cfg' % (c, t), need_actions=('LoadRows',) if c == '4col' and q else ())
    for c in ('4gen', '3gen'):
        ctx.check_spec('exhaustive-' + c, 'MC_Observation', 'MC_Observation_%s_%s.cfg' % (c, t))
    ctx.exhaustive = True
    ctx.expect_refuted('refute-sortcol0', 'MC_Observation', 'MC_Observation_ref_sortcol0.cfg', 'PermutationInvariant')
    ctx.expect_refuted('refute-widthsrev', 'MC_Observation', 'MC_Observation_ref_widthsrev.cfg', 'RowsTogether')
    ctx.expect_refuted('refute-notsquared', 'MC_Observation', 'MC_Observation_ref_notsquared.cfg', 'RowsTogether')
    # slips that live on ONE route to the source (element type of the array; the second HDF5 loader): the routes are a dimension
    ctx.expect_refuted('refute-edgesint', 'MC_Observation', 'MC_Observation_ref_edgesint.cfg', 'RoutesAgree', workers=2)
    ctx.expect_refuted('refute-hdf5wlgrid', 'MC_Observation', 'MC_Observation_ref_hdf5wlgrid.cfg', 'RoutesAgree', workers=2)
    # last sentence: model binned to the observation = overlap-weighted mean over each element's own bin
    ctx.check_spec('obsbin-4col', 'MC_ObsBin', 'MC_ObsBin_4col_%s.cfg' % t, workers=8 if q else 16)
    ctx.expect_refuted('refute-resumestart', 'MC_ObsBin', 'MC_ObsBin_ref_resumestart.cfg', 'AlgRefinesObs', workers=2)
    # coverage of the bins by the model: results written at a running counter instead of the bin's index
    ctx.expect_refuted('refute-compact', 'MC_ObsBin', 'MC_ObsBin_ref_compact.cfg', 'AlgRefinesObs', workers=2)
    if not q:
        ctx.check_spec('obsbin-4col-gap', 'MC_ObsBin', 'MC_ObsBin_4col_gap.cfg', workers=8)
        ctx.expect_refuted('refute-resumestop', 'MC_ObsBin', 'MC_ObsBin_ref_resumestop.cfg', 'AlgRefinesObs', workers=2)
    rng = random.Random(ctx.seed * 131 + 17)
    sfx = '' if q else '_thorough'
    import time as _time
    nv = nroutes = 0
    t_routes = 0.0
    allvecs = []
    for c in ('4col', '3col'):
        res = ctx.check_spec('export-' + c, 'MC_Observation', 'EX_Observation_%s%s.cfg' % (c, sfx), workers=1)
        vecs = res.tagged('VEC')
        if not vecs:
            raise Machinery('no vectors exported for ' + c)
        nv += len(vecs)
        allvecs += vecs
        run_vectors(ctx, vecs, rng, 24 if q else 40)
        routes = [r for r in res.tagged('ROUTES') if r['ncol'] == vecs[0]['ncol']]
        if not routes:
            raise Machinery('no route table exported for ' + c)
        _t0 = _time.time()
        nroutes += run_routes(ctx, vecs, routes[0]['routes'], rng)
        t_routes += _time.time() - _t0
        ctx.add_sample(dict(vector=vecs[len(vecs) // 2]))
    ctx.note('%d exported vectors replayed in every row order through array / text / hdf5 sources; %d loads through the other routes '
             '(array element types int / float32 / Fortran order / read-only / nested lists, parameter-file keys, taurex_hdf5_to_observation)' % (nv, nroutes))
    # the text source over the lines of the file: number styles, comment and blank lines (spec/TextFile.tla)
    if max(r[0] for v in allvecs for r in v['rows']) > 15:
        raise Machinery('exported wavelengths exceed 15: scale 16 does not put them below one micron')
    import time as _time
    t0 = _time.time()
    tfiles = fut_text.result()
    dtext.flush(ctx)
    nt = run_text_layouts(ctx, tfiles, allvecs, rng)
    t_text = _time.time() - t0
    ctx.note('%d text files (every arrangement of 2%s data rows x 6 number styles with at most one comment / blank line + TLC-simulated files of 2-4 rows) '
             'loaded through ObservedSpectrum, wavelengths below one micron' % (nt, '' if q else '-3'))
    res = ctx.check_spec('export-model', 'MC_ObsBin', 'EX_ObsBin%s.cfg' % sfx, workers=8)
    import json as _json
    vecs = sorted(res.tagged('VEC'), key=lambda v: _json.dumps(v, sort_keys=True))   # several workers: canonical order
    v4 = [v for v in vecs if v['ncol'] == 4]
    if not v4 or len(v4) == len(vecs):
        raise Machinery('no 3- or no 4-column model vectors exported')
    # every geometry class of the bins must be exercised
    missing = [g for g in GEO if not any(v['geoA'][g] for v in v4)]
    if missing or not any(v['geoA']['lownonasc'] and v['geoA']['upnonasc'] for v in v4):
        raise Machinery('exported observations lack bin geometry classes %r' % (missing,))
    nm = len(vecs)
    run_vectors(ctx, vecs, rng, 24 if q else 40, one_file_source=True)
    ctx.add_sample(dict(vector={k: v4[len(v4) // 2][k] for k in ('rows', 'ncol', 'nat', 'f', 'modA', 'geoA')}))
    ctx.note('%d exported (rows, native model, exact binned model) vectors: narrow channels and broad bands, every row order' % nm)
    res = ctx.check_spec('export-cover', 'MC_ObsBin', 'EX_ObsBin_cover%s.cfg' % sfx, workers=2 if q else 8)
    cvecs = sorted(res.tagged('VEC'), key=lambda v: repr((v['rows'], v['cut'], v['nat'])))
    if not cvecs:
        raise Machinery('no coverage vectors exported')
    ncov = run_cover(ctx, cvecs, rng)
    ctx.add_sample(dict(vector={k: cvecs[len(cvecs) // 2][k] for k in ('rows', 'ncol', 'cut', 'nat', 'f', 'modA', 'covA')}))
    ctx.note('%d exported (rows, native model that does not reach every bin, exact binned model) vectors: %d bindown / bin_model calls on the observation\'s binner' % (len(cvecs), ncov))
    run_traces(ctx, 150 if q else 1500)
    t0 = _time.time()
    run_binner_histories(ctx)
    t1 = _time.time()
    generated = fut_hold.result()
    dhold.flush(ctx)
    run_obs_holders(ctx, generated=generated)
    ctx.note('wall: text files %.1f s, binner histories %.1f s, observation holders %.1f s, other routes %.1f s' % (t_text, t1 - t0, _time.time() - t1, t_routes))


def replay(ctx, violations):
    hist = [v['vector'] for v in violations if v['vector'] and v['vector'].get('binner_history') and v['vector'].get('ops')]
    if hist:
        run_binner_histories(ctx, only=hist)
    held = [v['vector'] for v in violations if v['vector'] and v['vector'].get('obs_holder') and v['vector'].get('acts')]
    if held:
        run_obs_holders(ctx, only=held)
    with tempfile.TemporaryDirectory(prefix='c17_') as tmpdir:
        for v in violations:
            vec = v['vector']
            if not vec or vec.get('binner_history') or vec.get('obs_holder'):
                continue
            if vec.get('trace'):
                nv = vec.get('native')
                ev = make_event(vec['rows'], vec['ncol'], vec['source'], tmpdir, tuple(nv) if nv else None)
                ev['id'] = 0
                reading = ev.pop('reading')
                ok, bad, _ = validate_trace('Trace_Observation', 'Trace_Observation.cfg', [ev])
                cls = '%s:%dcol:trace' % (vec['source'], vec['ncol'])
                ctx.verdict('trace_load', not bad, cls=cls, detail='replayed load', vector=vec)
                ctx.verdict('trace_widths_edges_reading', reading != 'none', cls=cls, detail='reading %s' % reading, vector=vec)
            else:
                n = len(vec['rows'])
                if vec.get('cover'):
                    judge_cover(ctx, vec, vec['perm'], vec['source'], vec['scale'], tmpdir, vec['cover'])
                    continue
                if vec.get('layout'):
                    judge_vector(ctx, vec, vec['perm'], vec['source'], vec['scale'], tmpdir, None, layout=vec['layout'], lcls=vec.get('lcls'))
                    continue
                ref = judge_vector(ctx, vec, list(range(n)), vec['source'], vec['scale'], tmpdir, None)
                judge_vector(ctx, vec, vec['perm'], vec['source'], vec['scale'], tmpdir, ref)
