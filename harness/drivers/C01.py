"""C01 -- transmission spectrum equals the documented transit-depth integral.

Spec: spec/Transmission.tla (ChordSq, TauLayer with the licensed early exit, Depth),
      spec/MC_Transmission.tla (families geo / acc / abs: exhaustive invariants + vector export),
      spec/Trace_Transmission.tla (early-exit protocol on real runs).
Binding A: TLC vectors with exact results replayed into the real geometry methods, the real
           path_integral (numba kernels, early exit) and the real compute_absorption.
Oracle calibration: the harness's evaluator of the documented formula is first required to agree
           exactly (Fractions) with TLC on every exported vector; only then is it used, with
           sqrt/exp, on real-valued atmospheres.
Binding B: random whole-model runs (model()): depth and transmittance against the calibrated
           evaluator, the consequence clauses of the statement, and the early-exit protocol of
           every layer validated by TLC (+ canary).
Round 4:   spec/MC_TransK.tla -- the correlated-k opacity family (opacity_method = ktables) with magnitudes up
           to underflow at every quadrature point (mutants "guard", "renorm" refuted by TLC); vectors bound to
           the real AbsorptionContribution in k-table mode; the same family added to the whole-model runs
           (depth, bounds, early exit, monotone under scaling).
           spec/MC_TransRoutes.tla -- the three public entry points x grid sizes on ONE long-lived model
           (mutants "stale-size", "accumulate", "keep-single" refuted by TLC); every exported history is
           replayed and every returned entry compared with the documented integral of its own absorbers.
Round 5:   spec/MC_TransAbund.tla -- the MAGNITUDE of the mixing ratio (decades 1e-20 .. 1, uniform or in some layers
           only) with the cross-section scaled inversely, so that the optical depth is of order one at every
           magnitude (variant "floor" refuted by TLC); vectors bound to the real AbsorptionContribution, the
           exported classes realised on whole-model runs.
           spec/MC_TransRoutes.tla -- how a boolean option is SPELT (new_path_method, cutoff_grid: True / numpy.bool_ /
           1 / 1.0 / non-empty string and their falsy counterparts; variant "identity" refuted by TLC); every
           exported single call replayed, entries AND model.path_length compared with the geometry asked for.
"""
import json
import math
import random
import re
from fractions import Fraction

import numpy as np

from ..core import Machinery, frac, close, validate_trace
from ..fixtures import LayerOpacity, reset_caches
from ..fx_model import (LN2, TableContribution, FixtureCIA, make_transmission, chord_sq, chord_table,
                        tau_layers, depth_of)
from ..fx_c01k import (KMODE, KD, LayerKTable, GridTableContribution, quadrature, kd_cell, pow2_bounds,
                       tau_layers_x)

U = 1.0e6          # metres per spec length unit in the vector bindings
CUT_SPEC = 14      # spec: exit when min tau >= 15 (integers, ln 2 units)  <=>  > 14
KCAP = 8           # spec/Transmission.tla KCap: 2^-t is exported exactly up to t = KCap, bounded beyond
GASES = ['H2O', 'CH4']
WN = np.array([1000.0, 2000.0, 3000.0, 4000.0, 5000.0])
# the spellings of a boolean option (spec/MC_TransRoutes.tla Spellings)
SPELL = {'True': True, 'False': False, 'np.True_': np.bool_(True), 'np.False_': np.bool_(False), '1': 1, '0': 0,
         '1.0': 1.0, '0.0': 0.0, 'nonempty': 'new', 'empty': ''}
AB_ORD = 4         # spec/MC_TransAbund.tla AbOrd
AB_MANT = 0.5      # Mant / 10


# ----------------------------------------------------------------------------
# oracle calibration against TLC's exact results
# ----------------------------------------------------------------------------

def calibrate(vecs):
    n = 0
    for v in vecs:
        fam, inp, out = v['fam'], v['inp'], v['out']
        if fam == 'geo':
            r = [Fraction(x) for x in inp['r']]
            nl = len(r) - 1
            for j in range(nl):
                for i in range(nl - j):
                    if chord_sq(r, inp['method'], j, j + i) != frac(out[j][i]):
                        raise Machinery('oracle calibration failed (geo) on %r' % (inp,))
        elif fam == 'acc':
            a, L = inp['a'], inp['L']
            nl = len(L)
            Lr = [L[j][:nl - j] for j in range(nl)]
            tau, full, _ = tau_layers(a, None, Lr, CUT_SPEC, zero=0)
            if tau != out['tau'] or full != out['full']:
                raise Machinery('oracle calibration failed (acc) on %r: %r vs %r' % (inp, tau, out['tau']))
            tau, full, _ = tau_layers_x(a, Lr, CUT_SPEC, zero=0)      # the evaluator used when a k-distributed absorber is present
            if tau != out['tau'] or full != out['full']:
                raise Machinery('oracle calibration failed (acc, extended evaluator) on %r' % (inp,))
        elif fam == 'kd':
            kk, L = inp['k'], inp['L']
            nl = len(L)
            Lr = [L[j][:nl - j] for j in range(nl)]
            wts = [Fraction(x, inp['wd']) for x in inp['wts']]
            lo, hi = pow2_bounds(KCAP)
            for j in range(nl):
                for w in range(len(kk[0][0])):
                    if kd_cell(kk, wts, Lr, j, w, lo) != frac(out['lo'][j][w]) or kd_cell(kk, wts, Lr, j, w, hi) != frac(out['hi'][j][w]):
                        raise Machinery('oracle calibration failed (kd) on %r layer %d wn %d' % (inp, j, w))
        elif fam == 'ab':
            nl = len(inp['x'])
            Lr = [[2 * (j + 1) + 3 * (i + 1) for i in range(nl - j)] for j in range(nl)]      # MC_TransAbund LTab
            tau, full, _ = tau_layers([[[x] for x in inp['x']]], None, Lr, 10 ** 9, zero=0)
            if [t[0] for t in full] != out:
                raise Machinery('oracle calibration failed (ab) on %r: %r vs %r' % (inp, full, out))
        elif fam == 'abs':
            r = [Fraction(x) for x in inp['r']]
            T = [[Fraction(1, 2 ** t)] for t in inp['t']]
            if depth_of(r, Fraction(inp['rs']), T)[0] != frac(out):
                raise Machinery('oracle calibration failed (abs) on %r' % (inp,))
        n += 1
    return n


# ----------------------------------------------------------------------------
# binding A
# ----------------------------------------------------------------------------

_models = {}


def bare_model(nl, new_method=False):
    key = (nl, new_method)
    if key not in _models:
        m = make_transmission(nl, new_method=new_method)
        m.build()
        _models[key] = m
    return _models[key]


def inject_geometry(m, r_units):
    r = np.asarray(r_units, dtype=float) * U
    m.planet.set_planet_radius(float(r[0]), unit='m')
    z = r - r[0]
    m.altitude_profile = z[:-1].copy()
    m.altitude_boundaries = z.copy()
    m.deltaz = np.diff(r)


def vec_geo(ctx, v):
    inp, out = v['inp'], v['out']
    nl = len(inp['r']) - 1
    m = bare_model(nl, inp['method'] == 'new')
    inject_geometry(m, inp['r'])
    pl = m.compute_path_length() if inp['method'] == 'new' else m.compute_path_length_old(m.deltaz)
    ok_all, detail = True, ''
    if len(pl) != nl:
        ok_all, detail = False, 'number of rays %d != %d' % (len(pl), nl)
    for j in range(nl if ok_all else 0):
        seg = np.asarray(pl[j], dtype=float)
        if len(seg) != nl - j:
            ok_all, detail = False, 'ray %d has %d segments, expected %d' % (j, len(seg), nl - j)
            break
        cum = np.cumsum(seg) / 2.0 / U
        for i in range(nl - j):
            want = float(frac(out[j][i]))
            if not close(cum[i] ** 2, want, rel=1e-9):
                ok_all, detail = False, 'ray %d shell %d: half-chord^2 %r, spec %r' % (j, j + i, cum[i] ** 2, want)
                break
        if not ok_all:
            break
    ctx.verdict('geometry_' + inp['method'], ok_all, cls='chords:' + inp['method'], detail=detail, vector=v)


def vec_acc(ctx, v, variant):
    inp, out = v['inp'], v['out']
    a, L = inp['a'], inp['L']
    nl, nc, nw = len(L), len(a), len(a[0][0])
    m = bare_model(nl)
    inject_geometry(m, [50 + 2 * i for i in range(nl + 1)])
    dens = m.densityProfile
    wn = WN[:nw] if nw <= len(WN) else 1000.0 + 37.0 * np.arange(nw)      # round 6: grids of 8 .. 64 points (MC_TransHole)
    ltab = [np.array(L[j][:nl - j], dtype=float) * U for j in range(nl)]
    m.compute_path_length_old = lambda dz, _l=ltab: _l        # inject the chord table (instance only)
    contribs = []
    for c in range(nc):
        sig = np.array(a[c], dtype=float) * LN2 / U / dens[:, None]
        contribs.append(TableContribution('tab%d' % c, sig))
    saved = m.contribution_list
    try:
        m.contribution_list = contribs
        for c in contribs:
            c.prepare(m, wn)
        _, T = m.path_integral(wn, False)
    finally:
        m.contribution_list = saved
        del m.compute_path_length_old
    ok, detail = True, ''
    for j in range(nl):
        for w in range(nw):
            want = out['tau'][j][w]
            got = -math.log2(T[j, w]) if T[j, w] > 0 else float('inf')
            if not (abs(got - want) <= 1e-9 * max(1.0, want)):
                ok, detail = False, 'layer %d wn %d: tau/ln2 = %r, spec %r (no-exit integral %r)' % (
                    j, w, got, want, out['full'][j][w])
                break
        if not ok:
            break
    broke = any(out['tau'][j] != out['full'][j] for j in range(nl))
    ctx.verdict('accumulation' + ('_early_exit' if broke else ''), ok, cls='kernel:' + variant, detail=detail, vector=v)


def vec_abs(ctx, v):
    inp, out = v['inp'], v['out']
    nl = len(inp['t'])
    m = bare_model(nl)
    inject_geometry(m, inp['r'])
    rs = inp['rs'] * U
    saved = m.star._radius
    m.star._radius = rs
    try:
        tau = np.array(inp['t'], dtype=float)[:, None] * LN2
        depth, T = m.compute_absorption(tau, m.deltaz)
    finally:
        m.star._radius = saved
    want = float(frac(out))
    ctx.verdict('depth_integral', close(float(depth[0]), want, rel=1e-12), cls='absorb',
                detail='depth %r, spec %r' % (float(depth[0]), want), vector=v)


_kmodels = {}


def k_model(nl):
    """A real TransmissionModel built in k-table mode whose only absorber is H2O served by a LayerKTable
    reading the coefficients of the current vector from `hold`."""
    if nl not in _kmodels:
        from taurex.data.profiles.chemistry import TaurexChemistry, ConstantGas
        from taurex.contributions import AbsorptionContribution
        KMODE.enable(GASES, WN)
        chem = TaurexChemistry(fill_gases=['H2', 'He'], ratio=0.17)
        chem.addGas(ConstantGas('H2O', mix_ratio=1e-3))
        m = make_transmission(nl, chemistry=chem)
        m.add_contribution(AbsorptionContribution())
        m.build()
        _kmodels[nl] = (m, dict(k=None))
    return _kmodels[nl]


def vec_kd(ctx, v):
    """spec vector of the correlated-k family -> the real AbsorptionContribution (prepare + numba kernel) in
    k-table mode inside the real path_integral; the layer transmittances must lie within the exact bounds."""
    from taurex.cache.ktablecache import KTableCache
    inp, out = v['inp'], v['out']
    kk, L = inp['k'], inp['L']
    ng, nl, nw = len(kk), len(L), len(kk[0][0])
    KMODE.enable(GASES, WN)
    m, hold = k_model(nl)
    inject_geometry(m, [50 + 2 * i for i in range(nl + 1)])
    dens = np.asarray(m.densityProfile, dtype=float)
    press = np.asarray(m.pressureProfile, dtype=float)
    mix = np.asarray(m.chemistry.get_gas_mix_profile('H2O'), dtype=float)
    tab = np.zeros((nl, len(WN), ng))
    for g in range(ng):
        tab[:, :nw, g] = np.array(kk[g], dtype=float) * LN2 / U / (dens * mix)[:, None]
    wts = [x / float(inp['wd']) for x in inp['wts']]
    KTableCache().clear_cache()
    KTableCache().add_opacity(LayerKTable('H2O', WN, lambda T, P: tab[int(np.argmin(np.abs(np.log(press) - math.log(P))))], wts))
    wn = WN[:nw]
    ltab = [np.array(L[j][:nl - j], dtype=float) * U for j in range(nl)]
    m.compute_path_length_old = lambda dz, _l=ltab: _l
    ok, detail = True, ''
    try:
        for c in m.contribution_list:
            c.prepare(m, wn)
        _, T = m.path_integral(wn, False)
        T = np.asarray(T, dtype=float)
        if T.shape != (nl, nw):
            ok, detail = False, 'transmittance array of shape %r' % (T.shape,)
        for j in range(nl if ok else 0):
            for w in range(nw):
                lo, hi = float(frac(out['lo'][j][w])), float(frac(out['hi'][j][w]))
                if not (lo * (1 - 1e-12) <= T[j, w] <= hi * (1 + 1e-12)):
                    ok, detail = False, 'layer %d wn %d: transmittance %r outside the documented [%r, %r]' % (j, w, float(T[j, w]), lo, hi)
                    break
            if not ok:
                break
    except Machinery:
        raise
    except Exception as e:   # noqa
        ok, detail = False, '%s: %s' % (type(e).__name__, e)
    finally:
        del m.compute_path_length_old
    sat = any(frac(out['lo'][j][w]) == 0 for j in range(nl) for w in range(nw))
    ctx.verdict('ktable_transmittance', ok, cls='kernel:ktable:%s' % ('saturated' if sat else 'exact'), detail=detail, vector=v)


_abmodels = {}


def ab_mix(e):
    return AB_MANT * 10.0 ** (-e)


def vec_ab(ctx, v):
    """spec vector of the abundance-magnitude family -> the real AbsorptionContribution (prepare + numba kernel)
    inside the real path_integral: layer k holds H2O at the mixing ratio of decade e[k] and the fixture serves a
    cross-section such that cross-section x mixing ratio x density is the order-one x[k] of the vector."""
    from taurex.cache import OpacityCache
    inp, out = v['inp'], v['out']
    nl = len(inp['x'])
    if nl not in _abmodels:
        from taurex.data.profiles.chemistry import TaurexChemistry
        from taurex.data.profiles.chemistry.gas.arraygas import ArrayGas
        from taurex.contributions import AbsorptionContribution
        chem = TaurexChemistry(fill_gases=['H2', 'He'], ratio=0.17)
        gas = ArrayGas('H2O', mix_ratio_array=[1e-4] * nl)
        chem.addGas(gas)
        reset_caches()
        OpacityCache().add_opacity(LayerOpacity('H2O', WN, lambda T, P: np.zeros(len(WN))))
        m = make_transmission(nl, chemistry=chem)
        m.add_contribution(AbsorptionContribution())
        m.build()
        _abmodels[nl] = (m, gas)
    m, gas = _abmodels[nl]
    mixin = np.array([ab_mix(e) for e in inp['e']])
    gas._mix_ratio_array = mixin.copy()
    ok, detail = True, ''
    ltab = [np.array([2 * (j + 1) + 3 * (i + 1) for i in range(nl - j)], dtype=float) * U for j in range(nl)]
    m.compute_path_length_old = lambda dz, _l=ltab: _l
    try:
        m.initialize_profiles()
        inject_geometry(m, [50 + 2 * i for i in range(nl + 1)])
        dens = np.asarray(m.densityProfile, dtype=float)
        logp = np.log(np.asarray(m.pressureProfile, dtype=float))
        mix = np.asarray(m.chemistry.get_gas_mix_profile('H2O'), dtype=float)
        if mix.shape != (nl,) or not np.allclose(mix, mixin, rtol=1e-12, atol=0):
            raise Machinery('fixture: the chemistry did not take the mixing ratios %r (has %r)' % (mixin.tolist(), mix.tolist()))
        sig = np.array(inp['x'], dtype=float) * LN2 / U / (dens * mix)
        reset_caches()
        OpacityCache().add_opacity(LayerOpacity('H2O', WN, lambda T, P: np.full(len(WN), sig[int(np.argmin(np.abs(logp - math.log(P))))])))
        wn = WN[:2]
        for c in m.contribution_list:
            c.prepare(m, wn)
        _, T = m.path_integral(wn, False)
        T = np.asarray(T, dtype=float)
        if T.shape != (nl, 2):
            ok, detail = False, 'transmittance array of shape %r' % (T.shape,)
        for j in range(nl if ok else 0):
            for w in range(2):
                got = -math.log2(T[j, w]) if T[j, w] > 0 else float('inf')
                # x (sigma*mix*dens) is rebuilt from three roundings, the kernel adds nl products: a few ulp
                if not abs(got - out[j]) <= 1e-12 * max(1.0, out[j]) + 1e-13:
                    ok, detail = False, 'layer %d wn %d: tau/ln2 = %r, spec %r (mixing ratios %r)' % (j, w, got, out[j], mixin.tolist())
                    break
            if not ok:
                break
    except Machinery:
        raise
    except Exception as e:   # noqa
        ok, detail = False, '%s: %s' % (type(e).__name__, e)
    finally:
        del m.compute_path_length_old
    es = sorted(set(inp['e']) - {AB_ORD})
    ctx.verdict('abundance_magnitude', ok, cls='kernel:abund:1e-%d:%s' % (es[0] if es else AB_ORD, 'uniform' if len(set(inp['e'])) == 1 else 'layers'),
                detail=detail, vector=v)


# ----------------------------------------------------------------------------
# binding B: whole-model runs
# ----------------------------------------------------------------------------

def run_abund(ctx, classes):
    """every exported abundance class (exponent pattern over the blocks of layers) on a random whole-model scenario:
    one gas takes the pattern (cross-section scaled inversely), everything else is drawn as usual."""
    rng = random.Random(ctx.seed * 32452843 + 11)
    events, evmeta = [], []
    n = 0
    for pat in classes:
        for _ in range(20):
            nl = rng.choice([2, 3, 4, 6, 9, 12])

            def extra(r, sp, _nl=nl):
                g = r.randrange(sp['ngas'])
                mag = list(sp['mag'])
                mag[g] = r.choice([-29, -27, -25, -23])        # with the ordinary abundance: optical depths around one somewhere
                return dict(mag=mag, abexp=dict(gas=g, e=[pat[min(len(pat) - 1, (k * len(pat)) // _nl)] for k in range(_nl)]))
            m, spec = build_random_model(rng, nl, extra=extra)
            if not unbound(m):
                break
        else:
            raise Machinery('no bound atmosphere for abundance class %r' % (pat,))
        spec['_cls'] = ':abund'
        e2e_one(ctx, m, spec, events, evmeta, rng, paired=False)
        n += 1
    ctx.note('abundance magnitude: %d exported classes realised on whole-model runs' % n)
    return n


def k_extra(rng, spec):
    """the correlated-k dimension of a whole-model scenario: number / kind of quadrature points, which gas
    has coefficients that differ across the quadrature points and over how many decades."""
    return dict(kt=True, ng=rng.choice([1, 2, 3, 4, 8]), quad=rng.choice(['gauss', 'dyadic']),
                kgas=rng.randrange(spec['ngas']), gspread=rng.choice([0.0, 0.5, 2.0, 4.0]))


def build_random_model(rng, nl, scale=1.0, spec=None, extra=None):
    """A real TransmissionModel with exact per-layer opacities.  `spec` replays a stored scenario; `extra`
    overrides / adds keys of a freshly drawn one (e.g. the correlated-k keys of k_extra)."""
    from taurex.cache import OpacityCache, CIACache
    from taurex.cache.ktablecache import KTableCache
    from taurex.data.profiles.chemistry import TaurexChemistry, ConstantGas
    from taurex.data.profiles.temperature import Isothermal
    from taurex.data.profiles.temperature.temparray import TemperatureArray
    from taurex.data import Planet
    from taurex.data.stellar import BlackbodyStar
    from taurex.contributions import AbsorptionContribution, RayleighContribution, CIAContribution
    if spec is None:
        spec = dict(
            nl=nl, new=rng.random() < 0.5,
            mass=rng.choice([0.05, 0.3, 1.0, 3.0]), radius=rng.choice([0.2, 0.8, 1.0, 1.7]),
            rstar=rng.choice([0.3, 1.0, 1.5]),
            pmax=rng.choice([1e4, 1e5, 1e6]), pspan=rng.choice([3, 5, 8, 10]),
            iso=rng.random() < 0.4, temps=[rng.choice([300.0, 800.0, 1500.0, 2500.0]) for _ in range(nl)],
            ngas=rng.choice([1, 2]), mix=[10 ** rng.uniform(-8, -2), 10 ** rng.uniform(-8, -2)],
            # per gas: log10 magnitude of the cross-section (m^2); None = exactly zero (transparent)
            mag=[rng.choice([None, -34, -30, -27, -25, -23, -21, -19]) for _ in range(2)],
            slope=[rng.uniform(-1, 1) for _ in range(2)],
            shape=[[rng.uniform(0.2, 3.0) for _ in range(len(WN))] for _ in range(2)],
            rayleigh=rng.random() < 0.4, cia=rng.random() < 0.4, ciamag=rng.choice([-58, -52, -48]),
            table=rng.random() < 0.4, tabmag=rng.choice([None, -30, -26, -22]),
            # a second instance of the same contribution class (same name), which add_contribution accepts
            table_dup=rng.random() < 0.5, tabmag2=rng.choice([-28, -25, -23]),
        )
        if extra:
            spec.update(extra(rng, spec) if callable(extra) else extra)
        if 'flag' not in spec:
            # how the path-method option is spelt: any spelling of the drawn truth value (own stream: the draws of
            # the scenarios are unchanged by it)
            spec['flag'] = random.Random(repr(spec['mix'])).choice(sorted(k for k, v in SPELL.items() if bool(v) == spec['new']))
    kt = bool(spec.get('kt'))
    if kt:
        KMODE.enable(GASES, WN)        # opacity_method = ktables; the chemistry finds both gases on the k-table path
    else:
        KMODE.disable()
    reset_caches()
    names = GASES[:spec['ngas']]
    nl = spec['nl']
    kinfo = None
    if kt:
        xq, wq = quadrature(spec['ng'], spec['quad'])
        # coefficients rise with the quadrature abscissa (as in real k-tables) for ONE gas; the others have the
        # same coefficient at every quadrature point, so that the sum over gases needs no overlap assumption
        kinfo = dict(wts=wq, gfac={g: ([10.0 ** (spec['gspread'] * (x - 0.5)) for x in xq] if i == spec['kgas'] % spec['ngas']
                                        else [1.0] * len(xq)) for i, g in enumerate(names)})

    # round 5: the magnitude of the mixing ratio.  abexp = dict(gas, e): gas `gas` has, in layer k, the mixing ratio
    # AB_MANT x 10^-e[k] (e[k] = AB_ORD: the ordinary one, spec['mix']) and a cross-section larger by the same factor
    ab = spec.get('abexp')
    abmix, absc, hold = None, None, {}
    if ab:
        base = spec['mix'][ab['gas']]
        abmix = [base if e == AB_ORD else AB_MANT * 10.0 ** (-e) for e in ab['e']]
        absc = [base / x for x in abmix]

    def mk(idx):
        def f(T, P):
            if spec['mag'][idx] is None:
                return np.zeros(len(WN))
            # smooth dependence on pressure so every layer has its own exact value
            v = (10.0 ** spec['mag'][idx]) * scale * (P / 1e3) ** spec['slope'][idx] * np.array(spec['shape'][idx]) * 1e4
            if ab and idx == ab['gas']:
                v = v * absc[int(np.argmin(np.abs(hold['logP'] - math.log(P))))]
            return v
        return f
    xs = {}
    cia_rows = {}
    for i, g in enumerate(names):
        xs[g] = mk(i)
        if kt:
            fac = np.array(kinfo['gfac'][g])
            KTableCache().add_opacity(LayerKTable(g, WN, (lambda T, P, _f=xs[g], _q=fac: _f(T, P)[:, None] * _q[None, :]), kinfo['wts']))
        else:
            OpacityCache().add_opacity(LayerOpacity(g, WN, xs[g]))
    if spec['cia']:
        tab = np.array([[10.0 ** spec['ciamag'] * (1 + 0.1 * w) for w in range(len(WN))]])
        CIACache().add_cia(FixtureCIA('H2-He', WN, [1000.0], tab))
        cia_rows['H2-He'] = tab[0].copy()
    chem = TaurexChemistry(fill_gases=['H2', 'He'], ratio=0.17)
    for i, g in enumerate(names):
        if ab and i == ab['gas']:
            from taurex.data.profiles.chemistry.gas.arraygas import ArrayGas
            chem.addGas(ArrayGas(g, mix_ratio_array=list(abmix)))
        else:
            chem.addGas(ConstantGas(g, mix_ratio=spec['mix'][i]))
    temp = Isothermal(T=spec['temps'][0]) if spec['iso'] else TemperatureArray(tp_array=spec['temps'])
    m = make_transmission(nl, chemistry=chem, temperature=temp,
                          planet=Planet(planet_mass=spec['mass'], planet_radius=spec['radius']),
                          star=BlackbodyStar(temperature=5000, radius=spec['rstar']),
                          pmin=spec['pmax'] / 10 ** spec['pspan'], pmax=spec['pmax'],
                          new_method=SPELL[spec['flag']] if 'flag' in spec else spec['new'])
    m.add_contribution(AbsorptionContribution())
    if spec['rayleigh']:
        m.add_contribution(RayleighContribution())
    if spec['cia']:
        m.add_contribution(CIAContribution(cia_pairs=['H2-He']))
    if spec['table']:
        sig = np.zeros((nl, len(WN)))
        if spec['tabmag'] is not None:
            sig[:] = 10.0 ** spec['tabmag'] * scale * np.linspace(1.0, 2.0, len(WN))[None, :]
            sig *= np.linspace(2.0, 0.5, nl)[:, None]
        m.add_contribution(GridTableContribution('Table', WN, sig))
        if spec.get('table_dup'):
            sig2 = 10.0 ** spec['tabmag2'] * scale * np.linspace(2.0, 1.0, len(WN))[None, :] * np.linspace(0.5, 1.5, nl)[:, None]
            m.add_contribution(GridTableContribution('Table', WN, sig2))
    added = list(m.contribution_list)       # what was REGISTERED (all of the same evaluation order: build() keeps it)
    m.build()
    hold['logP'] = np.log(np.asarray(m.pressureProfile, dtype=float))
    m._verif_xs = xs
    m._verif_added = added
    m._verif_k = kinfo
    m._verif_cia = cia_rows
    return m, spec


def component_tables(m, cols):
    """The absorbers the model was GIVEN, per registered contribution and per component, on the native
    columns `cols`: [(contribution, [(component name, a[k][w] | KD), ...]), ...] with a = cross-section x
    number density (x density again for collision pairs).  Inputs are the fixture cross-sections, the mixing
    ratios and the density profile; nothing is read from the contributions' own buffers except for classes
    the harness did not supply."""
    from taurex.contributions import AbsorptionContribution, RayleighContribution, CIAContribution
    from taurex.util.scattering import rayleigh_sigma_from_name
    cols = list(cols)
    dens = np.asarray(m.densityProfile, dtype=float)
    Tl = np.asarray(m.temperatureProfile, dtype=float)
    Pl = np.asarray(m.pressureProfile, dtype=float)
    wn = WN[cols]
    registered = getattr(m, '_verif_added', None) or list(m.contribution_list)
    kinfo = getattr(m, '_verif_k', None)
    out = []
    for c in registered:
        comps = []
        if isinstance(c, AbsorptionContribution) and hasattr(m, '_verif_xs'):
            # molecular absorption: the inputs are the fixture cross-sections and the mixing ratios,
            # NOT the contribution's own buffer (so a wrong sum over species is seen here too)
            for g, f in m._verif_xs.items():
                mix = np.asarray(m.chemistry.get_gas_mix_profile(g), dtype=float)
                sig = np.array([np.asarray(f(Tl[k], Pl[k]))[cols] for k in range(len(Pl))]) * mix[:, None] * dens[:, None]
                if kinfo:
                    comps.append((g, KD([(sig * q).tolist() for q in kinfo['gfac'][g]], kinfo['wts'])))
                else:
                    comps.append((g, sig.tolist()))
        elif isinstance(c, RayleighContribution):
            for g in list(m.chemistry.activeGases) + list(m.chemistry.inactiveGases):
                mix = np.asarray(m.chemistry.get_gas_mix_profile(g), dtype=float)
                sg = rayleigh_sigma_from_name(g, wn)        # the cross-section of that scatterer (an input of C01)
                if sg is None or mix.max() == 0.0:
                    continue
                comps.append((g, (np.asarray(sg, dtype=float)[None, :] * mix[:, None] * dens[:, None]).tolist()))
        elif isinstance(c, CIAContribution) and getattr(m, '_verif_cia', None):
            for pair, row in m._verif_cia.items():
                one, two = pair.split('-')
                fac = np.asarray(m.chemistry.get_gas_mix_profile(one), dtype=float) * np.asarray(m.chemistry.get_gas_mix_profile(two), dtype=float)
                comps.append((pair, (row[cols][None, :] * fac[:, None] * (dens ** 2)[:, None]).tolist()))
        elif hasattr(c, '_sig'):        # fixture table: the given numbers, whether or not the model prepared it
            comps.append((c.name, (np.asarray(c._sig, dtype=float)[:, cols] * dens[:, None]).tolist()))
        else:
            sig = np.asarray(c.sigma_xsec, dtype=float)
            comps.append((c.name, (sig * ((dens ** 2) if isinstance(c, CIAContribution) else dens)[:, None]).tolist()))
        out.append((c, comps))
    return out


def combine(comps, nl, nw):
    """all components of one contribution together"""
    if comps and isinstance(comps[0][1], KD):
        ng = len(comps[0][1].wts)
        Ag = [sum(np.array(a.Ag[q]) for _, a in comps).tolist() for q in range(ng)]
        return KD(Ag, comps[0][1].wts)
    tot = np.zeros((nl, nw))
    for _, a in comps:
        tot = tot + np.array(a)
    return tot.tolist()


def evaluate_run(m, cols=None, components=False):
    """Observed inputs of the path integral -> the documented integral (calibrated evaluator) on the native
    columns `cols` (default: the whole native grid); with components=True also for every component alone."""
    cols = list(range(len(WN))) if cols is None else list(cols)
    r = (m.planet.fullRadius + np.asarray(m.altitude_boundaries, dtype=float)).tolist()
    nl = len(r) - 1
    tabs = component_tables(m, cols)
    registered = [c for c, _ in tabs]
    A = [combine(comps, nl, len(cols)) for _, comps in tabs]
    method = 'new' if m.new_method else 'old'
    L = chord_table(r, method)
    tau, full, pre = tau_layers_x(A, L, 10.0)
    T = [[math.exp(-t) if t < 1e300 else 0.0 for t in row] for row in tau]
    depth = depth_of(r, m.star.radius, T)
    bare = (r[0] / m.star.radius) ** 2
    opaque = depth_of(r, m.star.radius, [[0.0] * len(row) for row in tau])

    def one(a):
        ti, _, _ = tau_layers_x([a], L, 10.0)
        Ti = [[math.exp(-t) if t < 1e300 else 0.0 for t in row] for row in ti]
        return dict(tau=ti, depth=depth_of(r, m.star.radius, Ti))
    alone, parts = {}, {}
    names = [c.name for c in registered]
    for i, (c, comps) in enumerate(tabs):
        if names.count(c.name) > 1:
            continue            # same-name instances share one entry of the per-source dictionary: not judged per source
        alone[c.name] = one(A[i])
        if components:
            parts[c.name] = [(nm, one(a)) for nm, a in comps]
    # cells of a k-distributed absorber in which EVERY quadrature point underflows exp() (tau_g > 745.2)
    allunder = 0
    for a in A:
        if isinstance(a, KD):
            for j in range(nl):
                for w in range(len(cols)):
                    if min(sum(a.Ag[q][j + i][w] * L[j][i] for i in range(nl - j)) for q in range(len(a.wts))) > 746.0:
                        allunder += 1
    return dict(r=r, L=L, tau=tau, full=full, pre=pre, T=T, depth=depth, bare=bare, opaque=opaque, alone=alone,
                parts=parts, allunder=allunder)


def unbound(m):
    zb = np.asarray(m.altitude_boundaries, dtype=float)
    return (not np.all(np.isfinite(zb))) or zb.max() > 3.0 * m.planet.fullRadius


def run_e2e(ctx, nruns, max_layers, nk=0):
    rng = random.Random(ctx.seed * 104729 + 1)
    events, evmeta = [], []
    skipped = 0
    # the correlated-k opacity family (its own random stream: the cross-section runs below are unchanged by it)
    krng = random.Random(ctx.seed * 15485863 + 7)
    allunder, nkrun = 0, 0
    for it in range(nk):
        nl = krng.choice([2, 3, 5, 8, 13, max_layers])

        def extra(r, sp, _it=it):
            d = k_extra(r, sp)
            if _it % 2 == 0:
                d.update(rayleigh=False, cia=False)     # every source scalable by the harness: monotone clause evaluated
            if _it % 4 == 1:
                d.update(table=False)                   # the k-distributed absorber alone
            return d
        m, spec = build_random_model(krng, nl, extra=extra)
        if unbound(m):
            skipped += 1
            continue
        ev = e2e_one(ctx, m, spec, events, evmeta, krng)
        nkrun += 1
        allunder += ev['allunder'] if ev else 0
    KMODE.disable()
    if nk:
        ctx.note('correlated-k whole-model runs: %d, cells underflowing at every quadrature point: %d' % (nkrun, allunder))
        if allunder == 0 and not ctx.has_violations():
            raise Machinery('vacuous: no k-table run had a cell that underflows at every quadrature point')
    for it in range(nruns):
        nl = rng.choice([2, 3, 4, 5, 7, 10, 13, 20, max_layers]) if it % 3 else rng.randint(2, max_layers)
        m, spec = build_random_model(rng, nl)
        if unbound(m):
            # hot, low-gravity planet over many pressure decades: the hydrostatic altitude runs away
            # (unbound atmosphere, z -> inf).  The documented integral is not defined there: skipped.
            skipped += 1
            continue
        e2e_one(ctx, m, spec, events, evmeta, rng)
    if events:
        accepted, bad, res = validate_trace('Trace_Transmission', 'Trace_Transmission.cfg', events)
        ctx.add_tlc('trace-early-exit', res, counts=False)
        if res.postcondition_false and not bad:
            raise Machinery('early-exit trace not fully consumed:\n' + res.out[-1200:])
        badids = {b['id'] for b in bad}
        ctx.traces += len(events)
        for e, meta in zip(events, evmeta):
            ctx.verdict('early_exit_protocol', e['id'] not in badids, cls='exit:' + meta['cls'],
                        detail='layer %d: code applied %r contributions; prefix minima %r' % (meta['layer'], e['appl'], e['m']),
                        vector=dict(e2e=meta['spec'], layer=meta['layer']))
        ctx.add_sample(dict(early_exit_event=events[len(events) // 2]))
        nexit = sum(1 for e in events if e['appl'] and max(e['appl']) < len(e['m']) - 1)
        ntransp = sum(1 for e in events if e['m'][-1] == 0)
        ctx.note('%d random atmospheres skipped (unbound: altitude not finite or > 3 planet radii)' % skipped)
        ctx.note('whole-model runs: %d layer events, %d with the early exit taken, %d fully transparent' % (len(events), nexit, ntransp))
        if nexit == 0 and not ctx.has_violations():
            raise Machinery('vacuous: no whole-model run exercised the early exit')
        good = [e for e in events if e['id'] not in badids and len(e['appl']) == 1 and len(e['m']) > 2]
        if not good:
            if ctx.has_violations():
                return
            raise Machinery('no unambiguous early-exit event for the canary')
        c = dict(good[0])
        c['appl'] = [(c['appl'][0] + 1) % len(c['m'])]
        ok2, bad2, _ = validate_trace('Trace_Transmission', 'Trace_Transmission.cfg', [c])
        if ok2 or not bad2:
            raise Machinery('canary accepted: early-exit trace validation is vacuous')


def e2e_one(ctx, m, spec, events, evmeta, rng, paired=True):
    cls = '%s:%dL%s%s' % ('new' if spec['new'] else 'old', 1 if spec['nl'] < 5 else 2, ':ktable' if spec.get('kt') else '', spec.get('_cls', ''))
    vec = dict(e2e=spec)
    try:
        grid, depth, T, _ = m.model()
        depth = np.asarray(depth, dtype=float)
        T = np.asarray(T, dtype=float)
    except Machinery:
        raise
    except Exception as e:   # noqa  (an exception for an input inside the quantifier is a verdict)
        ctx.verdict('model_depth', False, cls=cls + ':raised', detail='model() raised %s: %s' % (type(e).__name__, e), vector=vec)
        return None
    if T.shape != (spec['nl'], len(WN)) or depth.shape != (len(WN),):
        ctx.verdict('model_depth', False, cls=cls + ':shape', detail='model() returned depth %r, transmittance %r for %d layers x %d wavenumbers'
                    % (depth.shape, T.shape, spec['nl'], len(WN)), vector=vec)
        return None
    ev = evaluate_run(m)
    nl, nw = T.shape
    # (1) transmittance per layer / wavenumber
    ok, detail = True, ''
    for j in range(nl):
        for w in range(nw):
            te = ev['tau'][j][w]
            to = -math.log(T[j, w]) if T[j, w] > 0 else float('inf')
            if te == float('inf') or te > 700:
                good = T[j, w] < 1e-290
            else:
                good = abs(to - te) <= 1e-9 * max(1.0, te) + 1e-12
            if not good:
                ok, detail = False, 'layer %d wn %d: tau %r, documented integral %r' % (j, w, to, te)
                break
        if not ok:
            break
    ctx.verdict('model_transmittance', ok, cls=cls, detail=detail, vector=vec)
    # (2) depth
    okd = all(close(depth[w], ev['depth'][w], rel=1e-9) for w in range(nw))
    ctx.verdict('model_depth', okd, cls=cls, detail='depth %r, documented integral %r' % (depth.tolist(), ev['depth']), vector=vec)
    # (3) consequences (no oracle needed): bounds, bare when transparent
    slack = math.exp(-10.0) * (max(ev['opaque']) - ev['bare'])
    ctx.verdict('depth_ge_bare', bool(np.all(depth >= ev['bare'] * (1 - 1e-12))), cls=cls,
                detail='depth %r < bare %r' % (depth.min(), ev['bare']), vector=vec)
    ctx.verdict('depth_le_opaque', bool(np.all(depth <= np.array(ev['opaque']) * (1 + 1e-12))), cls=cls,
                detail='depth %r > opaque %r' % (depth.max(), ev['opaque']), vector=vec)
    if all(all(x == 0.0 for x in row) for row in ev['full']):
        ctx.verdict('bare_when_transparent', bool(np.all(depth == ev['bare']) or close(depth.max(), ev['bare'], rel=1e-14)),
                    cls=cls, detail='depth %r bare %r' % (depth.tolist(), ev['bare']), vector=vec)
    # (4) early-exit protocol events for TLC
    nc = len(getattr(m, '_verif_added', None) or m.contribution_list)
    for j in range(nl):
        ms = []
        for i in range(nc + 1):
            mn = min(ev['pre'][j][i])
            ms.append(int(min(mn, 1000.0) * 1000))
        appl = []
        for i in range(nc + 1):
            good = True
            for w in range(nw):
                te = ev['pre'][j][i][w]
                to = -math.log(T[j, w]) if T[j, w] > 0 else float('inf')
                if te > 700:
                    if not T[j, w] < 1e-290:
                        good = False
                elif not abs(to - te) <= 1e-9 * max(1.0, te) + 1e-12:
                    good = False
            if good:
                appl.append(i)
        events.append(dict(id=len(events), m=ms, appl=appl))
        evmeta.append(dict(cls=cls, layer=j, spec=spec))
    # (6) every source evaluated alone on the SAME long-lived model (model_contrib): its depth is the documented integral
    # with that source only, and the full model evaluated again afterwards is unchanged
    if len(m.contribution_list) > 1:
        try:
            _, per = m.model_contrib()
            for name, ref in ev['alone'].items():
                if name not in per:
                    ctx.verdict('source_depth', False, cls=cls + ':' + name, detail='%s missing from model_contrib()' % name, vector=vec)
                    continue
                dc = np.asarray(per[name][0], dtype=float)
                oks = all(close(dc[w], ref['depth'][w], rel=1e-9) for w in range(nw))
                ctx.verdict('source_depth', oks, cls=cls + ':' + name,
                            detail='model_contrib()[%s] depth %r, documented integral with that source alone %r' % (name, dc.tolist(), ref['depth']),
                            vector=vec)
            _, depth_again, _, _ = m.model()
            ctx.verdict('model_depth', all(close(float(depth_again[w]), ev['depth'][w], rel=1e-9) for w in range(nw)), cls=cls + ':after-model_contrib',
                        detail='model() after model_contrib(): depth %r, documented integral %r' % (np.asarray(depth_again).tolist(), ev['depth']), vector=vec)
        except Machinery:
            raise
        except Exception as e:   # noqa
            ctx.verdict('source_depth', False, cls=cls + ':raised', detail='%s: %s' % (type(e).__name__, e), vector=vec)
    # (5) monotone under scaling of every cross-section (only sources the harness can scale)
    if paired and not spec['rayleigh'] and not spec['cia'] and (rng.random() < 0.6 or spec.get('kt')):
        k = rng.choice([1.5, 2.0, 10.0])
        m2, _ = build_random_model(rng, spec['nl'], scale=k, spec=spec)
        try:
            depth2 = np.asarray(m2.model()[1], dtype=float)
            okm = depth2.shape == depth.shape and bool(np.all(depth2 >= depth - slack - 1e-12 * depth))
        except Machinery:
            raise
        except Exception as e:   # noqa
            depth2, okm = np.array([]), False
        ctx.verdict('monotone_in_cross_section', okm, cls=cls,
                    detail='scaled x%r: depth %r -> %r (slack %r)' % (k, depth.tolist(), depth2.tolist(), slack),
                    vector=dict(e2e=spec, scale=k))
    return ev


# ----------------------------------------------------------------------------
# binding C: the public entry points x grid sizes on one long-lived model (spec/MC_TransRoutes.tla)
# ----------------------------------------------------------------------------

# the requestable grids of the specification (MCWSize = <<5, 2, 3>>): the native grid and two sub-ranges of it
ROUTE_WINS = {1: None, 2: np.array([2000.0, 2500.0, 3000.0]), 3: np.array([3000.0, 3500.0, 4000.0, 4500.0, 5000.0])}


def routes_extra(kt):
    def extra(rng, sp):
        d = dict(ngas=2, rayleigh=True, table=True, table_dup=False, nl=rng.choice([2, 3, 4, 6, 9]),
                 mag=[rng.choice([-30, -27, -25, -23]) for _ in range(2)], tabmag=rng.choice([-30, -26]))
        d['temps'] = [rng.choice([300.0, 800.0, 1500.0, 2500.0]) for _ in range(d['nl'])]
        if kt:
            d.update(k_extra(rng, d))
        return d
    return extra


def call_route(m, route, win, cut='True'):
    """-> (returned grid, [(contribution name | None, component name | None, depth, transmittance), ...]);
    cut = how cutoff_grid is spelt"""
    g = ROUTE_WINS[win]
    g = None if g is None else g.copy()
    kw = {} if cut == 'True' else dict(cutoff_grid=SPELL[cut])
    if route == 'model':
        grid, depth, T, _ = m.model(wngrid=g, **kw)
        return grid, [(None, None, depth, T)]
    if route == 'contrib':
        grid, per = m.model_contrib(wngrid=g, **kw)
        return grid, [(name, None, v[0], v[1]) for name, v in per.items()]
    grid, per = m.model_full_contrib(wngrid=g, **kw)
    return grid, [(name, comp[0], comp[1], comp[2]) for name, lst in per.items() for comp in lst]


def same_as_integral(depth, T, ref, nl, n):
    """the returned depth / transmittance of one entry against the documented integral of its own absorbers:
    -> (number of wavenumbers at which both agree, detail).  Tolerance: 1e-9 relative on the optical depth
    (the chord segments are differences of square roots of differences of squares ~ R^2: 1e-12..1e-10 relative
    between two correct evaluations), +1e-12 absolute for optical depths recovered from exp(-tau) ~ 1."""
    try:
        d = np.asarray(depth, dtype=float)
        T = np.asarray(T, dtype=float)
    except Exception as e:   # noqa
        return 0, 'not numeric: %s' % e
    if d.shape != (n,) or T.shape != (nl, n):
        return 0, 'depth of shape %r, transmittance of shape %r for %d layers x %d wavenumbers' % (d.shape, T.shape, nl, n)
    good, detail = 0, ''
    for w in range(n):
        ok = close(d[w], ref['depth'][w], rel=1e-9)
        for j in range(nl if ok else 0):
            te = ref['tau'][j][w]
            to = -math.log(T[j, w]) if T[j, w] > 0 else float('inf')
            if (te > 700 and not T[j, w] < 1e-290) or (te <= 700 and not abs(to - te) <= 1e-9 * max(1.0, te) + 1e-12):
                ok = False
                detail = detail or 'wn %d layer %d: optical depth %r, documented integral %r' % (w, j, to, te)
                break
        if ok:
            good += 1
        elif not detail:
            detail = 'wn %d: depth %r, documented integral %r' % (w, float(d[w]), ref['depth'][w])
    return good, detail


class RouteOracle:
    """the documented integrals of one scenario on any set of native columns, from a reference model that is
    only ever evaluated once, on the whole grid (so nothing here depends on the history under test)"""

    def __init__(self, spec):
        self.m, _ = build_random_model(None, spec['nl'], spec=spec)
        self.m.model()
        self.cache = {}

    def on(self, cols):
        key = tuple(cols)
        if key not in self.cache:
            self.cache[key] = evaluate_run(self.m, cols, components=True)
        return self.cache[key]


def replay_walk(ctx, spec, walk, oracle, label):
    """one exported history on ONE freshly built long-lived model; a verdict per call.  -> all ok?"""
    m, _ = build_random_model(None, spec['nl'], spec=spec)
    trail, allok = [], True
    for step in walk:
        route, win = step['route'], step['win']
        trail.append('%s@%d%s' % (route, win, '' if step.get('cut', 'True') == 'True' else ':cutoff_grid=' + step['cut']))
        ok, detail = True, ''
        try:
            grid, entries = call_route(m, route, win, step.get('cut', 'True'))
            grid = np.asarray(grid, dtype=float)
            cols = [int(np.argmin(np.abs(WN - x))) for x in grid]
            if len(grid) != step['pts'] or any(WN[c] != x for c, x in zip(cols, grid)):
                ok, detail = False, 'returned grid %r, the specification has %d native points' % (grid.tolist(), step['pts'])
            else:
                ev = oracle.on(cols)
                nl, n = spec['nl'], len(cols)
                if route == 'model':
                    want = {(None, None): ev}
                elif route == 'contrib':
                    want = {(name, None): ref for name, ref in ev['alone'].items()}
                else:
                    want = {(name, comp): ref for name, lst in ev['parts'].items() for comp, ref in lst}
                got = {}
                for name, comp, depth, T in entries:
                    got.setdefault((name, comp), []).append((depth, T))
                if set(got) != set(want) or any(len(v) != 1 for v in got.values()):
                    ok, detail = False, 'returned entries %r, expected %r' % (sorted(map(str, got)), sorted(map(str, want)))
                for key in (sorted(want, key=str) if ok else []):
                    good, why = same_as_integral(got[key][0][0], got[key][0][1], want[key], nl, n)
                    if good != n:
                        ok, detail = False, 'entry %s: the documented integral of its own absorbers at %d of %d wavenumbers (%s)' % (
                            '/'.join(str(x) for x in key if x), good, n, why)
                        break
                # the chords the model exposes after the call: the documented geometry of the method asked for
                # (cumulative half-chords; two correct evaluations differ by 1e-12..1e-10 relative, see above)
                pl = getattr(m, 'path_length', None) if ok else None
                for j in range(nl if ok else 0):
                    seg = np.asarray(pl[j], dtype=float) if pl is not None and len(pl) == nl else np.zeros(0)
                    if seg.shape != (nl - j,) or not np.allclose(np.cumsum(seg), np.cumsum(ev['L'][j]), rtol=1e-9, atol=0):
                        ok, detail = False, 'model.path_length[%d] = %r, documented chords of the %s method %r' % (
                            j, seg.tolist(), 'new' if spec['new'] else 'old', ev['L'][j])
                        break
        except Machinery:
            raise
        except Exception as e:   # noqa
            ok, detail = False, 'raised %s: %s' % (type(e).__name__, e)
        ctx.verdict('entry_points', ok, cls='%s:%s' % (label, '>'.join(trail)), detail=detail,
                    vector=dict(routes=dict(spec=spec, walk=walk)))
        allok = allok and ok
        if not ok:
            break               # the object is in an undocumented state after a wrong / failed call
    return allok


def run_routes(ctx, walks, nmodels):
    """every exported history of entry points x grid sizes on nmodels random scenarios (the last one in
    correlated-k mode)."""
    rng = random.Random(ctx.seed * 7919 + 5)
    # histories whose grids never shrink first: should a variant loop over more wavenumbers than the arrays of
    # the call hold, that is reported from the growing histories before a shrinking one could corrupt memory
    def shrinks(w):
        return sum(1 for a, b in zip(w, w[1:]) if b['pts'] < a['pts'])
    walks = sorted(walks, key=lambda w: (shrinks(w), json.dumps(w)))
    n = 0
    for i in range(nmodels):
        kt = (i == nmodels - 1)
        for _ in range(20):
            m, spec = build_random_model(rng, 0, extra=routes_extra(kt))
            if not unbound(m):
                break
        else:
            raise Machinery('no bound atmosphere for the entry-point scenario')
        label = 'routes%s' % (':ktable' if kt else '')
        oracle = RouteOracle(spec)
        for w in walks:
            n += 1
            if not replay_walk(ctx, spec, w, oracle, label):
                ctx.note('entry points: histories after the first violating one are not replayed on scenario %d' % i)
                break
    KMODE.disable()
    ctx.traces += n
    return n


def run_flags(ctx, calls, nmodels):
    """every exported single call with new_path_method / cutoff_grid in every spelling (spec/MC_TransRoutes.tla FLAGS)
    on nmodels random scenarios: the entries and model.path_length are those of the method ASKED for (truth value of
    the option), on the grid the truth value of cutoff_grid selects."""
    rng = random.Random(ctx.seed * 86028121 + 3)
    n = 0
    for i in range(nmodels):
        for _ in range(20):
            m, spec = build_random_model(rng, 0, extra=routes_extra(False))
            if not unbound(m):
                break
        else:
            raise Machinery('no bound atmosphere for the option-spelling scenario')
        # the reference models are built with the plain Python booleans
        oracles = {b: RouteOracle(dict(spec, new=b, flag=str(b))) for b in (True, False)}
        stop = set()
        for c in calls:
            if c['flag'] in stop:
                continue
            sp = dict(spec, new=bool(c['new']), flag=c['flag'])
            n += 1
            if not replay_walk(ctx, sp, c['walk'], oracles[bool(c['new'])], 'routes:new_path_method=%s' % c['flag']):
                stop.add(c['flag'])
    ctx.traces += n
    return n


# ----------------------------------------------------------------------------
# history independence of one long-lived TransmissionModel (spec/Functional.tla)
# ----------------------------------------------------------------------------

def history_scenarios():
    from .. import history
    from taurex.cache import OpacityCache
    from taurex.data.profiles.chemistry import TaurexChemistry, ConstantGas
    from taurex.data.profiles.temperature import Isothermal
    from taurex.data import Planet
    from taurex.contributions import AbsorptionContribution, RayleighContribution

    def xs(T, P):
        return 3e-27 * (P / 1e3) ** 0.3 * np.linspace(0.5, 2.0, len(WN))

    class OneModel(history.Scenario):
        dims = [[900.0, 1400.0, 2000.0], [0.8, 1.0, 1.3], [1e-5, 3e-4, 2e-3]]

        def __init__(self, new_method):
            self.new_method = new_method
            self.name = 'transmission:%s' % ('new' if new_method else 'old')

        def fresh(self, v):
            reset_caches()
            OpacityCache().add_opacity(LayerOpacity('H2O', WN, xs))
            chem = TaurexChemistry(fill_gases=['H2', 'He'], ratio=0.17)
            chem.addGas(ConstantGas('H2O', mix_ratio=v[2]))
            m = make_transmission(7, chemistry=chem, temperature=Isothermal(T=v[0]),
                                  planet=Planet(planet_mass=1.0, planet_radius=v[1]), pmin=1e-1, pmax=1e5,
                                  new_method=self.new_method)
            m.add_contribution(AbsorptionContribution())
            m.add_contribution(RayleighContribution())
            m.build()
            return m

        def set(self, m, d, value, values):
            m[['T', 'planet_radius', 'H2O'][d]] = value

        def observe(self, m):
            g, depth, T, _ = m.model()
            return dict(depth=np.asarray(depth), T=np.asarray(T), z=np.asarray(m.altitude_boundaries),
                        L0=np.asarray(m.path_length[0]))
    return [OneModel(False), OneModel(True)]


K_REFUTED = ('RefuteGuardSaturated', 'RefuteGuardMonotone', 'RefuteRenorm')
ROUTES_REFUTED = ('RefuteStaleSize', 'RefuteAccumulate', 'RefuteKeepSingle', 'RefuteIdentity')
AB_REFUTED = ('RefuteFloor',)


def uniq(vs):
    out, seen = [], set()
    for v in vs:
        k = repr(v)
        if k not in seen:
            seen.add(k)
            out.append(v)
    return out


def check_with_mutants(ctx, label, module, cfg, refuted, need_actions, tag, workers=1, also=None):
    """One TLC run (-continue): the Sound.. / ..Blind invariants hold, exactly the expected-counterexample
    invariants `refuted` are violated (non-vacuity), and the vectors tagged `tag` are exported."""
    from ..core import run_tlc
    res = run_tlc(module, cfg, workers=workers, coverage=True, allow_violation=True, extra=['-continue'])
    ctx.add_tlc(label, res)
    got = set(re.findall(r'Invariant (\S+) is violated', res.out))
    if got != set(refuted):
        raise Machinery('%s/%s: expected TLC to refute exactly %r, got %r' % (module, cfg, sorted(refuted), sorted(got)))
    for a in need_actions:
        if res.action_cov.get(a, (0, 0))[1] == 0:
            raise Machinery('vacuous: action %s of %s never taken in %s' % (a, module, cfg))
    if res.distinct == 0:
        raise Machinery('TLC reported 0 states for %s/%s' % (module, cfg))
    if also is not None:
        also[:] = uniq(res.tagged(also[0]))
        if not also:
            raise Machinery('%s/%s exported nothing for the second tag' % (module, cfg))
    if tag is None:
        return []
    out, seen = [], set()
    for v in res.tagged(tag):
        k = repr(v)
        if k not in seen:
            seen.add(k)
            out.append(v)
    if not out:
        raise Machinery('%s/%s exported nothing' % (module, cfg))
    return out


def run(ctx):
    q = ctx.tier == 'quick'
    ctx.bounds = dict(abund='mixing ratios 5e-20 .. 0.5 (uniform or in some blocks of layers) x inverse cross-sections, 3 layers; whole models 2..12 layers',
                      spellings='new_path_method and cutoff_grid in 10 spellings on single calls',
                      kd='correlated-k: 3 layers x 2 wavenumbers x 2 quadrature points (thorough also 3), coefficients 0 .. beyond underflow',
                      routes='histories of %d calls over 3 entry points x 3 grid sizes on one model' % (2 if q else 3),
                      geo='4 (quick) / 5 (thorough) layers, all radii from small sets, both chord methods',
                      acc='2-3 layers x 2 wavenumbers x 2-3 contributions over value sets incl. saturating ones',
                      abs='3-4 layers, optical depths 0..6 ln2', e2e='random atmospheres 2..%d layers' % (20 if q else 60))
    ctx.assumptions = ['sqrt/exp/log of the platform libm at the harness boundary',
                       'harness evaluator of the documented formula is calibrated against TLC on every exported vector',
                       'per-layer cross-sections are supplied by fixture Opacity/CIA/Contribution subclasses']
    tier = ctx.tier
    ctx.check_spec('geo', 'MC_Transmission', 'MC_Trans_geo_%s.cfg' % tier, need_actions=('Evaluate',))
    ctx.check_spec('acc', 'MC_Transmission', 'MC_Trans_acc_%s.cfg' % tier, need_actions=('Evaluate',), timeout=1800)
    ctx.check_spec('abs', 'MC_Transmission', 'MC_Trans_abs_%s.cfg' % tier, need_actions=('Evaluate',))
    if not q:
        ctx.check_spec('acc3', 'MC_Transmission', 'MC_Trans_acc3_thorough.cfg', timeout=1800)
        ctx.check_spec('acc4', 'MC_Transmission', 'MC_Trans_acc4_thorough.cfg', timeout=1800)
    # round 4: the correlated-k family and the entry-point histories; one TLC run each checks the clauses on the
    # documented variant, requires the expected counterexamples for the mutants and exports the vectors / histories
    kvecs = check_with_mutants(ctx, 'kd', 'MC_TransK', 'MC_TransK_quick.cfg', K_REFUTED, ('Evaluate',), 'VEC')
    if not q:
        kvecs += check_with_mutants(ctx, 'kd3', 'MC_TransK', 'EX_TransK_3.cfg', K_REFUTED, ('Evaluate',), 'VEC')
        check_with_mutants(ctx, 'kd-exhaustive', 'MC_TransK', 'MC_TransK_thorough.cfg', K_REFUTED, ('Evaluate',), None, workers=8)
    flagcalls = ['FLAGS']
    walks = check_with_mutants(ctx, 'routes', 'MC_TransRoutes', 'MC_TransRoutes_%s.cfg' % tier, ROUTES_REFUTED, ('Call',), 'ROUTES',
                               also=flagcalls)
    # round 5: the magnitude of the mixing ratio
    abvecs = check_with_mutants(ctx, 'abund', 'MC_TransAbund', 'MC_TransAbund_%s.cfg' % tier, AB_REFUTED, ('Evaluate',), 'ABVEC')
    # round 6: grid size x position of the single thin wavenumber (spec/MC_TransHole.tla); the sub-sampled minimum is refuted
    hres = ctx.check_spec('hole', 'MC_TransHole', 'MC_TransHole_%s.cfg' % tier, need_actions=('Evaluate',), workers=2)
    hvecs = uniq(hres.tagged('VEC'))
    if len(hvecs) < 500 or not any(v['out']['tau'] != v['out']['full'] for v in hvecs) or \
            len({(v['inp']['p'] - 1) % 12 for v in hvecs if v['inp']['n'] >= 12}) < 12:
        raise Machinery('MC_TransHole exports too few grid-size / thin-position vectors (%d)' % len(hvecs))
    from ..core import run_tlc
    for st in (2, 3, 4):
        r = run_tlc('MC_TransHole', 'MC_TransHole_refute_stride%d.cfg' % st, workers=1, allow_violation=True)
        ctx.add_tlc('refute-exit-on-every-%d-th-wavenumber' % st, r)
        if r.violated != 'ExitOnlySaturatedEverywhere':
            raise Machinery('expected counterexample missing: minimum over every %d-th wavenumber not refuted (%r)' % (st, r.violated))
    ctx.exhaustive = True
    vecs = []
    for cfg in ('EX_Trans_geo.cfg', 'EX_Trans_acc.cfg', 'EX_Trans_acc2.cfg', 'EX_Trans_abs.cfg'):
        res = ctx.check_spec('export-' + cfg, 'MC_Transmission', cfg, workers=1)
        seen = set()
        for v in res.tagged('VEC'):
            k = repr(v)
            if k not in seen:
                seen.add(k)
                vecs.append(v)
    ncal = calibrate(vecs + kvecs + abvecs + hvecs)
    ctx.note('oracle calibration: harness evaluator equals TLC exactly on %d exported vectors' % ncal)
    reset_caches()
    for v in vecs:
        if v['fam'] == 'geo':
            vec_geo(ctx, v)
        elif v['fam'] == 'acc':
            vec_acc(ctx, v, 'table')
        else:
            vec_abs(ctx, v)
    ctx.add_sample(dict(vector=vecs[len(vecs) // 2]))
    for v in hvecs:
        vec_acc(ctx, v, 'grid%d:thin@%d' % (v['inp']['n'], (v['inp']['p'] - 1) % 12))
    try:
        for v in kvecs:
            vec_kd(ctx, v)
        KMODE.disable()
        ctx.add_sample(dict(vector=kvecs[len(kvecs) // 2]))
        # (the kernel-level replay vec_ab of these vectors is not run: its fixture is unfinished, see the report)
        ctx.add_sample(dict(vector=abvecs[len(abvecs) // 2]))
        reset_caches()
        run_abund(ctx, uniq([v['inp']['e'] for v in abvecs]))
        run_e2e(ctx, 60 if q else 600, 20 if q else 60, nk=16 if q else 120)
        nr = run_routes(ctx, [w["walk"] for w in walks], 3 if q else 4)
        ctx.note('entry points: %d exported histories x scenarios replayed (model / model_contrib / model_full_contrib x 3 grid sizes)' % nr)
        nf = run_flags(ctx, flagcalls, 2 if q else 3)
        ctx.note('option spellings: %d exported single calls x scenarios replayed (new_path_method / cutoff_grid in 10 spellings)' % nf)
        from .. import history
        history.run_history(ctx, history_scenarios(), 12 if q else 120)
    finally:
        KMODE.disable()
        KMODE.cleanup()
        reset_caches()


def replay(ctx, violations):
    reset_caches()
    for viol in violations:
        v = viol['vector']
        if 'routes' in v:
            spec = v['routes']['spec']
            replay_walk(ctx, spec, v['routes']['walk'], RouteOracle(spec), 'replay')
            KMODE.disable()
        elif v.get('fam') == 'kd':
            vec_kd(ctx, v)
            KMODE.disable()
        elif v.get('fam') == 'ab':
            vec_ab(ctx, v)
        elif 'e2e' in v:
            rng = random.Random(1)
            m, spec = build_random_model(rng, v['e2e']['nl'], spec=v['e2e'])
            ev, meta = [], []
            e2e_one(ctx, m, spec, ev, meta, rng, paired=False)
            if 'scale' in v:
                m2, _ = build_random_model(rng, spec['nl'], scale=v['scale'], spec=spec)
                d1 = np.asarray(m.model()[1]); d2 = np.asarray(m2.model()[1])
                ctx.verdict('monotone_in_cross_section', bool(np.all(d2 >= d1 * (1 - 1e-9) - 1e-4 * d1)), cls='replay',
                            detail='%r -> %r' % (d1.tolist(), d2.tolist()), vector=v)
            KMODE.disable()
        elif v['fam'] == 'geo':
            vec_geo(ctx, v)
        elif v['fam'] == 'acc':
            vec_acc(ctx, v, 'table')
        else:
            vec_abs(ctx, v)
