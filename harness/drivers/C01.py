"""C01 -- transmission spectrum equals the documented transit-depth integral.

Spec: spec/Transmission.tla (ChordSq, TauLayer with the licensed early exit, Depth),
      spec/MC_Transmission.tla (families geo / acc / abs: exhaustive invariants + vector export),
      spec/Trace_Transmission.tla (early-exit protocol on real runs).
Binding A: TLC vectors with exact results replayed into the real geometry methods, the real
           path_integral (numba kernels, early exit) and the real compute_absorption.
Oracle calibration: the harness's evaluator of the documented formula is first required to agree
           exactly (Fractions) with TLC on every exported vector; only then is it used, with
           sqrt/exp, on real-valued atmospheres.
Binding B: random whole-model runs (model()): depth and transmittance against the calibrated
           evaluator, the consequence clauses of the statement, and the early-exit protocol of
           every layer validated by TLC (+ canary).
"""
import math
import random
from fractions import Fraction

import numpy as np

from ..core import Machinery, frac, close, validate_trace
from ..fixtures import LayerOpacity, reset_caches
from ..fx_model import (LN2, TableContribution, FixtureCIA, make_transmission, chord_sq, chord_table,
                        tau_layers, depth_of)

U = 1.0e6          # metres per spec length unit in the vector bindings
CUT_SPEC = 14      # spec: exit when min tau >= 15 (integers, ln 2 units)  <=>  > 14
WN = np.array([1000.0, 2000.0, 3000.0, 4000.0, 5000.0])


# ----------------------------------------------------------------------------
# oracle calibration against TLC's exact results
# ----------------------------------------------------------------------------

def calibrate(vecs):
    n = 0
    for v in vecs:
        fam, inp, out = v['fam'], v['inp'], v['out']
        if fam == 'geo':
            r = [Fraction(x) for x in inp['r']]
            nl = len(r) - 1
            for j in range(nl):
                for i in range(nl - j):
                    if chord_sq(r, inp['method'], j, j + i) != frac(out[j][i]):
                        raise Machinery('oracle calibration failed (geo) on %r' % (inp,))
        elif fam == 'acc':
            a, L = inp['a'], inp['L']
            nl = len(L)
            Lr = [L[j][:nl - j] for j in range(nl)]
            tau, full, _ = tau_layers(a, None, Lr, CUT_SPEC, zero=0)
            if tau != out['tau'] or full != out['full']:
                raise Machinery('oracle calibration failed (acc) on %r: %r vs %r' % (inp, tau, out['tau']))
        elif fam == 'abs':
            r = [Fraction(x) for x in inp['r']]
            T = [[Fraction(1, 2 ** t)] for t in inp['t']]
            if depth_of(r, Fraction(inp['rs']), T)[0] != frac(out):
                raise Machinery('oracle calibration failed (abs) on %r' % (inp,))
        n += 1
    return n


# ----------------------------------------------------------------------------
# binding A
# ----------------------------------------------------------------------------

_models = {}


def bare_model(nl, new_method=False):
    key = (nl, new_method)
    if key not in _models:
        m = make_transmission(nl, new_method=new_method)
        m.build()
        _models[key] = m
    return _models[key]


def inject_geometry(m, r_units):
    r = np.asarray(r_units, dtype=float) * U
    m.planet.set_planet_radius(float(r[0]), unit='m')
    z = r - r[0]
    m.altitude_profile = z[:-1].copy()
    m.altitude_boundaries = z.copy()
    m.deltaz = np.diff(r)


def vec_geo(ctx, v):
    inp, out = v['inp'], v['out']
    nl = len(inp['r']) - 1
    m = bare_model(nl, inp['method'] == 'new')
    inject_geometry(m, inp['r'])
    pl = m.compute_path_length() if inp['method'] == 'new' else m.compute_path_length_old(m.deltaz)
    ok_all, detail = True, ''
    if len(pl) != nl:
        ok_all, detail = False, 'number of rays %d != %d' % (len(pl), nl)
    for j in range(nl if ok_all else 0):
        seg = np.asarray(pl[j], dtype=float)
        if len(seg) != nl - j:
            ok_all, detail = False, 'ray %d has %d segments, expected %d' % (j, len(seg), nl - j)
            break
        cum = np.cumsum(seg) / 2.0 / U
        for i in range(nl - j):
            want = float(frac(out[j][i]))
            if not close(cum[i] ** 2, want, rel=1e-9):
                ok_all, detail = False, 'ray %d shell %d: half-chord^2 %r, spec %r' % (j, j + i, cum[i] ** 2, want)
                break
        if not ok_all:
            break
    ctx.verdict('geometry_' + inp['method'], ok_all, cls='chords:' + inp['method'], detail=detail, vector=v)


def vec_acc(ctx, v, variant):
    inp, out = v['inp'], v['out']
    a, L = inp['a'], inp['L']
    nl, nc, nw = len(L), len(a), len(a[0][0])
    m = bare_model(nl)
    inject_geometry(m, [50 + 2 * i for i in range(nl + 1)])
    dens = m.densityProfile
    wn = WN[:nw]
    ltab = [np.array(L[j][:nl - j], dtype=float) * U for j in range(nl)]
    m.compute_path_length_old = lambda dz, _l=ltab: _l        # inject the chord table (instance only)
    contribs = []
    for c in range(nc):
        sig = np.array(a[c], dtype=float) * LN2 / U / dens[:, None]
        contribs.append(TableContribution('tab%d' % c, sig))
    saved = m.contribution_list
    try:
        m.contribution_list = contribs
        for c in contribs:
            c.prepare(m, wn)
        _, T = m.path_integral(wn, False)
    finally:
        m.contribution_list = saved
        del m.compute_path_length_old
    ok, detail = True, ''
    for j in range(nl):
        for w in range(nw):
            want = out['tau'][j][w]
            got = -math.log2(T[j, w]) if T[j, w] > 0 else float('inf')
            if not (abs(got - want) <= 1e-9 * max(1.0, want)):
                ok, detail = False, 'layer %d wn %d: tau/ln2 = %r, spec %r (no-exit integral %r)' % (
                    j, w, got, want, out['full'][j][w])
                break
        if not ok:
            break
    broke = any(out['tau'][j] != out['full'][j] for j in range(nl))
    ctx.verdict('accumulation' + ('_early_exit' if broke else ''), ok, cls='kernel:' + variant, detail=detail, vector=v)


def vec_abs(ctx, v):
    inp, out = v['inp'], v['out']
    nl = len(inp['t'])
    m = bare_model(nl)
    inject_geometry(m, inp['r'])
    rs = inp['rs'] * U
    saved = m.star._radius
    m.star._radius = rs
    try:
        tau = np.array(inp['t'], dtype=float)[:, None] * LN2
        depth, T = m.compute_absorption(tau, m.deltaz)
    finally:
        m.star._radius = saved
    want = float(frac(out))
    ctx.verdict('depth_integral', close(float(depth[0]), want, rel=1e-12), cls='absorb',
                detail='depth %r, spec %r' % (float(depth[0]), want), vector=v)


# ----------------------------------------------------------------------------
# binding B: whole-model runs
# ----------------------------------------------------------------------------

def build_random_model(rng, nl, scale=1.0, spec=None):
    """A real TransmissionModel with exact per-layer opacities.  `spec` replays a stored scenario."""
    from taurex.cache import OpacityCache, CIACache
    from taurex.data.profiles.chemistry import TaurexChemistry, ConstantGas
    from taurex.data.profiles.temperature import Isothermal
    from taurex.data.profiles.temperature.temparray import TemperatureArray
    from taurex.data import Planet
    from taurex.data.stellar import BlackbodyStar
    from taurex.contributions import AbsorptionContribution, RayleighContribution, CIAContribution
    if spec is None:
        spec = dict(
            nl=nl, new=rng.random() < 0.5,
            mass=rng.choice([0.05, 0.3, 1.0, 3.0]), radius=rng.choice([0.2, 0.8, 1.0, 1.7]),
            rstar=rng.choice([0.3, 1.0, 1.5]),
            pmax=rng.choice([1e4, 1e5, 1e6]), pspan=rng.choice([3, 5, 8, 10]),
            iso=rng.random() < 0.4, temps=[rng.choice([300.0, 800.0, 1500.0, 2500.0]) for _ in range(nl)],
            ngas=rng.choice([1, 2]), mix=[10 ** rng.uniform(-8, -2), 10 ** rng.uniform(-8, -2)],
            # per gas: log10 magnitude of the cross-section (m^2); None = exactly zero (transparent)
            mag=[rng.choice([None, -34, -30, -27, -25, -23, -21, -19]) for _ in range(2)],
            slope=[rng.uniform(-1, 1) for _ in range(2)],
            shape=[[rng.uniform(0.2, 3.0) for _ in range(len(WN))] for _ in range(2)],
            rayleigh=rng.random() < 0.4, cia=rng.random() < 0.4, ciamag=rng.choice([-58, -52, -48]),
            table=rng.random() < 0.4, tabmag=rng.choice([None, -30, -26, -22]),
            # a second instance of the same contribution class (same name), which add_contribution accepts
            table_dup=rng.random() < 0.5, tabmag2=rng.choice([-28, -25, -23]),
        )
    reset_caches()
    names = ['H2O', 'CH4'][:spec['ngas']]
    nl = spec['nl']

    def mk(idx):
        def f(T, P):
            if spec['mag'][idx] is None:
                return np.zeros(len(WN))
            # smooth dependence on pressure so every layer has its own exact value
            return (10.0 ** spec['mag'][idx]) * scale * (P / 1e3) ** spec['slope'][idx] * np.array(spec['shape'][idx]) * 1e4
        return f
    xs = {}
    for i, g in enumerate(names):
        xs[g] = mk(i)
        OpacityCache().add_opacity(LayerOpacity(g, WN, xs[g]))
    if spec['cia']:
        tab = np.array([[10.0 ** spec['ciamag'] * (1 + 0.1 * w) for w in range(len(WN))]])
        CIACache().add_cia(FixtureCIA('H2-He', WN, [1000.0], tab))
    chem = TaurexChemistry(fill_gases=['H2', 'He'], ratio=0.17)
    for i, g in enumerate(names):
        chem.addGas(ConstantGas(g, mix_ratio=spec['mix'][i]))
    temp = Isothermal(T=spec['temps'][0]) if spec['iso'] else TemperatureArray(tp_array=spec['temps'])
    m = make_transmission(nl, chemistry=chem, temperature=temp,
                          planet=Planet(planet_mass=spec['mass'], planet_radius=spec['radius']),
                          star=BlackbodyStar(temperature=5000, radius=spec['rstar']),
                          pmin=spec['pmax'] / 10 ** spec['pspan'], pmax=spec['pmax'], new_method=spec['new'])
    m.add_contribution(AbsorptionContribution())
    if spec['rayleigh']:
        m.add_contribution(RayleighContribution())
    if spec['cia']:
        m.add_contribution(CIAContribution(cia_pairs=['H2-He']))
    if spec['table']:
        sig = np.zeros((nl, len(WN)))
        if spec['tabmag'] is not None:
            sig[:] = 10.0 ** spec['tabmag'] * scale * np.linspace(1.0, 2.0, len(WN))[None, :]
            sig *= np.linspace(2.0, 0.5, nl)[:, None]
        m.add_contribution(TableContribution('Table', sig))
        if spec.get('table_dup'):
            sig2 = 10.0 ** spec['tabmag2'] * scale * np.linspace(2.0, 1.0, len(WN))[None, :] * np.linspace(0.5, 1.5, nl)[:, None]
            m.add_contribution(TableContribution('Table', sig2))
    added = list(m.contribution_list)       # what was REGISTERED (all of the same evaluation order: build() keeps it)
    m.build()
    m._verif_xs = xs
    m._verif_added = added
    return m, spec


def evaluate_run(m):
    """Observed inputs of the path integral -> the documented integral (calibrated evaluator)."""
    from taurex.contributions import CIAContribution
    r = (m.planet.fullRadius + np.asarray(m.altitude_boundaries, dtype=float)).tolist()
    dens = np.asarray(m.densityProfile, dtype=float)
    A = []
    from taurex.contributions import AbsorptionContribution
    Tl = np.asarray(m.temperatureProfile, dtype=float)
    Pl = np.asarray(m.pressureProfile, dtype=float)
    registered = getattr(m, '_verif_added', None) or list(m.contribution_list)
    for c in registered:
        if isinstance(c, AbsorptionContribution) and hasattr(m, '_verif_xs'):
            # molecular absorption: the inputs are the fixture cross-sections and the mixing ratios,
            # NOT the contribution's own buffer (so a wrong sum over species is seen here too)
            sig = np.zeros((len(Pl), len(WN)))
            for g, f in m._verif_xs.items():
                mix = np.asarray(m.chemistry.get_gas_mix_profile(g), dtype=float)
                sig += np.array([f(Tl[k], Pl[k]) for k in range(len(Pl))]) * mix[:, None]
        elif hasattr(c, '_sig'):        # fixture table: the given numbers, whether or not the model prepared it
            sig = np.asarray(c._sig, dtype=float)
        else:
            sig = np.asarray(c.sigma_xsec, dtype=float)
        if isinstance(c, CIAContribution):
            A.append((sig * (dens ** 2)[:, None]).tolist())
        else:
            A.append((sig * dens[:, None]).tolist())
    method = 'new' if m.new_method else 'old'
    L = chord_table(r, method)
    tau, full, pre = tau_layers(A, None, L, 10.0)
    T = [[math.exp(-t) for t in row] for row in tau]
    depth = depth_of(r, m.star.radius, T)
    bare = (r[0] / m.star.radius) ** 2
    opaque = depth_of(r, m.star.radius, [[0.0] * len(row) for row in tau])
    alone = {}
    names = [c.name for c in registered]
    for i, c in enumerate(registered):
        if names.count(c.name) > 1:
            continue            # same-name instances share one entry of the per-source dictionary: not judged per source
        ti, _, _ = tau_layers([A[i]], None, L, 10.0)
        Ti = [[math.exp(-t) for t in row] for row in ti]
        alone[c.name] = dict(tau=ti, depth=depth_of(r, m.star.radius, Ti))
    return dict(r=r, L=L, tau=tau, full=full, pre=pre, T=T, depth=depth, bare=bare, opaque=opaque, alone=alone)


def run_e2e(ctx, nruns, max_layers):
    rng = random.Random(ctx.seed * 104729 + 1)
    events, evmeta = [], []
    skipped = 0
    for it in range(nruns):
        nl = rng.choice([2, 3, 4, 5, 7, 10, 13, 20, max_layers]) if it % 3 else rng.randint(2, max_layers)
        m, spec = build_random_model(rng, nl)
        zb = np.asarray(m.altitude_boundaries, dtype=float)
        if not np.all(np.isfinite(zb)) or zb.max() > 3.0 * m.planet.fullRadius:
            # hot, low-gravity planet over many pressure decades: the hydrostatic altitude runs away
            # (unbound atmosphere, z -> inf).  The documented integral is not defined there: skipped.
            skipped += 1
            continue
        e2e_one(ctx, m, spec, events, evmeta, rng)
    if events:
        accepted, bad, res = validate_trace('Trace_Transmission', 'Trace_Transmission.cfg', events)
        ctx.add_tlc('trace-early-exit', res, counts=False)
        if res.postcondition_false and not bad:
            raise Machinery('early-exit trace not fully consumed:\n' + res.out[-1200:])
        badids = {b['id'] for b in bad}
        ctx.traces += len(events)
        for e, meta in zip(events, evmeta):
            ctx.verdict('early_exit_protocol', e['id'] not in badids, cls='exit:' + meta['cls'],
                        detail='layer %d: code applied %r contributions; prefix minima %r' % (meta['layer'], e['appl'], e['m']),
                        vector=dict(e2e=meta['spec'], layer=meta['layer']))
        ctx.add_sample(dict(early_exit_event=events[len(events) // 2]))
        nexit = sum(1 for e in events if e['appl'] and max(e['appl']) < len(e['m']) - 1)
        ntransp = sum(1 for e in events if e['m'][-1] == 0)
        ctx.note('%d random atmospheres skipped (unbound: altitude not finite or > 3 planet radii)' % skipped)
        ctx.note('whole-model runs: %d layer events, %d with the early exit taken, %d fully transparent' % (len(events), nexit, ntransp))
        if nexit == 0 and not ctx.has_violations():
            raise Machinery('vacuous: no whole-model run exercised the early exit')
        good = [e for e in events if e['id'] not in badids and len(e['appl']) == 1 and len(e['m']) > 2]
        if not good:
            if ctx.has_violations():
                return
            raise Machinery('no unambiguous early-exit event for the canary')
        c = dict(good[0])
        c['appl'] = [(c['appl'][0] + 1) % len(c['m'])]
        ok2, bad2, _ = validate_trace('Trace_Transmission', 'Trace_Transmission.cfg', [c])
        if ok2 or not bad2:
            raise Machinery('canary accepted: early-exit trace validation is vacuous')


def e2e_one(ctx, m, spec, events, evmeta, rng, paired=True):
    grid, depth, T, _ = m.model()
    depth = np.asarray(depth, dtype=float)
    T = np.asarray(T, dtype=float)
    ev = evaluate_run(m)
    nl, nw = T.shape
    cls = '%s:%dL' % ('new' if spec['new'] else 'old', 1 if nl < 5 else 2)
    vec = dict(e2e=spec)
    # (1) transmittance per layer / wavenumber
    ok, detail = True, ''
    for j in range(nl):
        for w in range(nw):
            te = ev['tau'][j][w]
            to = -math.log(T[j, w]) if T[j, w] > 0 else float('inf')
            if te == float('inf') or te > 700:
                good = T[j, w] < 1e-290
            else:
                good = abs(to - te) <= 1e-9 * max(1.0, te) + 1e-12
            if not good:
                ok, detail = False, 'layer %d wn %d: tau %r, documented integral %r' % (j, w, to, te)
                break
        if not ok:
            break
    ctx.verdict('model_transmittance', ok, cls=cls, detail=detail, vector=vec)
    # (2) depth
    okd = all(close(depth[w], ev['depth'][w], rel=1e-9) for w in range(nw))
    ctx.verdict('model_depth', okd, cls=cls, detail='depth %r, documented integral %r' % (depth.tolist(), ev['depth']), vector=vec)
    # (3) consequences (no oracle needed): bounds, bare when transparent
    slack = math.exp(-10.0) * (max(ev['opaque']) - ev['bare'])
    ctx.verdict('depth_ge_bare', bool(np.all(depth >= ev['bare'] * (1 - 1e-12))), cls=cls,
                detail='depth %r < bare %r' % (depth.min(), ev['bare']), vector=vec)
    ctx.verdict('depth_le_opaque', bool(np.all(depth <= np.array(ev['opaque']) * (1 + 1e-12))), cls=cls,
                detail='depth %r > opaque %r' % (depth.max(), ev['opaque']), vector=vec)
    if all(all(x == 0.0 for x in row) for row in ev['full']):
        ctx.verdict('bare_when_transparent', bool(np.all(depth == ev['bare']) or close(depth.max(), ev['bare'], rel=1e-14)),
                    cls=cls, detail='depth %r bare %r' % (depth.tolist(), ev['bare']), vector=vec)
    # (4) early-exit protocol events for TLC
    nc = len(getattr(m, '_verif_added', None) or m.contribution_list)
    for j in range(nl):
        ms = []
        for i in range(nc + 1):
            mn = min(ev['pre'][j][i])
            ms.append(int(min(mn, 1000.0) * 1000))
        appl = []
        for i in range(nc + 1):
            good = True
            for w in range(nw):
                te = ev['pre'][j][i][w]
                to = -math.log(T[j, w]) if T[j, w] > 0 else float('inf')
                if te > 700:
                    if not T[j, w] < 1e-290:
                        good = False
                elif not abs(to - te) <= 1e-9 * max(1.0, te) + 1e-12:
                    good = False
            if good:
                appl.append(i)
        events.append(dict(id=len(events), m=ms, appl=appl))
        evmeta.append(dict(cls=cls, layer=j, spec=spec))
    # (6) every source evaluated alone on the SAME long-lived model (model_contrib): its depth is the documented integral
    # with that source only, and the full model evaluated again afterwards is unchanged
    if len(m.contribution_list) > 1:
        try:
            _, per = m.model_contrib()
            for name, ref in ev['alone'].items():
                if name not in per:
                    ctx.verdict('source_depth', False, cls=cls + ':' + name, detail='%s missing from model_contrib()' % name, vector=vec)
                    continue
                dc = np.asarray(per[name][0], dtype=float)
                oks = all(close(dc[w], ref['depth'][w], rel=1e-9) for w in range(nw))
                ctx.verdict('source_depth', oks, cls=cls + ':' + name,
                            detail='model_contrib()[%s] depth %r, documented integral with that source alone %r' % (name, dc.tolist(), ref['depth']),
                            vector=vec)
            _, depth_again, _, _ = m.model()
            ctx.verdict('model_depth', all(close(float(depth_again[w]), ev['depth'][w], rel=1e-9) for w in range(nw)), cls=cls + ':after-model_contrib',
                        detail='model() after model_contrib(): depth %r, documented integral %r' % (np.asarray(depth_again).tolist(), ev['depth']), vector=vec)
        except Machinery:
            raise
        except Exception as e:   # noqa
            ctx.verdict('source_depth', False, cls=cls + ':raised', detail='%s: %s' % (type(e).__name__, e), vector=vec)
    # (5) monotone under scaling of every cross-section (only sources the harness can scale)
    if paired and not spec['rayleigh'] and not spec['cia'] and rng.random() < 0.6:
        k = rng.choice([1.5, 2.0, 10.0])
        m2, _ = build_random_model(rng, spec['nl'], scale=k, spec=spec)
        _, depth2, _, _ = m2.model()
        depth2 = np.asarray(depth2, dtype=float)
        ctx.verdict('monotone_in_cross_section', bool(np.all(depth2 >= depth - slack - 1e-12 * depth)), cls=cls,
                    detail='scaled x%r: depth %r -> %r (slack %r)' % (k, depth.tolist(), depth2.tolist(), slack),
                    vector=dict(e2e=spec, scale=k))


# ----------------------------------------------------------------------------
# history independence of one long-lived TransmissionModel (spec/Functional.tla)
# ----------------------------------------------------------------------------

def history_scenarios():
    from .. import history
    from taurex.cache import OpacityCache
    from taurex.data.profiles.chemistry import TaurexChemistry, ConstantGas
    from taurex.data.profiles.temperature import Isothermal
    from taurex.data import Planet
    from taurex.contributions import AbsorptionContribution, RayleighContribution

    def xs(T, P):
        return 3e-27 * (P / 1e3) ** 0.3 * np.linspace(0.5, 2.0, len(WN))

    class OneModel(history.Scenario):
        dims = [[900.0, 1400.0, 2000.0], [0.8, 1.0, 1.3], [1e-5, 3e-4, 2e-3]]

        def __init__(self, new_method):
            self.new_method = new_method
            self.name = 'transmission:%s' % ('new' if new_method else 'old')

        def fresh(self, v):
            reset_caches()
            OpacityCache().add_opacity(LayerOpacity('H2O', WN, xs))
            chem = TaurexChemistry(fill_gases=['H2', 'He'], ratio=0.17)
            chem.addGas(ConstantGas('H2O', mix_ratio=v[2]))
            m = make_transmission(7, chemistry=chem, temperature=Isothermal(T=v[0]),
                                  planet=Planet(planet_mass=1.0, planet_radius=v[1]), pmin=1e-1, pmax=1e5,
                                  new_method=self.new_method)
            m.add_contribution(AbsorptionContribution())
            m.add_contribution(RayleighContribution())
            m.build()
            return m

        def set(self, m, d, value, values):
            m[['T', 'planet_radius', 'H2O'][d]] = value

        def observe(self, m):
            g, depth, T, _ = m.model()
            return dict(depth=np.asarray(depth), T=np.asarray(T), z=np.asarray(m.altitude_boundaries),
                        L0=np.asarray(m.path_length[0]))
    return [OneModel(False), OneModel(True)]


def run(ctx):
    q = ctx.tier == 'quick'
    ctx.bounds = dict(geo='4 (quick) / 5 (thorough) layers, all radii from small sets, both chord methods',
                      acc='2-3 layers x 2 wavenumbers x 2-3 contributions over value sets incl. saturating ones',
                      abs='3-4 layers, optical depths 0..6 ln2', e2e='random atmospheres 2..%d layers' % (20 if q else 60))
    ctx.assumptions = ['sqrt/exp/log of the platform libm at the harness boundary',
                       'harness evaluator of the documented formula is calibrated against TLC on every exported vector',
                       'per-layer cross-sections are supplied by fixture Opacity/CIA/Contribution subclasses']
    tier = ctx.tier
    ctx.check_spec('geo', 'MC_Transmission', 'MC_Trans_geo_%s.cfg' % tier, need_actions=('Evaluate',))
    ctx.check_spec('acc', 'MC_Transmission', 'MC_Trans_acc_%s.cfg' % tier, need_actions=('Evaluate',), timeout=1800)
    ctx.check_spec('abs', 'MC_Transmission', 'MC_Trans_abs_%s.cfg' % tier, need_actions=('Evaluate',))
    if not q:
        ctx.check_spec('acc3', 'MC_Transmission', 'MC_Trans_acc3_thorough.cfg', timeout=1800)
        ctx.check_spec('acc4', 'MC_Transmission', 'MC_Trans_acc4_thorough.cfg', timeout=1800)
    ctx.exhaustive = True
    vecs = []
    for cfg in ('EX_Trans_geo.cfg', 'EX_Trans_acc.cfg', 'EX_Trans_acc2.cfg', 'EX_Trans_abs.cfg'):
        res = ctx.check_spec('export-' + cfg, 'MC_Transmission', cfg, workers=1)
        seen = set()
        for v in res.tagged('VEC'):
            k = repr(v)
            if k not in seen:
                seen.add(k)
                vecs.append(v)
    ncal = calibrate(vecs)
    ctx.note('oracle calibration: harness evaluator equals TLC exactly on %d exported vectors' % ncal)
    reset_caches()
    for v in vecs:
        if v['fam'] == 'geo':
            vec_geo(ctx, v)
        elif v['fam'] == 'acc':
            vec_acc(ctx, v, 'table')
        else:
            vec_abs(ctx, v)
    ctx.add_sample(dict(vector=vecs[len(vecs) // 2]))
    run_e2e(ctx, 60 if q else 600, 20 if q else 60)
    from .. import history
    history.run_history(ctx, history_scenarios(), 12 if q else 120)
    reset_caches()


def replay(ctx, violations):
    reset_caches()
    for viol in violations:
        v = viol['vector']
        if 'e2e' in v:
            rng = random.Random(1)
            m, spec = build_random_model(rng, v['e2e']['nl'], spec=v['e2e'])
            ev, meta = [], []
            e2e_one(ctx, m, spec, ev, meta, rng, paired=False)
            if 'scale' in v:
                m2, _ = build_random_model(rng, spec['nl'], scale=v['scale'], spec=spec)
                d1 = np.asarray(m.model()[1]); d2 = np.asarray(m2.model()[1])
                ctx.verdict('monotone_in_cross_section', bool(np.all(d2 >= d1 * (1 - 1e-9) - 1e-4 * d1)), cls='replay',
                            detail='%r -> %r' % (d1.tolist(), d2.tolist()), vector=v)
        elif v['fam'] == 'geo':
            vec_geo(ctx, v)
        elif v['fam'] == 'acc':
            vec_acc(ctx, v, 'table')
        else:
            vec_abs(ctx, v)
