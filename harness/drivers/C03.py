"""C03 -- optical depth composes additively over contributions and species.

Spec: spec/Compose.tla (buffers, list swap, the three public operations step by step; NoStaleRead,
      ListRestored, Coverage, OrderIndependent), spec/MC_Compose.tla (as-found vs repaired cloud class,
      behaviour export), and the acc family of spec/MC_Transmission.tla (ProductRule,
      OrderIndependentUpToCutoff over exact optical depths).
Binding C: TLC-simulated behaviours (insertion order + history of set-parameter / model /
      model_contrib / model_full_contrib calls) replayed on ONE long-lived real TransmissionModel with
      Absorption (2 gases), CIA, Rayleigh and SimpleClouds; after every call the result is compared
      with what a freshly built model returns for the current parameters (the spec's reads all carry
      the current version), the contribution list must be restored, every part modelled once, and the
      product rules must hold.
Binding A: component weighting (cross-section x mixing ratio; both partners and density^2 for CIA),
      zero-abundance neutrality, proportionality, all insertion orders.
Spec: spec/SourceLayers.tla (round 4): WHERE a component has opacity (per layer: exactly none | some) and HOW the
      molecular absorption is served (cross-sections | correlated-k) as dimensions of LayerByLayer,
      ProductOverSources (every list order), OrderFree, ProductOverComponents, ZeroNeutral; design variants
      Guard = tangent | top and KAvg = total are refuted.  The exported input classes are realised on a real
      non-isothermal 6-layer model (fx_c03layers.py) in every list order; the harness evaluator of the documented
      formula is validated against the exported exact values first.  all_sources / stored_table run in both modes.
      Round 5: the MAGNITUDE of the abundance (mixing ratio 10^-e, e on the lattice AbExps = 1..20, in all or some layers,
      cross-sections scaled so that the optical depth stays of order one) as a further input dimension with the invariant
      ProportionalToAbundance; variant AbFloor = 12 (below 1e-12 = "absent") is refuted.  Realised by fx_c03abund.py
      (abundance_classes); weighted_opacity_exact compares every component's weighted opacity with cross-section x
      mixing ratio(s) at relative 1e-12 in every layer class.
Spec: spec/ListRoutes.tla (round 5): HOW the component list reaches a source (ctor keyword / omitted, setter, in-place
      append / extend / += / remove of the live list; before the first evaluation and between evaluations), invariant
      RouteFree; variant CountAt = "assign" is refuted.  TLC-simulated behaviours are replayed on one long-lived CIA
      contribution in a long-lived model, every evaluation against a fresh contribution CONSTRUCTED with the current list.
"""
import itertools
import math
import random

import numpy as np

from ..core import Machinery, close
from ..fixtures import LayerOpacity, reset_caches
from ..fx_model import FixtureCIA, make_transmission, chord_table, tau_layers
from .. import core
from .. import fx_c03layers as fxl
from .. import fx_c03abund as fxa

WN = np.array([800.0, 1600.0, 2400.0, 3200.0, 4000.0])
NL = 6
CLOUDP = [1e3, 3e4, 1e2, 5e3]
MIX = [1e-4, 3e-4, 1e-5, 2e-3]
TEMPS = [1000.0, 1300.0, 800.0, 1600.0]
XS = {'H2O': 3e-27, 'CH4': 1e-27}
SHAPE = {'H2O': np.array([1.0, 0.3, 2.0, 0.7, 1.5]), 'CH4': np.array([0.2, 1.7, 0.4, 1.1, 0.9])}
CIA_TAB = 2e-55 * np.array([1.0, 1.4, 0.6, 1.2, 0.8])


def xsec_of(gas):
    def f(T, P):
        return XS[gas] * SHAPE[gas] * (P / 1e3) ** 0.25     # m^2 (LayerOpacity serves it as is), per-layer exact
    return f


def install_fixtures():
    from taurex.cache import OpacityCache, CIACache
    reset_caches()
    for g in ('H2O', 'CH4'):
        OpacityCache().add_opacity(LayerOpacity(g, WN, xsec_of(g)))
    CIACache().add_cia(FixtureCIA('H2-He', WN, [1000.0], [CIA_TAB]))


def new_contrib(kind, params):
    from taurex.contributions import AbsorptionContribution, CIAContribution, RayleighContribution, \
        SimpleCloudsContribution
    if kind == 'abs':
        return AbsorptionContribution()
    if kind == 'cia':
        return CIAContribution(cia_pairs=['H2-He'])
    if kind == 'ray':
        return RayleighContribution()
    if kind == 'cloud':
        return SimpleCloudsContribution(clouds_pressure=params['cloudP'])
    if kind == 'flat':
        from taurex.contributions import FlatMieContribution
        return FlatMieContribution(flat_mix_ratio=params.get('hazemix', 3e-27) * 3e-5, flat_bottomP=3e3, flat_topP=3e1)
    if kind == 'lee':
        from taurex.contributions import LeeMieContribution
        return LeeMieContribution(lee_mie_radius=0.05, lee_mie_q=40, lee_mie_mix_ratio=params.get('hazemix', 3e-27) * 1e13,
                                  lee_mie_bottomP=3e3, lee_mie_topP=-1)
    raise Machinery('unknown contribution kind ' + kind)


NAME = dict(abs='Absorption', cia='CIA', ray='Rayleigh', cloud='SimpleClouds')


def build_model(added, params, ch4=None, with_ch4=True, nlate=0, ch4_profile=None):
    from taurex.data.profiles.chemistry import TaurexChemistry, ConstantGas
    from taurex.data.profiles.temperature import Isothermal
    chem = TaurexChemistry(fill_gases=['H2', 'He'], ratio=0.17)
    chem.addGas(ConstantGas('H2O', mix_ratio=params['mix']))
    if ch4_profile is not None:
        from taurex.data.profiles.chemistry.gas.arraygas import ArrayGas
        chem.addGas(ArrayGas('CH4', mix_ratio_array=list(ch4_profile)))
    elif with_ch4:
        chem.addGas(ConstantGas('CH4', mix_ratio=2e-4 if ch4 is None else ch4))
    m = make_transmission(NL, chemistry=chem, temperature=Isothermal(T=params['T']), pmin=1e0, pmax=1e5)
    early = added[:len(added) - nlate]
    for k in early:
        m.add_contribution(new_contrib(k, params))
    m.build()
    for k in added[len(added) - nlate:]:       # added after build(): appended, not re-sorted
        m.add_contribution(new_contrib(k, params))
    return m


def proj_contrib(res):
    return {name: np.asarray(v[1], dtype=float) for name, v in res[1].items()}


def proj_full(res):
    return {name: [(c[0], np.asarray(c[2], dtype=float)) for c in lst] for name, lst in res[1].items()}


class Fresh:
    """Reference results from freshly built models, cached per parameter state."""

    def __init__(self, added):
        self.added = added
        self.cache = {}

    def get(self, params):
        key = (params['cloudP'], params['mix'], params['T'])
        if key not in self.cache:
            m = build_model(self.added, params)
            T = np.asarray(m.model()[2], dtype=float)
            mc = proj_contrib(m.model_contrib())
            m2 = build_model(self.added, params)
            m2.model()
            mf = proj_full(m2.model_full_contrib())
            self.cache[key] = dict(T=T, contrib=mc, full=mf)
        return self.cache[key]


CUTOFF = math.exp(-10.0)
# factor between params['hazemix'] and the haze's own abundance parameter (see new_contrib)
HAZE_UNIT = dict(flat=3e-5, lee=1e13)


def same_rel(a, b):
    """cross-sections (1e-30 .. 1e-20): purely relative comparison"""
    a = np.asarray(a, dtype=float)
    b = np.asarray(b, dtype=float)
    return a.shape == b.shape and bool(np.all(np.abs(a - b) <= 1e-9 * np.abs(b)))


def same(a, b):
    """equal to 1e-9, or both inside the licensed saturation cut-off (T <= exp(-10))"""
    a = np.asarray(a, dtype=float)
    b = np.asarray(b, dtype=float)
    if a.shape != b.shape:
        return False
    return bool(np.all((np.abs(a - b) <= 1e-12 + 1e-9 * np.abs(b)) | ((a <= CUTOFF) & (b <= CUTOFF))))


def which_version(arr, history, fresh, getter):
    """name the (older) parameter state whose fresh result the stale array matches"""
    for i, p in enumerate(history):
        try:
            if same(arr, getter(fresh.get(p))):
                return i + 1
        except Exception:
            pass
    return None


def replay_behaviour(ctx, beh):
    added, hist, nlate = beh['added'], beh['hist'], beh.get('nlate', 0)
    params = dict(cloudP=CLOUDP[0], mix=MIX[0], T=TEMPS[0])
    idx = dict(cloudP=0, mix=0, T=0)
    m = build_model(added, params, nlate=nlate)
    built = [c.name for c in m.contribution_list]
    fresh = Fresh(added)          # reference: everything added before build() (sorted)
    history = [dict(params)]
    vec = dict(added=added, hist=hist, nlate=nlate)
    trail = []
    for step, (op, arg) in enumerate(hist):
        trail.append(op + (':' + arg if arg else ''))
        cls = '%s@%s%s' % (op, '>'.join(trail[-3:]), ':late%d' % nlate if nlate else '')
        try:
            if op == 'set':
                idx[arg] += 1
                if arg == 'cloudP':
                    params['cloudP'] = CLOUDP[idx[arg] % len(CLOUDP)]
                    if 'clouds_pressure' in m.fittingParameters:
                        m['clouds_pressure'] = params['cloudP']
                    else:       # deck added after build(): not collected, set it on the component
                        [c for c in m.contribution_list if c.name == 'SimpleClouds'][0].cloudsPressure = params['cloudP']
                elif arg == 'mix':
                    params['mix'] = MIX[idx[arg] % len(MIX)]
                    m['H2O'] = params['mix']
                else:
                    params['T'] = TEMPS[idx[arg] % len(TEMPS)]
                    m['T'] = params['T']
                history.append(dict(params))
                continue
            ref = fresh.get(params)
            if op == 'model':
                T = np.asarray(m.model()[2], dtype=float)
                ok = same(T, ref['T'])
                det = '' if ok else 'model() differs from a fresh model at the current parameters (matches parameter state #%s of %d)' % (
                    which_version(T, history[:-1], fresh, lambda r: r['T']), len(history))
                ctx.verdict('history_independent_model', ok, cls=cls, detail=det, vector=vec)
                prod = np.prod([ref['contrib'][n] for n in ref['contrib']], axis=0)
                ctx.verdict('product_over_sources', same(T, prod), cls=cls,
                            detail='T(all) != product of per-source T', vector=vec)
            elif op == 'contrib':
                got = proj_contrib(m.model_contrib())
                ctx.verdict('every_source_once', sorted(got) == sorted(ref['contrib']), cls=cls,
                            detail='sources %r vs %r' % (sorted(got), sorted(ref['contrib'])), vector=vec)
                for n in ref['contrib']:
                    if n not in got:
                        continue
                    ok = same(got[n], ref['contrib'][n])
                    det = '' if ok else '%s from model_contrib() is stale/wrong (matches parameter state #%s of %d)' % (
                        n, which_version(got[n], history[:-1], fresh, lambda r, n=n: r['contrib'][n]), len(history))
                    ctx.verdict('history_independent_contrib', ok, cls=cls + ':' + n, detail=det, vector=vec)
                prod = np.prod([got[n] for n in got], axis=0)
                ctx.verdict('product_over_sources', same(prod, ref['T']), cls=cls,
                            detail='product of model_contrib() T != T(all)', vector=vec)
            elif op == 'fullc':
                got = proj_full(m.model_full_contrib())
                ctx.verdict('every_source_once', sorted(got) == sorted(ref['full']), cls=cls,
                            detail='sources %r vs %r' % (sorted(got), sorted(ref['full'])), vector=vec)
                for n in ref['full']:
                    if n not in got:
                        continue
                    names_ok = [c[0] for c in got[n]] == [c[0] for c in ref['full'][n]]
                    ctx.verdict('every_component_once', names_ok, cls=cls + ':' + n,
                                detail='components %r vs %r' % ([c[0] for c in got[n]], [c[0] for c in ref['full'][n]]), vector=vec)
                    if not names_ok:
                        continue
                    for (cn, arr), (_, rarr) in zip(got[n], ref['full'][n]):
                        ok = same(arr, rarr)
                        det = '' if ok else '%s/%s from model_full_contrib() is stale/wrong (matches parameter state #%s of %d)' % (
                            n, cn, which_version(arr, history[:-1], fresh,
                                                 lambda r, n=n, cn=cn: dict(r['full'][n])[cn]), len(history))
                        ctx.verdict('history_independent_component', ok, cls=cls + ':' + n, detail=det, vector=vec)
                    prod = np.prod([arr for _, arr in got[n]], axis=0)
                    ctx.verdict('product_over_components', same(prod, ref['contrib'][n]), cls=cls + ':' + n,
                                detail='product of the components of %s != T(%s)' % (n, n), vector=vec)
            now = [c.name for c in m.contribution_list]
            ctx.verdict('list_restored', now == built, cls=cls, detail='contribution_list %r, built %r' % (now, built), vector=vec)
        except Machinery:
            raise
        except Exception as e:   # the real code raised: a history the spec allows must not fail
            ctx.verdict('history_no_exception', False, cls=cls, detail='%s: %s' % (type(e).__name__, e), vector=vec)
            return


# ----------------------------------------------------------------------------
# binding A: component weighting
# ----------------------------------------------------------------------------

def weighting(ctx):
    from taurex.util.scattering import rayleigh_sigma_from_name
    params = dict(cloudP=1e3, mix=MIX[0], T=1000.0)
    m = build_model(['abs', 'cia', 'ray'], params)
    m.model()
    chem = m.chemistry
    dens = np.asarray(m.densityProfile, dtype=float)
    P = np.asarray(m.pressureProfile, dtype=float)
    by = {c.name: c for c in m.contribution_list}
    # Absorption: sigma_g[k] = xsec_g(layer k) * mix_g[k]
    for gas, sig in by['Absorption'].prepare_each(m, WN):
        want = np.array([xsec_of(gas)(1000.0, P[k]) * chem.get_gas_mix_profile(gas)[k] for k in range(NL)])
        ctx.verdict('weighted_by_mixing_ratio', same_rel(np.array(sig), want), cls='Absorption:' + gas,
                    detail='component sigma != xsec x mix', vector=dict(gas=gas))
    # CIA: sigma = table * mix1 * mix2 ; optical depth uses density^2
    for pair, sig in by['CIA'].prepare_each(m, WN):
        f = chem.get_gas_mix_profile('H2') * chem.get_gas_mix_profile('He')
        want = CIA_TAB[None, :] * f[:, None]
        ctx.verdict('weighted_by_mixing_ratio', same_rel(np.array(sig), want), cls='CIA:' + pair,
                    detail='CIA sigma != table x mix(H2) x mix(He)', vector=dict(pair=pair))
    # Rayleigh: sigma = sigma_R(gas) * mix
    for gas, sig in by['Rayleigh'].prepare_each(m, WN):
        want = rayleigh_sigma_from_name(gas, WN)[None, :] * chem.get_gas_mix_profile(gas)[:, None]
        ctx.verdict('weighted_by_mixing_ratio', same_rel(np.array(sig), want), cls='Rayleigh:' + gas,
                    detail='Rayleigh sigma != sigma_R x mix', vector=dict(gas=gas))
    # density / density^2 in the optical depth: per-source T against the calibrated evaluator
    mc = proj_contrib(m.model_contrib())
    r = (m.planet.fullRadius + np.asarray(m.altitude_boundaries)).tolist()
    L = chord_table(r, 'old')
    for name, c in by.items():
        c.prepare(m, WN)
        sig = np.asarray(c.sigma_xsec, dtype=float)
        A = sig * ((dens ** 2) if name == 'CIA' else dens)[:, None]
        tau, _, _ = tau_layers([A.tolist()], None, L, 10.0)
        ctx.verdict('density_power', same(mc[name], np.exp(-np.array(tau))), cls=name,
                    detail='T(%s) != exp(-sum sigma n^%d L)' % (name, 2 if name == 'CIA' else 1), vector=dict(source=name))
    # every source against the documented weighting evaluated from the fixtures (not from the code's
    # own sigma): sum over species of cross-section x mixing ratio, layer by layer, including a species
    # that is absent (exactly zero) in some layers only
    prof = [0.0, 0.0, 1e-4, 2e-4, 0.0, 1e-5]
    mz = build_model(['abs', 'cia', 'ray'], params, ch4_profile=prof)
    mz.model()
    mcz = proj_contrib(mz.model_contrib())
    chz = mz.chemistry
    dz = np.asarray(mz.densityProfile, dtype=float)
    Pz = np.asarray(mz.pressureProfile, dtype=float)
    rz = (mz.planet.fullRadius + np.asarray(mz.altitude_boundaries)).tolist()
    Lz = chord_table(rz, 'old')
    ok_prof = same_rel(np.asarray(chz.get_gas_mix_profile('CH4')), np.array(prof))
    if not ok_prof:
        raise Machinery('fixture: ArrayGas profile not reproduced: %r' % (chz.get_gas_mix_profile('CH4'),))
    exp_sig = {}
    exp_sig['Absorption'] = sum(np.array([xsec_of(g)(1000.0, Pz[k]) * chz.get_gas_mix_profile(g)[k] for k in range(NL)])
                                for g in ('H2O', 'CH4'))
    exp_sig['CIA'] = CIA_TAB[None, :] * (chz.get_gas_mix_profile('H2') * chz.get_gas_mix_profile('He'))[:, None]
    ray = np.zeros((NL, len(WN)))
    for g in list(chz.activeGases) + list(chz.inactiveGases):
        sr = rayleigh_sigma_from_name(g, WN)
        if sr is not None:
            ray = ray + sr[None, :] * chz.get_gas_mix_profile(g)[:, None]
    exp_sig['Rayleigh'] = ray
    for name, sig in exp_sig.items():
        A = sig * ((dz ** 2) if name == 'CIA' else dz)[:, None]
        tau, _, _ = tau_layers([A.tolist()], None, Lz, 10.0)
        ctx.verdict('source_is_sum_of_weighted_species', same(mcz[name], np.exp(-np.array(tau))), cls=name + ':partial-zero-profile',
                    detail='T(%s) != exp(-sum_species sigma x mix x n L) with CH4 = %r' % (name, prof), vector=dict(source=name, ch4=prof))
    # zero abundance changes nothing
    base = np.asarray(build_model(['abs', 'ray'], params, with_ch4=False).model()[2])
    zero = np.asarray(build_model(['abs', 'ray'], params, ch4=0.0).model()[2])
    ctx.verdict('zero_abundance_neutral', same(zero, base), cls='CH4=0',
                detail='a species at zero abundance changed the transmittance', vector=dict(gas='CH4'))
    # proportional to abundance: component optical depth doubles when the (trace) abundance doubles
    # (the fill gas absorbs the difference; mu changes at the 1e-4 level, so compare sigma, not tau)
    m1 = build_model(['abs'], params, ch4=1e-6)
    m2 = build_model(['abs'], params, ch4=2e-6)
    m1.model(); m2.model()
    s1 = dict((g, np.array(s)) for g, s in m1.contribution_list[0].prepare_each(m1, WN))
    s2 = dict((g, np.array(s)) for g, s in m2.contribution_list[0].prepare_each(m2, WN))
    ctx.verdict('proportional_to_abundance', same_rel(s2['CH4'], 2.0 * s1['CH4']) and same_rel(s2['H2O'], s1['H2O']),
                cls='CH4x2', detail='doubling CH4 did not double its weighted opacity (or changed H2O)', vector=dict(gas='CH4'))
    # ... at every magnitude of the documented domain (lattice of SourceLayers.AbExps, here through ConstantGas): the
    # quotient weighted opacity / mixing ratio is the cross-section itself (REL_W: one product on either side)
    for e in (1, 4, 8, 12, 16, 20):
        for mant in (1.0, 4.0, 8.0):
            mixv = mant * 10.0 ** (-e)
            me = build_model(['abs'], params, ch4=mixv)
            me.model()
            se = dict((g, np.array(s)) for g, s in me.contribution_list[0].prepare_each(me, WN))
            Pe = np.asarray(me.pressureProfile, dtype=float)
            mp = np.asarray(me.chemistry.get_gas_mix_profile('CH4'), dtype=float)
            if not np.all(np.abs(mp - mixv) <= 1e-12 * mixv):
                raise Machinery('fixture: ConstantGas CH4 = %g not reproduced: %r' % (mixv, mp))
            want = np.array([xsec_of('CH4')(1000.0, Pe[k]) * mp[k] for k in range(NL)])
            got = se.get('CH4')
            ok = got is not None and got.shape == want.shape and bool(np.all(np.abs(got - want) <= REL_W * np.abs(want)))
            ctx.verdict('proportional_to_abundance', ok, cls='CH4=%ge-%d' % (mant, e),
                        detail='weighted opacity of CH4 at mixing ratio %g is not cross-section x mixing ratio (relative 1e-12)' % mixv,
                        vector=dict(gas='CH4', mix=mixv))
    # all insertion orders give the same spectrum and the same evaluation order (clouds first)
    ref = None
    for perm in itertools.permutations(['abs', 'cia', 'ray', 'cloud']):
        mm = build_model(list(perm), params)
        T = np.asarray(mm.model()[2])
        names = [c.name for c in mm.contribution_list]
        if ref is None:
            ref = T
        ctx.verdict('order_independent', same(T, ref) and names[0] == 'SimpleClouds', cls='perm',
                    detail='insertion order %r gives list %r / different T' % (perm, names), vector=dict(added=list(perm)))


def hazes(ctx):
    """The remaining built-in sources (grey and Lee hazes) obey the same composition rules, also after a
    change of their own parameters on a long-lived model."""
    for kind, pname in (('flat', 'flat_mix_ratio'), ('lee', 'lee_mie_mix_ratio')):
      # second family: the source starts with identically ZERO opacity (abundance 0), is evaluated, and is switched on later
      for start, steps in ((3e-27, [('model', None), ('set', 2.0), ('fullc', None), ('contrib', None), ('set', 0.5), ('model', None)]),
                           (0.0, [('model', None), ('set', 3e-27), ('fullc', None), ('contrib', None), ('model', None), ('set', 0.0), ('fullc', None),
                                  ('set', 5e-27), ('contrib', None)])):
        params = dict(cloudP=1e2, mix=MIX[0], T=1000.0, hazemix=start)
        for added in (['abs', kind, 'ray'], [kind, 'cia', 'abs'], ['ray', 'abs', 'cloud', kind]):
            m = build_model(added, params)
            vec = dict(added=added, haze=kind, start=start)
            cur = dict(params)
            unit = (m[pname] / start) if start else None
            for op, arg in steps:
                cls = 'haze:%s:%s%s' % (kind, op, '' if start else ':from-zero')
                if op == 'set':
                    if start:
                        cur['hazemix'] = cur['hazemix'] * arg
                        m[pname] = m[pname] * arg
                    else:
                        cur['hazemix'] = arg
                        m[pname] = arg * HAZE_UNIT[kind]
                    continue
                ref_m = build_model(added, cur)
                refT = np.asarray(ref_m.model()[2], dtype=float)
                refc = proj_contrib(ref_m.model_contrib())
                if op == 'model':
                    T = np.asarray(m.model()[2], dtype=float)
                    ctx.verdict('history_independent_model', same(T, refT), cls=cls, detail='haze model differs from a fresh model', vector=vec)
                    ctx.verdict('product_over_sources', same(T, np.prod([refc[n] for n in refc], axis=0)), cls=cls,
                                detail='T(all) != product over sources with a haze', vector=vec)
                elif op == 'contrib':
                    got = proj_contrib(m.model_contrib())
                    ctx.verdict('every_source_once', sorted(got) == sorted(c.name for c in m.contribution_list), cls=cls,
                                detail='sources %r' % sorted(got), vector=vec)
                    for n in refc:
                        ctx.verdict('history_independent_contrib', n in got and same(got[n], refc[n]), cls=cls + ':' + n,
                                    detail='%s stale/wrong after a haze parameter change' % n, vector=vec)
                else:
                    got = proj_full(m.model_full_contrib())
                    for n in refc:
                        ok = n in got and same(np.prod([a for _, a in got[n]], axis=0), refc[n])
                        ctx.verdict('product_over_components', ok, cls=cls + ':' + n,
                                    detail='components of %s do not multiply to the source at the current parameters' % n, vector=vec)
            names = [c.name for c in m.contribution_list]
            ctx.verdict('list_restored', len(names) == len(added), cls='haze:' + kind, detail='list %r' % names, vector=vec)


# ----------------------------------------------------------------------------
# every built-in source together: two collision pairs, H-, hazes and the deck; the stored contribution table
# ----------------------------------------------------------------------------

ALLK = ['abs', 'cia2', 'ray', 'hm', 'cloud', 'flat', 'lee']
CIA_TAB2 = 5e-55 * np.array([0.7, 1.1, 1.6, 0.5, 1.3])


def build_full(added, params):
    """Chemistry with H and e- (H- needs both); CIA with TWO pairs; all other sources as in build_model."""
    from taurex.data.profiles.chemistry import TaurexChemistry, ConstantGas
    from taurex.data.profiles.temperature import Isothermal
    from taurex.contributions import CIAContribution
    from taurex.contributions.hm import HydrogenIon
    from taurex.cache import CIACache
    if 'H2-H2' not in CIACache().cia_dict:
        CIACache().add_cia(FixtureCIA('H2-H2', WN, [1000.0], [CIA_TAB2]))
    chem = TaurexChemistry(fill_gases=['H2', 'He'], ratio=0.17)
    chem.addGas(ConstantGas('H2O', mix_ratio=params['mix']))
    chem.addGas(ConstantGas('CH4', mix_ratio=2e-4))
    chem.addGas(ConstantGas('H', mix_ratio=params.get('H', 2e-3)))
    chem.addGas(ConstantGas('e-', mix_ratio=params.get('e', 2e-6)))
    m = make_transmission(NL, chemistry=chem, temperature=Isothermal(T=params['T']), pmin=1e0, pmax=1e5)
    for k in added:
        if k == 'cia2':
            m.add_contribution(CIAContribution(cia_pairs=['H2-He', 'H2-H2']))
        elif k == 'hm':
            m.add_contribution(HydrogenIon())
        else:
            m.add_contribution(new_contrib(k, params))
    m.build()
    return m


# the grey and the Lee haze both call themselves 'Mie': per-name results of a model holding both collide, so the
# per-name clauses use subsets with at most one of them; model() itself is checked with both
FULLNAME = dict(abs='Absorption', cia2='CIA', ray='Rayleigh', hm='HydrogenIon', cloud='SimpleClouds', flat='Mie', lee='Mie')


def all_sources(ctx, nsub, nperm, mode='xsec', kname=None):
    """mode 'ktables': the molecular absorption is served from correlated-k tables (fx_c03layers.OpacityEnv); every
    clause is the same, except that the product over the MOLECULES of the absorption holds for degenerate tables only
    (SourceLayers.ProductOverComponents)."""
    if mode == 'ktables':
        env = fxl.OpacityEnv()
        try:
            env.enter('ktables', kname)
            return _all_sources(ctx, nsub, nperm, 'k:%s:' % kname, kname == 'degenerate', dict(opacity='ktables', kname=kname))
        finally:
            env.leave()
    return _all_sources(ctx, nsub, nperm, '', True, {})


def _all_sources(ctx, nsub, nperm, pre, abs_components, extra):
    rng = random.Random(ctx.seed * 7919 + 3)
    params = dict(cloudP=3e4, mix=MIX[0], T=2500.0, hazemix=3e-27)
    alone = {}
    for k in ALLK:
        m1 = build_full([k], params)
        alone[k] = np.asarray(m1.model()[2], dtype=float)
        name = m1.contribution_list[0].name
        if FULLNAME[k] != name:
            raise Machinery('fixture: contribution %s is called %s' % (k, name))
    if not (0.0 < float(alone['hm'].min()) < 0.9 and float(alone['cia2'].min()) < 0.99):
        raise Machinery('fixture: H- / CIA are not partially transparent: %r %r' % (alone['hm'].min(), alone['cia2'].min()))
    subsets = [list(ALLK)] + [[a, 'hm'] for a in ALLK if a != 'hm'] + [['cia2', a] for a in ('abs', 'ray')]
    while len(subsets) < nsub:
        k = rng.randint(2, len(ALLK))
        subsets.append(rng.sample(ALLK, k))
    subsets = [[k for k in sub if not (k == 'lee' and 'flat' in sub)] for sub in subsets]
    for sub in subsets:
        vec = dict(full=True, added=sub, **extra)
        tag = pre + '+'.join(sorted(sub))
        try:
            m = build_full(sub, params)
            T = np.asarray(m.model()[2], dtype=float)
            prod = np.prod([alone[k] for k in sub], axis=0)
            ctx.verdict('product_over_sources_alone', same(T, prod), cls='alone:' + tag,
                        detail='T(%s) != product of the transmittances of each source alone (max diff %.3g)' % (tag, float(np.abs(T - prod).max())),
                        vector=vec)
            mc = proj_contrib(m.model_contrib())
            for k in sub:
                n = FULLNAME[k]
                ctx.verdict('source_in_company_equals_alone', n in mc and same(mc[n], alone[k]), cls='company:%s:in:%s' % (n, tag),
                            detail='model_contrib()[%s] of a model with %s differs from the model with that source alone' % (n, tag), vector=vec)
            T2 = np.asarray(m.model()[2], dtype=float)
            ctx.verdict('history_independent_model', same(T2, T), cls='again:' + tag, detail='second model() differs from the first', vector=vec)
            mf = proj_full(m.model_full_contrib())
            for k in sub:
                n = FULLNAME[k]
                if n not in mf:
                    ctx.verdict('every_source_once', False, cls='full:' + pre + n, detail='%s missing from model_full_contrib()' % n, vector=vec)
                    continue
                pc = np.prod([a for _, a in mf[n]], axis=0)
                ncomp = len(mf[n])
                if k == 'abs' and not abs_components:      # generic k-tables: the molecules of one source are correlated
                    ctx.verdict('every_component_once', sorted(c for c, _ in mf[n]) == ['CH4', 'H2O'], cls='components:%sAbsorption' % pre,
                                detail='Absorption components %r' % [c for c, _ in mf[n]], vector=vec)
                    continue
                ctx.verdict('product_over_components', same(pc, alone[k]), cls='components:%s%s:n=%d' % (pre, n, ncomp),
                            detail='product of the %d components of %s != T(%s alone)' % (ncomp, n, n), vector=vec)
                if k == 'cia2':
                    ctx.verdict('every_component_once', sorted(c for c, _ in mf[n]) == ['H2-H2', 'H2-He'], cls='components:%sCIA:pairs' % pre,
                                detail='CIA components %r' % [c for c, _ in mf[n]], vector=vec)
        except Machinery:
            raise
        except Exception as e:   # noqa
            ctx.verdict('history_no_exception', False, cls='full:' + tag, detail='%s: %s' % (type(e).__name__, e), vector=vec)
    # insertion order
    ref = None
    perms = [list(ALLK), list(reversed(ALLK))] + [rng.sample(ALLK, len(ALLK)) for _ in range(nperm)]
    for perm in perms:
        T = np.asarray(build_full(perm, params).model()[2], dtype=float)
        if ref is None:
            ref = T
            prod = np.prod([alone[k] for k in perm], axis=0)
            ctx.verdict('product_over_sources_alone', same(T, prod), cls='alone:%sall-sources' % pre, detail='T(all seven sources) != product of each alone',
                        vector=dict(full=True, added=perm, **extra))
        ctx.verdict('order_independent', same(T, ref), cls='perm:%sall-sources' % pre, detail='insertion order %r gives a different T' % (perm,),
                    vector=dict(full=True, added=perm, **extra))
    # the two CIA pairs against the documented weighting (table x mix1 x mix2 x n^2), evaluated from the fixtures
    m = build_full(['cia2'], params)
    m.model()
    chem = m.chemistry
    dens = np.asarray(m.densityProfile, dtype=float)
    r = (m.planet.fullRadius + np.asarray(m.altitude_boundaries)).tolist()
    L = chord_table(r, 'old')
    h2, he = chem.get_gas_mix_profile('H2'), chem.get_gas_mix_profile('He')
    sig = CIA_TAB[None, :] * (h2 * he)[:, None] + CIA_TAB2[None, :] * (h2 * h2)[:, None]
    tau, _, _ = tau_layers([(sig * (dens ** 2)[:, None]).tolist()], None, L, 10.0)
    ctx.verdict('source_is_sum_of_weighted_species', same(alone['cia2'], np.exp(-np.array(tau))), cls=pre + 'CIA:two-pairs',
                detail='T(CIA, two pairs) != exp(-sum_pairs table x mix1 x mix2 x n^2 L)', vector=dict(full=True, added=['cia2'], **extra))
    stored_table(ctx, params, alone, pre, abs_components, extra)


def stored_table(ctx, params, alone, pre='', abs_components=True, extra=None):
    """The per-source / per-component table that the program stores (taurex.util.output.store_contributions, used by
    taurex.py and Optimizer.generate_solution) obeys the same composition rules as the calls it is assembled from."""
    from taurex.util.output import store_contributions
    from taurex.binning import FluxBinner, NativeBinner
    from taurex import OutputSize
    sub = ['abs', 'cia2', 'ray', 'hm', 'flat']
    m = build_full(sub, params)
    T = np.asarray(m.model()[2], dtype=float)
    for bn, binner in (('native', NativeBinner()), ('flux', FluxBinner(wngrid=np.array([1200.0, 2800.0]), wngrid_width=np.array([800.0, 1600.0])))):
        bname = pre + bn
        vec = dict(full=True, stored=bname, added=sub, **(extra or {}))
        try:
            tab = store_contributions(binner, m, output_size=OutputSize.heavy)
        except Exception as e:   # noqa
            ctx.verdict('history_no_exception', False, cls='stored:' + bname, detail='store_contributions: %s: %s' % (type(e).__name__, e), vector=vec)
            continue
        ctx.verdict('every_source_once', sorted(tab) == sorted(FULLNAME[k] for k in sub), cls='stored:' + bname,
                    detail='stored sources %r' % sorted(tab), vector=vec)
        prod_all = None
        for k in sub:
            n = FULLNAME[k]
            if n not in tab or 'native_tau' not in tab[n]:
                continue
            st = np.asarray(tab[n]['native_tau'], dtype=float)
            ctx.verdict('stored_source_equals_alone', same(st, alone[k]), cls='stored:%s:%s' % (bname, n),
                        detail='stored transmittance of %s differs from the model with that source alone' % n, vector=vec)
            comps = [np.asarray(v['native_tau'], dtype=float) for c, v in tab[n].items() if isinstance(v, dict) and 'native_tau' in v]
            if comps and k == 'abs' and not abs_components:
                pass
            elif comps:
                ctx.verdict('product_over_components', same(np.prod(comps, axis=0), st), cls='stored:%s:%s:n=%d' % (bname, n, len(comps)),
                            detail='product of the %d stored components of %s != stored %s' % (len(comps), n, n), vector=vec)
            else:
                ctx.verdict('every_component_once', False, cls='stored:%s:%s' % (bname, n), detail='no stored components for %s' % n, vector=vec)
            prod_all = st if prod_all is None else prod_all * st
        if prod_all is not None:
            ctx.verdict('product_over_sources', same(prod_all, T), cls='stored:' + bname,
                        detail='product of the stored sources != T(all)', vector=vec)


# ----------------------------------------------------------------------------
# spec/SourceLayers.tla: where a component has opacity (layer by layer) x how the molecular absorption is served
# ----------------------------------------------------------------------------

ORDERS = list(itertools.permutations(['abs', 'cia', 'third']))
COMPS = [(0, 0), (0, 1), (1, 0), (1, 1), (2, 0)]            # H2O, CH4 | H2-He (temperature table), H2-N2 (partner) | third
# classes every run realises (deviations from "opacity in every layer"); the rest of the export is sampled by seed
MUST = [{}, {(0, 0): (0, 1)}, {(0, 1): (0, 1)}, {(1, 0): (0, 1)}, {(1, 1): (0, 1)}, {(2, 0): (0, 1)},
        {(1, 0): (0, 1), (1, 1): (0, 1)}, {(0, 0): (0, 1), (0, 1): (0, 1)}, {(1, 0): (0, 1), (2, 0): (0, 1)},
        {(0, 1): (0, 0)}, {(1, 1): (0, 0)}, {(1, 0): (1, 0)}, {(2, 0): (1, 0)}, {(0, 0): (1, 0), (1, 1): (0, 1)}]


def spec_layers(ctx):
    """design-level checks of SourceLayers + the exported input classes (evaluator validated on all of them)"""
    q = ctx.tier == 'quick'
    res = ctx.check_spec('source-layers', 'SourceLayers', 'MC_SourceLayers_quick.cfg', workers=1)
    vecs = res.tagged('VEC')
    if len(vecs) < 300:
        raise Machinery('SourceLayers exported only %d input classes' % len(vecs))
    # a ray skips a source that has no opacity in its TANGENT layer: refuted by the layer-by-layer clause
    ctx.expect_refuted('source-layers-tangent-guard', 'SourceLayers', 'MC_SourceLayers_guard.cfg', 'LayerByLayer')
    # correlated-k mean taken over the optical depth already accumulated and then added: refuted by the product rule
    ctx.expect_refuted('source-layers-kmean-over-total', 'SourceLayers', 'MC_SourceLayers_kavg.cfg', 'ProductOverSources')
    # a mixing ratio below 1e-12 taken as "absent": refuted by the proportionality clause (thorough: and layer by layer)
    ctx.expect_refuted('source-layers-abundance-floor', 'SourceLayers', 'MC_SourceLayers_floor.cfg', 'ProportionalToAbundance')
    if not q:
        ctx.check_spec('source-layers-all', 'SourceLayers', 'MC_SourceLayers_all.cfg')
        ctx.check_spec('source-layers-support-guard', 'SourceLayers', 'MC_SourceLayers_support.cfg')      # the licensed guard
        ctx.check_spec('source-layers-nl3', 'SourceLayers', 'MC_SourceLayers_nl3.cfg')       # three layers, components 2+1+1
        ctx.expect_refuted('source-layers-tangent-guard-components', 'SourceLayers', 'MC_SourceLayers_guardcomp.cfg', 'ProductOverComponents')
        ctx.expect_refuted('source-layers-top-guard', 'SourceLayers', 'MC_SourceLayers_guardtop.cfg', 'LayerByLayer')
        ctx.expect_refuted('source-layers-abundance-floor-layers', 'SourceLayers', 'MC_SourceLayers_floorlayers.cfg', 'LayerByLayer')
        ctx.expect_refuted('source-layers-kmean-order', 'SourceLayers', 'MC_SourceLayers_kavgorder.cfg', 'OrderFree')
    fxl.validate_evaluator(vecs)
    return vecs


def _key(v):
    pat = tuple(tuple(tuple(c) for c in s) for s in v['a'])
    kname = None if v['mode'] == 'xsec' else ('degenerate' if len(set(v['kc']['mul'])) == 1 else 'generic')
    return pat, v['mode'], kname


def _pattern(dev):
    return tuple(tuple(dev.get((s, c), (1, 1)) for c in range(n)) for s, n in enumerate((2, 2, 1)))


def layer_classes(ctx, vecs, nextra):
    """Every selected input class on the real model: each source alone against the documented layer-by-layer
    weighting evaluated from the fixtures; the integral of the code's own weighted opacity; the product over sources
    in EVERY list order; sources in company; components; in both opacity modes."""
    rng = random.Random(ctx.seed * 104729 + 11)
    by = {}
    for v in vecs:
        if all(x == fxa.ORD for sc in v.get('e', []) for c in sc for x in c):       # the ordinary abundance
            by.setdefault(_key(v), v)
    pats = sorted({k[0] for k in by})
    chosen = [_pattern(d) for d in MUST]
    rest = [p for p in pats if p not in chosen]
    chosen += rest if nextra is None else rng.sample(rest, min(nextra, len(rest)))
    env = fxl.OpacityEnv()
    try:
        for i, pat in enumerate(chosen):
            for mi, (mode, kname) in enumerate((('xsec', None), ('ktables', 'generic'), ('ktables', 'degenerate'))):
                if (pat, mode, kname) not in by:
                    raise Machinery('SourceLayers did not export the input class %r / %s / %s' % (pat, mode, kname))
                lc = fxl.LayerClass(pat, mode, kname, 'flat' if (i + mi) % 2 == 0 else 'hm')
                env.enter(mode, kname)
                one_layer_class(ctx, lc)
                ctx.traces += 1
    finally:
        env.leave()
        install_fixtures()


def _T(m):
    T = np.asarray(m.model()[2], dtype=float)
    if T.shape != (fxl.NLR, len(fxl.WN)):
        raise ValueError('model() returned a transmittance of shape %r' % (T.shape,))
    return T


# SourceLayers.ProportionalToAbundance on the real model.  The weighted opacity of a component in a layer is ONE product
# (cross-section x mixing ratio; x the partner's ratio for a pair; x the cm^2 -> m^2 factor of a k-table), formed by the
# code and by the harness from the same doubles: at most 4 roundings of 1.1e-16 each on either side.  REL_W = 1e-12
# leaves a factor 1000 and is purely relative, so it means the same at 1e-20 as at 0.1; exact zeros must be exact.
REL_W = 1e-12


def weighted_exact(ctx, lc, m, at, base, vec):
    for s in lc.SRC:
        if s == 'third':
            continue                 # the grey haze's abundance IS its opacity; H- has no fixture cross-section
        tabs, _ = lc.tables(s, at, dens=False)
        n = lc.name_of(s)
        c = [x for x in m.contribution_list if x.name == n][0]
        got = [(cn, np.array(sg, dtype=float)) for cn, sg in c.prepare_each(m, fxl.WN)]
        ok = [cn for cn, _ in got] == lc.components_of(s)
        worst = 0.0
        if ok:
            for (cn, sg), tab in zip(got, tabs):
                w = np.asarray(tab, dtype=float)
                if sg.shape != w.shape or not np.all(np.isfinite(sg)):
                    ok = False
                    break
                bad = np.abs(sg - w) > REL_W * np.abs(w)
                if bad.any():
                    ok = False
                    worst = max(worst, float(np.max(np.abs(sg - w)[bad] / np.maximum(np.abs(w)[bad], 1e-300))))
        ctx.verdict('weighted_opacity_exact', ok, cls='%s:%s' % (base, n),
                    detail='the weighted opacity of a component of %s is not cross-section x mixing ratio layer by layer '
                           '(relative 1e-12; worst relative deviation %.3g)' % (n, worst), vector=vec)


def abundance_classes(ctx, vecs, nextra):
    """The abundance-magnitude classes exported by SourceLayers (one component at 10^-e, e on the lattice, in all or
    some layers) on the real model: every clause of one_layer_class, with cross-sections scaled so that the optical
    depth stays of order one at every magnitude."""
    rng = random.Random(ctx.seed * 15485863 + 17)
    ordp = lambda v: all(x == fxa.ORD for s in v['e'] for c in s for x in c)
    real = []
    for v in vecs:
        if ordp(v):
            continue
        moved = [(si, ci) for si, s in enumerate(v['e']) for ci, c in enumerate(s) if any(x != fxa.ORD for x in c)]
        if all(mc_ in fxa.GAS_OF for mc_ in moved):
            real.append((moved[0], v))
    if len(real) < 100:
        raise Machinery('SourceLayers exported only %d realisable abundance classes' % len(real))
    full = lambda v: all(x == 1 for s in v['a'] for c in s for x in c)
    kn = lambda v: None if v['mode'] == 'xsec' else ('degenerate' if len(set(v['kc']['mul'])) == 1 else 'generic')
    exps = sorted({x for _, v in real for s in v['e'] for c in s for x in c} - {fxa.ORD})
    must, rest = [], []
    for comp, v in real:
        pat = v['e'][comp[0]][comp[1]]
        uniform = len(set(pat)) == 1
        # every magnitude of the lattice, uniform, for every species with an abundance; the ends of the domain also
        # in some layers only (a profile that decays / grows with altitude) and through the k-tables
        if v['mode'] == 'xsec' and full(v) and (uniform or set(pat) & {exps[0], exps[-1]}):
            must.append(v)
        elif v['mode'] == 'ktables' and full(v) and uniform and comp[0] == 0 and pat[0] in (exps[0], 12, exps[-1]) and kn(v) == 'generic':
            must.append(v)
        else:
            rest.append(v)
    chosen = must + rng.sample(rest, min(nextra, len(rest)))
    env = fxl.OpacityEnv()
    try:
        for i, v in enumerate(chosen):
            lc = fxa.AbundanceClass(v['a'], v['e'], v['mode'], kn(v), 'flat' if i % 2 == 0 else 'hm')
            lc.enter(env)
            one_layer_class(ctx, lc)
            ctx.traces += 1
    finally:
        env.leave()
        install_fixtures()
    return len(chosen)


def one_layer_class(ctx, lc):
    vec = dict(layers=True, a=[list(map(list, s)) for s in lc.a], mode=lc.mode, kname=lc.kname, third=lc.third)
    if getattr(lc, 'e', None) is not None:
        vec['e'] = [list(map(list, s)) for s in lc.e]
    base = getattr(lc, 'prefix', 'layers') + ':' + lc.tag
    try:
        alone, at = {}, None
        for s in lc.SRC:
            m1 = lc.build([s])
            alone[s] = _T(m1)
            if at is None:
                at = lc.atmosphere(m1)
        seg = at['seg']
        want = {}
        for s in lc.SRC:
            tabs, wts = lc.tables(s, at)
            if tabs is None:
                continue
            want[s] = (tabs, wts)
            exp = np.array(fxl.doc_trans(tabs, seg, wts, fxl.expneg))
            ctx.verdict('layer_by_layer_weighting', same(alone[s], exp), cls='%s:%s' % (base, lc.name_of(s)),
                        detail='T(%s alone) != documented integral of (cross-section x mixing ratio x density^p) over the layers from the '
                               'tangent layer up; max diff %.3g' % (lc.name_of(s), float(np.abs(alone[s] - exp).max())), vector=vec)
        m = lc.build(list(ORDERS[0]))
        T0 = _T(m)
        mc = proj_contrib(m.model_contrib())
        mf = proj_full(m.model_full_contrib())
        dens = at['n']
        weighted_exact(ctx, lc, m, at, base, vec)
        ctx.verdict('every_source_once', sorted(mc) == sorted(lc.name_of(s) for s in lc.SRC) and sorted(mf) == sorted(mc), cls=base,
                    detail='sources %r / %r' % (sorted(mc), sorted(mf)), vector=vec)
        for s in lc.SRC:
            n = lc.name_of(s)
            if n not in mc or n not in mf:
                continue
            ctx.verdict('source_in_company_equals_alone', same(mc[n], alone[s]), cls='%s:%s' % (base, n),
                        detail='model_contrib()[%s] differs from the model with that source alone' % n, vector=vec)
            # the integral of the code's OWN weighted opacity (also for sources without a fixture formula)
            c = [x for x in m.contribution_list if x.name == n][0]
            c.prepare(m, fxl.WN)
            sig = np.asarray(c.sigma_xsec, dtype=float)
            A = sig * ((dens ** 2) if s == 'cia' else dens).reshape((-1,) + (1,) * (sig.ndim - 1))
            own = np.array(fxl.doc_trans([A.tolist()], seg, fxl.KREAL[lc.kname][0] if sig.ndim == 3 else None, fxl.expneg))
            ctx.verdict('density_power', same(alone[s], own), cls='%s:%s' % (base, n),
                        detail='T(%s) != exp(-sum_k sigma_k n_k^%d L_k) of its own weighted opacity' % (n, 2 if s == 'cia' else 1), vector=vec)
            names = [cn for cn, _ in mf[n]]
            ok_names = names == lc.components_of(s)
            ctx.verdict('every_component_once', ok_names, cls='%s:%s' % (base, n), detail='components %r' % names, vector=vec)
            if not ok_names:
                continue
            if s in want:
                tabs, wts = want[s]
                for ci, (cn, arr) in enumerate(mf[n]):
                    expc = np.array(fxl.doc_trans([tabs[ci]], seg, wts, fxl.expneg))
                    ctx.verdict('layer_by_layer_weighting', same(arr, expc), cls='%s:%s/%s' % (base, n, cn),
                                detail='component %s of %s != documented integral over the layers from the tangent layer up' % (cn, n), vector=vec)
            if s != 'abs' or lc.mode == 'xsec' or lc.kname == 'degenerate':
                ctx.verdict('product_over_components', same(np.prod([arr for _, arr in mf[n]], axis=0), mc[n]), cls='%s:%s' % (base, n),
                            detail='product of the components of %s != T(%s)' % (n, n), vector=vec)
        prod = np.prod([alone[s] for s in lc.SRC], axis=0)
        for order in ORDERS:
            T = T0 if order == ORDERS[0] else _T(lc.build(list(order)))
            o = '>'.join(order)
            ctx.verdict('product_over_sources_alone', same(T, prod), cls='%s:%s' % (base, o),
                        detail='T(list %s) != product of the transmittances of each source alone (max diff %.3g)' % (o, float(np.abs(T - prod).max())),
                        vector=dict(vec, order=list(order)))
            ctx.verdict('order_independent', same(T, T0), cls='%s:%s' % (base, o),
                        detail='list order %s gives a different T than %s' % (o, '>'.join(ORDERS[0])), vector=dict(vec, order=list(order)))
    except Machinery:
        raise
    except Exception as e:   # noqa -- an input inside the quantifier must not fail
        ctx.verdict('history_no_exception', False, cls=base, detail='%s: %s' % (type(e).__name__, e), vector=vec)


# ----------------------------------------------------------------------------
# spec/ListRoutes.tla: how the component list reaches a source (round 5)
# ----------------------------------------------------------------------------

ROUTE_OPS = ('ctor', 'ctor0', 'assign', 'append', 'extend', 'iadd', 'remove')


def route_classes(hist):
    """the (route, phase) classes a behaviour exercises: every list operation that is followed by an evaluation
    (the replay evaluates at the end of every behaviour), before the first evaluation or between evaluations"""
    out, seen_eval, n, n_at_eval = set(), False, 0, None
    for ev in hist:
        if ev['op'] == 'eval':
            seen_eval, n_at_eval = True, n
        else:
            n = dict(ctor=len(ev['l']), ctor0=0, assign=len(ev['l']), remove=n - 1).get(ev['op'], n + len(ev['l']))
            out.add((ev['op'], 'between-evals' if seen_eval else 'before-first-eval'))
            if seen_eval and n_at_eval == 0:          # the source was last evaluated while it had no component
                out.add((ev['op'], 'between-evals:after-empty-eval'))
    return out


def build_routed(cia):
    from taurex.data.profiles.chemistry import TaurexChemistry, ConstantGas
    from taurex.data.profiles.temperature import Isothermal
    from taurex.contributions import AbsorptionContribution, RayleighContribution
    chem = TaurexChemistry(fill_gases=['H2', 'He'], ratio=0.17)
    chem.addGas(ConstantGas('H2O', mix_ratio=MIX[0]))
    chem.addGas(ConstantGas('CH4', mix_ratio=2e-4))
    m = make_transmission(NL, chemistry=chem, temperature=Isothermal(T=2500.0), pmin=1e0, pmax=1e5)
    for c in (AbsorptionContribution(), cia, RayleighContribution()):
        m.add_contribution(c)
    m.build()
    return m


def observe_routed(m, how='fullc'):
    T = np.asarray(m.model()[2], dtype=float)
    mc = proj_contrib(m.model_contrib()) if how in ('contrib', 'fullc') else None
    mf = proj_full(m.model_full_contrib()) if how == 'fullc' else None
    return T, mc, mf


def replay_routes(ctx, beh, fresh_cache):
    """one TLC behaviour of ListRoutes on ONE long-lived CIA contribution inside a long-lived model; every evaluation
    against a fresh model whose CIA contribution was CONSTRUCTED with the current list"""
    from taurex.contributions import CIAContribution
    from taurex.cache import CIACache
    if 'H2-H2' not in CIACache().cia_dict:
        CIACache().add_cia(FixtureCIA('H2-H2', WN, [1000.0], [CIA_TAB2]))
    hist = list(beh['hist'])
    if hist[-1]['op'] != 'eval':
        hist.append(dict(op='eval', l=['fullc']))          # Evaluate is always enabled
    vec = dict(routes=True, hist=beh['hist'])
    cur, since, phase, m, cia = None, [], 'before-first-eval', None, None
    try:
        for ev in hist:
            op, l = ev['op'], list(ev['l'])
            if op in ('ctor', 'ctor0'):
                cia = CIAContribution() if op == 'ctor0' else CIAContribution(cia_pairs=list(l))
                m = build_routed(cia)
                cur = list(l)
            elif op == 'assign':
                cia.ciaPairs = list(l)
                cur = list(l)
            elif op == 'append':
                cia.ciaPairs.append(l[0])
                cur = cur + l
            elif op == 'extend':
                cia.ciaPairs.extend(l)
                cur = cur + l
            elif op == 'iadd':
                live = cia.ciaPairs
                live += l                           # in place on the live list (no setter involved)
                cur = cur + l
            elif op == 'remove':
                cia.ciaPairs.remove(l[0])
                cur = [p for p in cur if p != l[0]]
            elif op != 'eval':
                raise Machinery('unknown route op %r' % (op,))
            if op != 'eval':
                since.append(op)
                continue
            cls = 'route:%s:%s:n=%d' % ('+'.join(since[-3:]) or 'again', phase, len(cur))
            key = tuple(cur)
            if key not in fresh_cache:
                fresh_cache[key] = observe_routed(build_routed(CIAContribution(cia_pairs=list(cur))))
                if cur and not float(fresh_cache[key][1]['CIA'].min()) < 0.99:
                    raise Machinery('fixture: CIA with %r is transparent' % (cur,))
            rT, rmc, rmf = fresh_cache[key]
            T, mc, mf = observe_routed(m, l[0] if l else 'fullc')
            held = list(cia.ciaPairs)
            ctx.verdict('route_independent_components', held == cur and (mf is None or [c for c, _ in mf.get('CIA', [])] == cur), cls=cls,
                        detail='the source holds %r and models the components %r; the list given is %r' % (
                            held, mf and [c for c, _ in mf.get('CIA', [])], cur), vector=vec)
            ctx.verdict('route_independent_model', same(T, rT), cls=cls,
                        detail='T(model) differs from a fresh model whose CIA contribution was constructed with %r (max diff %.3g)' % (
                            cur, float(np.abs(T - rT).max()) if T.shape == rT.shape else float('nan')), vector=vec)
            if mc is None:
                since, phase = [], 'between-evals'
                continue
            ctx.verdict('route_independent_source', 'CIA' in mc and same(mc['CIA'], rmc['CIA']), cls=cls,
                        detail='T(CIA) from model_contrib() differs from a fresh contribution constructed with %r' % (cur,), vector=vec)
            ctx.verdict('product_over_sources', same(T, np.prod([mc[n] for n in mc], axis=0)), cls=cls,
                        detail='T(model) != product of the sources from model_contrib()', vector=vec)
            if mf is None:
                since, phase = [], 'between-evals'
                continue
            okc = [c for c, _ in mf.get('CIA', [])] == [c for c, _ in rmf.get('CIA', [])] and all(
                same(a, b) for (_, a), (_, b) in zip(mf.get('CIA', []), rmf.get('CIA', [])))
            ctx.verdict('route_independent_component', okc, cls=cls,
                        detail='per-pair transmittances from model_full_contrib() differ from a fresh contribution constructed with %r' % (cur,), vector=vec)
            if 'CIA' in mc and 'CIA' in mf:
                ctx.verdict('product_over_components', same(np.prod([a for _, a in mf['CIA']] or [np.ones_like(T)], axis=0), mc['CIA']),
                            cls=cls, detail='product of the pairs != T(CIA)', vector=vec)
            since, phase = [], 'between-evals'
    except Machinery:
        raise
    except Exception as e:   # noqa -- every route is public: a failure is a verdict
        ctx.verdict('history_no_exception', False, cls='route:%s:%s' % ('+'.join(since[-3:]), phase),
                    detail='%s: %s' % (type(e).__name__, e), vector=vec)


def list_routes(ctx, nsim, nreplay):
    ctx.check_spec('list-routes', 'ListRoutes', 'MC_ListRoutes.cfg')
    # the count of components taken where the list is handed over (ctor / setter), not where it is used
    ctx.expect_refuted('list-routes-count-at-assignment', 'ListRoutes', 'MC_ListRoutes_assign.cfg', 'RouteFree')
    res = core.run_tlc('ListRoutes', 'SIM_ListRoutes.cfg', workers=1, simulate='num=%d' % nsim, depth=9, seed=ctx.seed + 5)
    ctx.add_tlc('simulate-list-routes', res, counts=False)
    behs, seen = [], set()
    for b in res.tagged('ROUTE'):
        if repr(b) not in seen:
            seen.add(repr(b))
            behs.append(b)
    want = {(op, ph) for op in ROUTE_OPS for ph in ('before-first-eval', 'between-evals')} - {('ctor', 'between-evals'), ('ctor0', 'between-evals')}
    want |= {(op, 'between-evals:after-empty-eval') for op in ('assign', 'append', 'extend', 'iadd')}
    chosen, covered = [], {}
    for b in behs:          # coverage first: every (route, phase) class at least three times, then fill up
        cl = route_classes(b['hist'])
        if any(covered.get(c, 0) < 3 for c in cl):
            chosen.append(b)
            for c in cl:
                covered[c] = covered.get(c, 0) + 1
    missing = want - set(covered)
    if missing:
        raise Machinery('TLC behaviours of ListRoutes never exercise %r' % (sorted(missing),))
    chosen += [b for b in behs if b not in chosen][:max(0, nreplay - len(chosen))]
    cache = {}
    for b in chosen:
        replay_routes(ctx, b, cache)
        ctx.traces += 1


def run(ctx):
    q = ctx.tier == 'quick'
    ctx.bounds = dict(layers='SourceLayers: 3 sources (2+2+1 components) x per-layer support {none, some}^%d x {xsec, ktables degenerate/generic} x all 6 list orders' % (2 if q else 3),
                      spec='4 contributions (2+2+2+1 components), <= %d parameter changes, all interleavings of the three public operations' % (3 if q else 5),
                      replay='%d TLC-simulated histories of depth 7 on a real 6-layer model' % (40 if q else 400),
                      abundance='mixing ratio 10^-e, e in {1,4,8,12,16,20}, one component (H2O | CH4 | N2 of H2-N2) at a time, uniform or in one block of layers',
                      routes='ListRoutes: 2 pairs, all lists without repetition, ctor/ctor0/assign/append/extend/iadd/remove; %d behaviours of depth 7 replayed' % (30 if q else 300))
    ctx.assumptions = ['fixture opacities are exact per layer (LayerOpacity/FixtureCIA)',
                       'a freshly built model at the current parameters is the reference for history independence',
                       'the reference for model_full_contrib() is a fresh model on which model() ran first (the flow of taurex.py)']
    ctx.check_spec('compose-repaired', 'MC_Compose', 'MC_Compose_%s.cfg' % ctx.tier)
    ctx.expect_refuted('compose-as-found', 'MC_Compose', 'MC_Compose_asbuilt.cfg', 'NoStaleRead')
    # design mutant: the source total aliases the (shared) component work array -> the sum read is the last component
    ctx.expect_refuted('compose-aliased-total', 'MC_Compose', 'MC_Compose_alias.cfg', 'NoStaleRead')
    # the two C03 invariants of the acc family (C01 checks the whole family; quick: on a bigger domain than this one)
    ctx.check_spec('product-rule', 'MC_Transmission', 'MC_Trans_acc_c03_%s.cfg' % ctx.tier, timeout=1800)
    vecs = spec_layers(ctx)
    install_fixtures()
    try:
        weighting(ctx)
        hazes(ctx)
        all_sources(ctx, 14 if q else 60, 4 if q else 30)
        all_sources(ctx, 10 if q else 40, 3 if q else 20, 'ktables', 'generic')
        if not q:
            all_sources(ctx, 30, 10, 'ktables', 'degenerate')
        layer_classes(ctx, vecs, 12 if q else None)
        abundance_classes(ctx, vecs, 8 if q else 200)
        list_routes(ctx, 300 if q else 1500, 30 if q else 300)
        res = core.run_tlc('MC_Compose', 'SIM_Compose.cfg', workers=1, simulate='num=%d' % (40 if q else 400),
                           depth=80, seed=ctx.seed + 1)
        ctx.add_tlc('simulate-behaviours', res, counts=False)
        behs = res.tagged('BEH')
        if len(behs) < (20 if q else 200):
            raise Machinery('TLC produced only %d behaviours' % len(behs))
        seen = set()
        for b in behs:
            k = repr(b)
            if k in seen:
                continue
            seen.add(k)
            replay_behaviour(ctx, b)
            ctx.traces += 1
        ctx.add_sample(dict(behaviour=behs[0]))
    finally:
        reset_caches()


def replay(ctx, violations):
    install_fixtures()
    try:
        done = set()
        for v in violations:
            vec = v['vector']
            if vec.get('layers'):
                k = repr((vec['a'], vec.get('e'), vec['mode'], vec['kname'], vec['third']))
                if k not in done:
                    done.add(k)
                    env = fxl.OpacityEnv()
                    try:
                        if vec.get('e'):
                            lc = fxa.AbundanceClass(vec['a'], vec['e'], vec['mode'], vec['kname'], vec['third'])
                            lc.enter(env)
                        else:
                            lc = fxl.LayerClass(vec['a'], vec['mode'], vec['kname'], vec['third'])
                            env.enter(vec['mode'], vec['kname'])
                        one_layer_class(ctx, lc)
                    finally:
                        env.leave()
                        install_fixtures()
            elif vec.get('routes'):
                k = repr(vec)
                if k not in done:
                    done.add(k)
                    replay_routes(ctx, dict(hist=vec['hist']), {})
            elif vec.get('full'):
                k = 'full' + str(vec.get('kname'))
                if k not in done:
                    done.add(k)
                    if vec.get('opacity') == 'ktables':
                        all_sources(ctx, 10, 3, 'ktables', vec['kname'])
                    else:
                        all_sources(ctx, 14, 4)
            elif 'hist' in vec:
                k = repr(vec)
                if k not in done:
                    done.add(k)
                    replay_behaviour(ctx, vec)
            else:
                weighting(ctx)
    finally:
        reset_caches()
