"""X01 -- whole-run validation of the forward-model pipeline protocol (spec growth, DESIGN section 5).

Not one of the listed properties: it extends the specification to the evaluation order of a
forward model (spec/Pipeline.tla) and validates real executions against it:
  * MC_Pipeline: the designed call order satisfies every guard for all sequences of public calls;
    three design mutants are refuted (non-vacuity of the guards);
  * recorded traces: harness-driven call sequences on real transmission / emission models, and the
    repository's own forward-model and optimizer tests executed under the recorder;
  * canary: a trace with one event removed must be rejected.
"""
import json
import os
import random
import subprocess
import sys
import tempfile

import numpy as np

from ..core import Machinery, validate_trace, VERIF, REPO
from .. import pipeline
from .. import retrieval_rec
from . import C03


def scenario_transmission(rng, n_ops):
    C03.install_fixtures()
    params = dict(cloudP=1e3, mix=1e-4, T=1000.0)
    m = C03.build_model(['abs', 'cia', 'ray', 'cloud'], params)
    grids = [None, C03.WN[1:4].copy(), C03.WN[2:5].copy()]
    ops = []
    for _ in range(n_ops):
        op = rng.choice(['set', 'model', 'model', 'contrib', 'fullc'])
        ops.append(op)
        if op == 'set':
            k = rng.choice(['clouds_pressure', 'H2O', 'T'])
            m[k] = {'clouds_pressure': rng.choice([1e2, 1e3, 1e4]), 'H2O': rng.choice([1e-5, 1e-4]),
                    'T': rng.choice([900.0, 1100.0])}[k]
        elif op == 'model':
            m.model(wngrid=rng.choice(grids))
        elif op == 'contrib':
            m.model_contrib(wngrid=rng.choice(grids))
        else:
            m.model_full_contrib(wngrid=rng.choice(grids))
    return ops


def scenario_emission(rng, n_ops):
    from taurex.model import EmissionModel
    from taurex.data.profiles.chemistry import TaurexChemistry, ConstantGas
    from taurex.data.profiles.temperature import Isothermal
    from taurex.contributions import AbsorptionContribution, RayleighContribution
    C03.install_fixtures()
    chem = TaurexChemistry(fill_gases=['H2', 'He'], ratio=0.17)
    chem.addGas(ConstantGas('H2O', mix_ratio=1e-4))
    m = EmissionModel(chemistry=chem, temperature_profile=Isothermal(T=1200.0), nlayers=5,
                      atm_min_pressure=1e0, atm_max_pressure=1e5)
    m.add_contribution(AbsorptionContribution())
    m.add_contribution(RayleighContribution())
    m.build()
    ops = []
    for _ in range(n_ops):
        op = rng.choice(['set', 'model', 'contrib'])
        ops.append(op)
        if op == 'set':
            m['T'] = rng.choice([900.0, 1500.0])
        elif op == 'model':
            m.model()
        else:
            m.model_contrib()
    return ops


def scenario_cli_retrieval(tmp, seed):
    """A complete `taurex -i file.par -R -o out.h5` run (nestle, a handful of live points) under the recorder:
    every likelihood evaluation, the post-processing at MAP / median, the error propagation over the samples
    and the stored contributions are forward-model evaluations that must follow the pipeline protocol."""
    import contextlib
    import io
    import sys
    import taurex.taurex as T
    from taurex.cache import OpacityCache
    from taurex.log import disableLogging
    from .C15 import xsec_dir
    xdir = xsec_dir(tmp)
    wl = np.linspace(5.5, 20.0, 9)
    obs = os.path.join(tmp, 'obs.dat')
    rs = np.random.RandomState(seed)
    with open(obs, 'w') as f:
        for x in wl:
            f.write('%.6f %.8e %.3e\n' % (x, 0.0105 + 1e-4 * rs.rand(), 5e-5))
    par = os.path.join(tmp, 'retrieval.par')
    with open(par, 'w') as f:
        f.write('\n'.join([
            '[Global]', 'xsec_path = %s' % xdir,
            '[Chemistry]', 'chemistry_type = taurex', 'fill_gases = H2, He', 'ratio = 0.17',
            '    [[H2O]]', '    gas_type = constant', '    mix_ratio = 1e-4',
            '[Temperature]', 'profile_type = isothermal', 'T = 1200',
            '[Pressure]', 'profile_type = simple', 'nlayers = 12', 'atm_min_pressure = 1e-1', 'atm_max_pressure = 1e6',
            '[Planet]', 'planet_type = simple', 'planet_mass = 1.0', 'planet_radius = 1.0',
            '[Star]', 'star_type = blackbody', 'temperature = 5500', 'radius = 1.0',
            '[Model]', 'model_type = transmission', '    [[Absorption]]', '    [[Rayleigh]]',
            '[Observation]', 'observed_spectrum = %s' % obs,
            '[Optimizer]', 'optimizer = nestle', 'num_live_points = 8', 'tol = 5.0',
            '[Fitting]', 'planet_radius:fit = True', 'planet_radius:bounds = 0.9, 1.1', 'T:fit = True', 'T:bounds = 800, 1600',
            'H2O:fit = False', '']))
    OpacityCache().clear_cache()
    argv = sys.argv
    sys.argv = ['taurex', '-i', par, '-R', '-o', os.path.join(tmp, 'out.h5'), '-C']
    buf = io.StringIO()
    try:
        with contextlib.redirect_stdout(buf), contextlib.redirect_stderr(buf):
            T.main()
    finally:
        sys.argv = argv
        disableLogging()
        OpacityCache().clear_cache()
    return ['cli-retrieval']


def run(ctx):
    q = ctx.tier == 'quick'
    ctx.bounds = dict(spec='2 grids, <=3 versions, <=5 public calls', traces='harness scenarios + repository tests under the recorder')
    ctx.check_spec('pipeline-design', 'MC_Pipeline', 'MC_Pipeline_asbuilt.cfg')
    for v in ('no_reinit', 'star_once', 'alt_before_chem'):
        ctx.expect_refuted('mutant-' + v, 'MC_Pipeline', 'MC_Pipeline_%s.cfg' % v, 'GuardsHold')
    pipeline.install()
    retrieval_rec.install()
    rng = random.Random(ctx.seed + 77)
    events, labels = [], {}
    retr_events = []
    try:
        for i in range(6 if q else 60):
            pipeline.start(i)
            ops = (scenario_transmission if i % 3 else scenario_emission)(rng, 8)
            evs = pipeline.stop()
            for e in evs:
                labels[e['tid']] = 'harness:%d:%s' % (i, ','.join(ops))
            events.extend(evs)
        import shutil
        for j in range(1 if q else 4):
            tmp = tempfile.mkdtemp(prefix='verifx01_')
            try:
                pipeline.start(1000 + j)
                retrieval_rec.start()
                ops = scenario_cli_retrieval(tmp, ctx.seed + j)
                evs = pipeline.stop()
                revs = retrieval_rec.stop()
                base_r = max([e['tid'] for e in retr_events] + [0])
                for e in revs:
                    e['tid'] += base_r
                retr_events.extend(revs)
            finally:
                shutil.rmtree(tmp, ignore_errors=True)
            if len(evs) < 200:
                raise Machinery('CLI retrieval recorded only %d pipeline events' % len(evs))
            for e in evs:
                labels[e['tid']] = 'cli:retrieval%d' % j
            events.extend(evs)
    finally:
        pipeline.stop()
        from ..fixtures import reset_caches
        reset_caches()
    # the repository's own tests under the recorder
    fd, out = tempfile.mkstemp(prefix='verifpipe_', suffix='.ndjson')
    os.close(fd)
    tests = ['tests/benchmark/test_forward_model.py', 'tests/optimizer/test_optimizer.py']
    if not q:
        tests.append('tests/optimizer/test_nestle.py')
    env = dict(os.environ, PIPELINE_OUT=out, PYTHONPATH=VERIF + os.pathsep + os.environ.get('PYTHONPATH', ''))
    p = subprocess.run([sys.executable, '-W', 'ignore', '-m', 'pytest', '-q', '-p', 'no:cacheprovider', '-p', 'harness.pytest_pipeline',
                        '--benchmark-disable'] + tests, cwd=os.environ.get('TAUREX_SRC') or REPO, env=env,
                       stdout=subprocess.PIPE, stderr=subprocess.STDOUT, text=True, timeout=1800)
    base = max([e['tid'] for e in events] + [0])
    ntest = 0
    with open(out) as f:
        for line in f:
            e = json.loads(line)
            e['tid'] += base
            labels[e['tid']] = 'test:' + e.pop('test')
            events.append(e)
            ntest += 1
    os.unlink(out)
    if ntest == 0:
        raise Machinery('no pipeline events recorded from the repository tests:\n' + p.stdout[-1500:])
    for i, e in enumerate(events):
        e['seq'] = i
    tl = pipeline.for_tlc(events)
    accepted, bad, res = validate_trace('Trace_Pipeline', 'Trace_Pipeline.cfg', tl, timeout=1800)
    ctx.add_tlc('trace-pipeline', res, counts=False)
    if res.postcondition_false and not bad:
        raise Machinery('pipeline trace not fully consumed:\n' + res.out[-1500:])
    badt = {b['tid']: b for b in bad}
    tids = sorted({e['tid'] for e in tl})
    ctx.traces += len(tids)
    for t in tids:
        b = badt.get(t)
        ctx.verdict('pipeline_protocol', b is None, cls=labels.get(t, '?').split(':')[0] + (':' + b['ev'] if b else ''),
                    detail='rejected at event %r of %s' % (b, labels.get(t)), vector=dict(trace=labels.get(t)))
    ctx.note('%d events in %d traces (%d events from repository tests)' % (len(tl), len(tids), ntest))
    ctx.add_sample(dict(trace_head=[e for e in tl if e['tid'] == tids[0]][:14]))
    # canary: drop the chemistry evaluation of one accepted model() round
    good = [t for t in tids if t not in badt]
    for t in good:
        tr = [e for e in tl if e['tid'] == t]
        idx = []
        dirty = False
        for i, e in enumerate(tr):          # a chemistry evaluation that follows a parameter change
            if e['ev'] == 'setparam':
                dirty = True
            elif e['ev'] == 'chem':
                if dirty:
                    idx.append(i)
                dirty = False
        if idx:
            del tr[idx[-1]]
            ok2, bad2, _ = validate_trace('Trace_Pipeline', 'Trace_Pipeline.cfg', tr)
            if ok2 or not bad2:
                raise Machinery('canary accepted: pipeline trace validation is vacuous')
            break
    else:
        if not ctx.has_violations():
            raise Machinery('no trace available for the canary')
    validate_retrievals(ctx, retr_events)


def validate_retrievals(ctx, retr_events):
    ctx.check_spec('retrieval-design', 'MC_Retrieval', 'MC_Retrieval_asbuilt.cfg')
    for v in ('like_no_update', 'profiles_no_model', 'spectra_before_model'):
        ctx.expect_refuted('retrieval-mutant-' + v, 'MC_Retrieval', 'MC_Retrieval_%s.cfg' % v, 'GuardsHold')
    if not retr_events:
        raise Machinery('no retrieval events recorded')
    tl = retrieval_rec.for_tlc(retr_events)
    nlike = sum(1 for e in tl if e['ev'] == 'like_end')
    if nlike < 20 or not any(e['ev'] == 'profiles' for e in tl) or not any(e['ev'] == 'spectra_store' for e in tl):
        raise Machinery('retrieval trace incomplete: %d likelihood evaluations' % nlike)
    ok, bad, res = validate_trace('Trace_Retrieval', 'Trace_Retrieval.cfg', tl, timeout=1800)
    ctx.add_tlc('trace-retrieval', res, counts=False)
    if res.postcondition_false and not bad:
        raise Machinery('retrieval trace not fully consumed:\n' + res.out[-1500:])
    badt = {b['tid']: b for b in bad}
    tids = sorted({e['tid'] for e in tl})
    ctx.traces += len(tids)
    for t in tids:
        b = badt.get(t)
        ctx.verdict('retrieval_protocol', b is None, cls='cli-retrieval' + (':' + b['ev'] if b else ''),
                    detail='rejected at %r' % (b,), vector=dict(trace='cli-retrieval'))
    ctx.note('retrieval protocol: %d events, %d likelihood evaluations (%d non-finite) in %d retrievals' % (
        len(tl), nlike, sum(1 for e in tl if e['ev'] == 'like_end' and not e['finite']), len(tids)))
    ctx.add_sample(dict(retrieval_trace_head=tl[:12]))
    # canary: drop the model evaluation that follows the last parameter write before 'profiles'
    good = [t for t in tids if t not in badt]
    for t in good:
        tr = [e for e in tl if e['tid'] == t]
        ip = max(i for i, e in enumerate(tr) if e['ev'] == 'profiles')
        im = max(i for i, e in enumerate(tr[:ip]) if e['ev'] == 'model')
        iu = max(i for i, e in enumerate(tr[:ip]) if e['ev'] == 'update')
        if im > iu:
            del tr[im]
            ok2, bad2, _ = validate_trace('Trace_Retrieval', 'Trace_Retrieval.cfg', tr)
            if ok2 or not bad2:
                raise Machinery('canary accepted: retrieval trace validation is vacuous')
            break


def replay(ctx, violations):
    run(ctx)
