"""C14 -- opacity / CIA / k-table files of every supported format load to the same physical table;
the caches load once, serve the same object, and interpolation-mode changes take effect.

Spec: spec/OpacityCache.tla (cache protocol: SetPath, SetInterpolation, SetMemoryMode, Get, AddOpacity, Clear;
      invariants LoadedOncePerEpoch, SameObjectServed, ModeTakesEffect, TableFromItsPath, LoadFromConfiguredPath),
      spec/OpacityFiles.tla (unit tags, Sanitise), spec/MC_OpacityCache.tla, spec/MC_OpacityName.tla.
Design level: exhaustive TLC over 2 paths x 2 molecules x 2 modes for the three singletons (xsec, ktable, cia),
      expected-counterexample variants (no clear on mode change, discover hands the default mode, load not stored).
Binding C: every history of 4 actions (exhaustive) and sampled histories of 12 actions (TLC -simulate) replayed
      on the real OpacityCache / KTableCache / CIACache with temporary directories; after every action the
      served object (identity), the result, the cached molecules with mode / table / source path, and the
      number of file loads are compared with the specification's state.
Binding A: names (TLC-exported Sanitise vectors -> sanitize_molecule_string and names of discovered files);
      one abstract table written in every container with the unit factors exported by TLC, loaded through
      the real caches and compared with the in-memory fixture and the table itself.
Declared units (spec/OpacityFiles.tla unit table = base unit -> exact rational factor x SI prefix, spec/MC_OpacityUnits.tla):
      every container that declares its pressure unit (HDF5 cross-sections, HDF5 k-tables) x every prefixed unit astropy
      accepts x storage of the attribute (str / bytes) x pressure grid; the file stores the specification's numbers and
      must load to the SI grid and the in-memory table's cross-sections.
HITRAN files (spec/HitranCia.tla, MC_HitranCia.tla): a .cia file is a sequence of distinct (band, temperature) blocks
      (actions Write / CloseFile: any order, interleaved bands, gaps); the physical table is a function of the block SET
      (coefficient vectors, exact rationals).  TLC checks a transcription of the reading algorithm against it
      (refuted without the sort before filling, with running bounds, with held edges), exports every file over
      2 bands x 3 temperatures and simulates files over 3 bands x 4 temperatures; each is written as HITRAN text and
      as a pickle of the physical table, loaded through CIACache and compared at nodes, between nodes and off-grid.
Exo-Transmit files (spec/ExoTransmitFile.tla, MC_ExoTransmitFile.tla): the one cross-section container whose reader re-orders an
      axis (tabulated against wavelength, served on ascending wavenumber).  A file is a sequence of distinct wavelength blocks
      (actions WriteBlock / CloseExo: any order -- ascending wavelength, ascending wavenumber, appended chunks, shuffled -- and any
      subset); the physical table is a function of the block SET.  TLC checks a transcription of the re-ordering against it
      (refuted for "flip the axis", "sort the grid only" and "inverse permutation"), exports every file over 5 (6) candidate wavelengths and
      simulates files over 8; each is written in exactly that block order (table shape 2..4 pressures x 2..4 temperatures) and
      as a pickle of the physical table, both loaded through OpacityCache and compared: grids, table, opacity(T, P) at nodes and
      between, opacity(T, P, requested grid).
Related molecule names (spec/CacheNames.tla, MC_CacheNames.tla; harness/fx_cachenames.py): three molecules whose NAMES are related by
      "is a substring of" (H2 / H2O / H2O2, C / CO / CO2, O / O2 / CO2, O / O2 / O3, He-H / He-H2 / He-H2O ...) in one directory,
      histories of Request(m) / SetPath(p) / Clear on the long-lived singleton.  Invariants NothingElseEnters,
      ServedFromFirstRequestPath (ghost first[m] = path in force when m was first requested), OnlyTheRequestedChanges; the variant
      "the request is matched as a substring filter" is refuted.  Every history of 4 (5) actions + simulated ones of 10 is replayed on
      OpacityCache / KTableCache / CIACache under every permutation of every name family (rotating), the path set through the setter or
      the GlobalCache key, p1 = pickle files, p2 = HDF5 / HITRAN files: result, served table and directory, identity, the complete
      contents of opacity_dict / cia_dict after every step, file loads.
"""
import os
import random
import shutil
import tempfile
import zlib
from fractions import Fraction

import numpy as np

from ..core import Machinery, close, frac, run_tlc
from ..fixtures import GridOpacity, GridKTable
from .. import fx_files as fx
from .. import fx_exofile
from .. import fx_hitranfile
from .. import fx_cachenames

REL = 1e-12
MOL = {'A': 'H2O', 'B': 'CH4'}
PAIR = {'A': 'H2-H2', 'B': 'H2-He'}
WN = np.array([100.0, 150.0, 200.0, 250.0, 300.0, 400.0])
TEMPS = np.array([300.0, 600.0, 1200.0])
PRESS = np.array([1e2, 1e4, 1e6])          # Pa
WEIGHTS = np.array([0.25, 0.5, 0.25])


def fac(x):
    """<<mantissa, exponent10>> exported by TLC -> Fraction."""
    m, e = int(x[0]), int(x[1])
    return Fraction(m) * (Fraction(10) ** e)


# ----------------------------------------------------------------------------
# global state hygiene
# ----------------------------------------------------------------------------

KEYS = ('xsec_path', 'xsec_interpolation', 'xsec_in_memory', 'ktable_path', 'opacity_method', 'cia_path')


class CacheSandbox:
    """Saves GlobalCache settings and cache contents, restores them afterwards."""

    def __enter__(self):
        from taurex.cache import OpacityCache, CIACache, GlobalCache
        from taurex.cache.ktablecache import KTableCache
        self.gc = GlobalCache()
        self.saved = dict(self.gc.variable_dict)
        self.saved_cia_path = CIACache()._cia_path
        shm = '/dev/shm'                              # thousands of small files are written: a memory file system when there is one
        self.root = tempfile.mkdtemp(prefix='verif_c14_', dir=shm if os.path.isdir(shm) and os.access(shm, os.W_OK) else None)
        self.reset()
        return self

    def reset(self):
        from taurex.cache import OpacityCache, CIACache
        from taurex.cache.ktablecache import KTableCache
        for k in KEYS:
            self.gc.variable_dict.pop(k, None)
        OpacityCache().clear_cache()
        KTableCache().clear_cache()
        CIACache().cia_dict = {}
        CIACache()._cia_path = None

    def __exit__(self, *a):
        from taurex.cache import CIACache
        self.reset()
        self.gc.variable_dict.clear()
        self.gc.variable_dict.update(self.saved)
        CIACache()._cia_path = self.saved_cia_path
        from taurex.cache.ktablecache import KTableCache
        KTableCache().clear_cache()
        shutil.rmtree(self.root, ignore_errors=True)

    def mkdir(self, name):
        p = os.path.join(self.root, name)
        os.makedirs(p, exist_ok=True)
        return p


# ----------------------------------------------------------------------------
# tables
# ----------------------------------------------------------------------------

def table_for(tid, shape):
    """Deterministic table whose every entry identifies the table id; entries k/64 * 1e-20 (exact in binary)."""
    n = int(np.prod(shape))
    base = (np.arange(n) * 37 % 101 + 1 + 128 * tid) / 64.0
    return (base * 1e-20).reshape(shape)


def table_id(value):
    return int(round(float(value) / 1e-20 * 64.0)) // 128


def random_table(rng, shape, scale=1e-20):
    n = int(np.prod(shape))
    return (np.array([rng.randint(1, 6400) for _ in range(n)]) / 64.0 * scale).reshape(shape)


# ----------------------------------------------------------------------------
# binding A: names
# ----------------------------------------------------------------------------

def run_names(ctx, sb, names):
    from taurex.util.util import sanitize_molecule_string
    from taurex.cache import OpacityCache
    from taurex.cache.ktablecache import KTableCache
    for v in names:
        raw, exp = ''.join(v['name']), ''.join(v['out'])
        got = sanitize_molecule_string(raw)
        ctx.verdict('name_is_sanitised', got == exp, cls='name:function', detail='%r -> %r, expected %r' % (raw, got, exp), vector=dict(v, kind='name'))
    # names through discovery, for the documented file-name patterns
    x = table_for(1, (3, 3, len(WN)))
    k = np.stack([x, 2 * x, 3 * x], axis=-1)
    done = 0
    for v in names:
        raw, exp = ''.join(v['name']), ''.join(v['out'])
        if not exp or '_' in raw or len(raw) < 2 or (done >= 40 and len(raw) <= 4):
            continue
        if any(ch in raw for ch in '/\\'):
            continue
        done += 1
        d = sb.mkdir('name_%d' % done)
        vec = dict(v, kind='name-file')
        # cross-section pickle:  <name>.R100.TauREx.pickle
        fx.write_pickle_opacity(d, raw + '.R100.TauREx', WN, TEMPS, PRESS, x)
        sb.reset()
        OpacityCache().set_opacity_path(d)
        try:
            obj = OpacityCache()[exp]
            ok = obj.moleculeName == exp and exp in OpacityCache().find_list_of_molecules()
            det = 'served name %r' % obj.moleculeName
        except Exception as e:
            ok, det = False, 'file %r not served as %r: %r' % (raw + '.R100.TauREx.pickle', exp, e)
        ctx.verdict('name_is_sanitised', ok, cls='name:pickle-file', detail=det, vector=vec)
        # k-table HDF5:  <name>_R100.ktable.h5
        dk = sb.mkdir('kname_%d' % done)
        fx.write_hdf5_ktable(dk, raw + '_R100.ktable', WN, TEMPS, PRESS, k, WEIGHTS)
        sb.reset()
        KTableCache().set_ktable_path(dk)
        KTableCache().clear_cache()
        try:
            obj = KTableCache()[exp]
            ok, det = obj.moleculeName == exp, 'served name %r' % obj.moleculeName
        except Exception as e:
            ok, det = False, 'k-table %r not served as %r: %r' % (raw + '_R100.ktable.h5', exp, e)
        ctx.verdict('name_is_sanitised', ok, cls='name:ktable-hdf5-file', detail=det, vector=vec)
    sb.reset()
    return done


# ----------------------------------------------------------------------------
# binding A: one table, every container
# ----------------------------------------------------------------------------

QUERIES = [(300.0, 1e2), (600.0, 1e4), (1200.0, 1e6), (450.0, 1e3), (900.0, 1e5), (1000.0, 3e2), (310.0, 9e5)]


def compare_opacity(ctx, obj, ref, table, press, cls, vec, clause='same_table_all_formats', queries=None):
    det = []
    ok = True
    for name, a, b in (('wavenumberGrid', obj.wavenumberGrid, ref.wavenumberGrid), ('temperatureGrid', obj.temperatureGrid, ref.temperatureGrid),
                       ('pressureGrid', obj.pressureGrid, press)):
        a, b = np.asarray(a, dtype=float), np.asarray(b, dtype=float)
        if a.shape != b.shape or not np.allclose(a, b, rtol=REL, atol=0):
            ok = False
            det.append('%s %r != %r' % (name, a.tolist(), b.tolist()))
    g = np.asarray(obj.xsecGrid[...], dtype=float)
    if g.shape != table.shape or not np.allclose(g, table, rtol=REL, atol=1e-55):
        ok = False
        det.append('xsecGrid differs from the table (shape %r vs %r)' % (g.shape, table.shape))
    ctx.verdict(clause, ok, cls=cls + ':grids', detail='; '.join(det)[:400], vector=vec)
    for T, P in (queries or QUERIES):
        a = np.asarray(obj.opacity(T, P), dtype=float)
        b = np.asarray(ref.opacity(T, P), dtype=float)
        good = a.shape == b.shape and np.allclose(a, b, rtol=1e-11, atol=1e-55)
        ctx.verdict(clause, good, cls=cls + ':opacity', detail='opacity(%g K, %g Pa) = %r, in-memory table gives %r' % (T, P, a.ravel()[:4].tolist(), b.ravel()[:4].tolist()),
                    vector=dict(vec, T=T, P=P))


def run_formats(ctx, sb, units, rounds):
    from taurex.cache import OpacityCache, CIACache
    from taurex.cache.ktablecache import KTableCache
    rng = random.Random(ctx.seed * 31 + 14)
    bar = fac(units['bar'])
    n = 0
    for r in range(rounds):
        mode = ['linear', 'exp'][r % 2]
        x = random_table(rng, (len(PRESS), len(TEMPS), len(WN)))
        vec0 = dict(kind='format', round=r, mode=mode, seed=ctx.seed)
        ref = GridOpacity('H2O', WN, TEMPS, PRESS, x, mode)
        cases = [('pickle:bar', lambda d: fx.write_pickle_opacity(d, 'H2O.R100.TauREx', WN, TEMPS, PRESS, x, bar_factor=float(bar)))]
        for u in ('bar', 'Pa', 'atm', 'mbar'):
            cases.append(('hdf5:' + u, lambda d, u=u: fx.write_hdf5_opacity(d, 'H2O_verif', 'H2O', WN, TEMPS, PRESS, x, unit=u, unit_factor=float(fac(units[u])),
                                                                           ext='.h5' if u != 'Pa' else '.hdf5', name_as=['bytes', 'array', 'str'][r % 3])))
        cases.append(('exotransmit:bar', lambda d: fx.write_exotransmit(d, 'H2O', WN, TEMPS, PRESS, x, bar_factor=float(bar),
                                                                          order=['wavelength', 'wavenumber'][r % 2])))
        for cls, writer in cases:
            d = sb.mkdir('fmt_%d_%s' % (r, cls.replace(':', '_')))
            writer(d)
            sb.reset()
            OpacityCache().set_opacity_path(d)
            OpacityCache().set_interpolation(mode)
            try:
                obj = OpacityCache()['H2O']
            except Exception as e:
                ctx.verdict('same_table_all_formats', False, cls='xsec:' + cls, detail='not loadable through the cache: %r' % (e,), vector=dict(vec0, fmt=cls))
                continue
            ctx.verdict('name_is_sanitised', obj.moleculeName == 'H2O', cls='name:' + cls, detail='name %r' % (obj.moleculeName,), vector=dict(vec0, fmt=cls))
            ctx.verdict('mode_takes_effect', obj._interp_mode == mode, cls='format:' + cls, detail='mode %r, configured %r' % (obj._interp_mode, mode), vector=dict(vec0, fmt=cls))
            compare_opacity(ctx, obj, ref, x, PRESS, 'xsec:' + cls, dict(vec0, fmt=cls))
            n += 1
            sb.reset()
        # ---- k-tables
        kc = random_table(rng, (len(PRESS), len(TEMPS), len(WN), len(WEIGHTS)))
        kref = GridKTable('H2O', WN, TEMPS, PRESS, kc, WEIGHTS, mode)
        kcases = [('ktable-pickle:bar', lambda d: fx.write_pickle_ktable(d, 'H2O.R100.ktable', 'H2O', WN, TEMPS, PRESS, kc, WEIGHTS, bar_factor=float(bar)))]
        for u in ('bar', 'Pa', 'atm'):
            kcases.append(('ktable-hdf5:' + u, lambda d, u=u: fx.write_hdf5_ktable(d, 'H2O_R100.ktable', WN, TEMPS, PRESS, kc, WEIGHTS, unit=u,
                                                                                   unit_factor=float(fac(units[u])), ext='.h5' if u != 'Pa' else '.hdf5')))
        for cls, writer in kcases:
            d = sb.mkdir('kfmt_%d_%s' % (r, cls.replace(':', '_')))
            writer(d)
            sb.reset()
            sb.gc['xsec_interpolation'] = mode
            KTableCache().set_ktable_path(d)
            KTableCache().clear_cache()
            try:
                obj = KTableCache()['H2O']
            except Exception as e:
                ctx.verdict('same_table_all_formats', False, cls=cls, detail='not loadable through the cache: %r' % (e,), vector=dict(vec0, fmt=cls))
                continue
            ok = np.allclose(np.asarray(obj.weights, dtype=float), WEIGHTS, rtol=REL, atol=0)
            ctx.verdict('same_table_all_formats', ok, cls=cls + ':weights', detail='weights %r' % (np.asarray(obj.weights).tolist(),), vector=dict(vec0, fmt=cls))
            ctx.verdict('mode_takes_effect', obj._interp_mode == mode, cls='format:' + cls, detail='mode %r, configured %r' % (obj._interp_mode, mode), vector=dict(vec0, fmt=cls))
            compare_opacity(ctx, obj, kref, kc, PRESS, cls, dict(vec0, fmt=cls))
            n += 1
            sb.reset()
        # ---- CIA: HITRAN text with per-temperature wavenumber ranges against the completed table in a pickle
        n += run_cia_formats(ctx, sb, rng, units, r)
    return n


def hitran_value(rng):
    """SI value whose HITRAN representation (x 1e10, %10.3E) is exact: k.kkk x 10^e."""
    k = rng.randint(1000, 9999)
    e = rng.randint(-48, -44)
    return Fraction(k, 1000) * Fraction(10) ** e


def run_cia_formats(ctx, sb, rng, units, r):
    from taurex.cache import CIACache
    scale = 1 / fac(units['hitran'])
    temps = [200.0, 400.0, 1000.0]
    ranges = [[20.0, 40.0, 60.0, 80.0], [100.0, 120.5, 140.25], [200.0, 210.0, 220.0, 230.0, 240.0]]
    present = [[0, 1, 2], [0, 2], [1]]           # temperatures given for each wavenumber range
    given = {}
    blocks = []
    order = [(g, t) for g in range(3) for t in present[g]]
    rng.shuffle(order) if r % 2 else None
    for g, t in order:
        vals = [hitran_value(rng) for _ in ranges[g]]
        given[(g, t)] = vals
        blocks.append((temps[t], ranges[g], [float(v) for v in vals]))
    # the completed table (documented behaviour: linear in T inside a range's temperatures, zero outside): exact rationals
    wn_all = [w for g in range(3) for w in ranges[g]]
    full = []
    for t in range(3):
        row = []
        for g in range(3):
            have = present[g]
            if t in have:
                row += given[(g, t)]
            elif t < min(have) or t > max(have):
                row += [Fraction(0)] * len(ranges[g])
            else:
                lo = max(h for h in have if h < t)
                hi = min(h for h in have if h > t)
                w = Fraction(temps[t] - temps[lo]) / Fraction(temps[hi] - temps[lo])
                row += [a + w * (b - a) for a, b in zip(given[(g, lo)], given[(g, hi)])]
        full.append(row)
    table = np.array([[float(v) for v in row] for row in full])
    d1, d2 = sb.mkdir('cia_%d_pickle' % r), sb.mkdir('cia_%d_hitran' % r)
    fx.write_pickle_cia(d1, 'H2-H2', wn_all, temps, table)
    fx.write_hitran_cia(d2, 'H2-H2', blocks, scale=float(scale))
    objs = {}
    vec = dict(kind='cia-format', round=r, seed=ctx.seed)
    for cls, d in (('cia-pickle', d1), ('cia-hitran', d2)):
        sb.reset()
        CIACache().set_cia_path(d)
        try:
            objs[cls] = CIACache()['H2-H2']
        except Exception as e:
            ctx.verdict('same_table_all_formats', False, cls=cls, detail='not loadable through the cache: %r' % (e,), vector=vec)
    sb.reset()
    if len(objs) < 2:
        return 0
    grid = np.array(wn_all + [30.0, 110.0, 235.0])
    for cls, obj in objs.items():
        ok = np.allclose(np.asarray(obj.wavenumberGrid, dtype=float), np.array(wn_all), rtol=REL, atol=0) and \
            np.allclose(np.asarray(obj.temperatureGrid, dtype=float), np.array(temps), rtol=REL, atol=0)
        ctx.verdict('same_table_all_formats', ok and obj.pairName == 'H2-H2', cls=cls + ':grids',
                    detail='wn %r T %r pair %r' % (np.asarray(obj.wavenumberGrid).tolist(), np.asarray(obj.temperatureGrid).tolist(), obj.pairName), vector=vec)
        for ti, T in enumerate(temps):
            got = np.asarray(obj.cia(T), dtype=float)
            ctx.verdict('same_table_all_formats', got.shape == table[ti].shape and np.allclose(got, table[ti], rtol=1e-11, atol=1e-70), cls=cls + ':node',
                        detail='cia(%g K) = %r expected %r' % (T, got.tolist()[:5], table[ti].tolist()[:5]), vector=dict(vec, T=T))
    for T in (200.0, 300.0, 400.0, 700.0, 1000.0, 150.0, 1500.0):
        a = np.asarray(objs['cia-pickle'].cia(T, grid), dtype=float)
        b = np.asarray(objs['cia-hitran'].cia(T, grid), dtype=float)
        ctx.verdict('same_table_all_formats', a.shape == b.shape and np.allclose(a, b, rtol=1e-11, atol=1e-70), cls='cia:pickle-vs-hitran',
                    detail='cia(%g K, grid): pickle %r hitran %r' % (T, a.tolist()[:5], b.tolist()[:5]), vector=dict(vec, T=T))
    return 2


# ----------------------------------------------------------------------------
# binding A: declared pressure units (spec/OpacityFiles.tla unit table, spec/MC_OpacityUnits.tla)
# ----------------------------------------------------------------------------

REQUIRED_UNITS = ('Pa', 'hPa', 'kPa', 'MPa', 'bar', 'mbar', 'ubar', 'dbar', 'kbar', 'atm', 'Torr', 'mTorr', 'torr', 'Ba', 'dyn/cm2', 'N/m2')


def tri(x):
    """<<num, den, exponent10>> exported by TLC -> Fraction."""
    return Fraction(int(x[0]), int(x[1])) * Fraction(10) ** int(x[2])


def admissible_unit(name):
    """A spelling is a legal declaration when astropy parses it (default or CDS format, the two the readers try) as a
    pressure.  Returns astropy's factor to Pa (only used to cross-check the specification's table) or None."""
    import astropy.units as u
    for fmt in (None, 'cds'):
        try:
            un = u.Unit(name) if fmt is None else u.Unit(name, format=fmt)
            return float(un.to(u.Pa))
        except Exception:
            continue
    return None


def unit_queries(si):
    p0, p1, p2 = [float(p) for p in si]
    return [(300.0, p0), (600.0, p1), (1200.0, p2), (450.0, (p0 * p1) ** 0.5), (900.0, (p1 * p2) ** 0.5), (1000.0, 3 * p0), (310.0, 0.9 * p2)]


class QuietUnitErrors:
    """astropy builds a 'did you mean ...' suggestion (difflib over every known unit, ~25 ms) into the message of every
    failed parse; the readers fall back to the CDS format after such a failure.  Only the message text is stubbed."""

    def __enter__(self):
        import astropy.units.format.base as b
        self.mod, self.orig = b, b.did_you_mean
        b.did_you_mean = lambda *a, **k: ''

    def __exit__(self, *a):
        self.mod.did_you_mean = self.orig


def run_units(ctx, sb, uvecs):
    with QuietUnitErrors():
        return _run_units(ctx, sb, uvecs)


def _run_units(ctx, sb, uvecs):
    """Every container that declares its pressure unit x every prefixed unit of the specification's table that astropy
    accepts: the file stores the numbers the specification gives (SI grid / exact factor) and must load to the SI grid
    and to the cross-sections of the in-memory table on that grid."""
    from taurex.cache import OpacityCache
    from taurex.cache.ktablecache import KTableCache
    rng = random.Random(ctx.seed * 101 + 14)
    x = random_table(rng, (3, len(TEMPS), len(WN)))
    kc = random_table(rng, (3, len(TEMPS), len(WN), len(WEIGHTS)))
    admitted = {}
    for v in uvecs:
        name = v['unit']
        if name in admitted:
            continue
        a = admitted[name] = admissible_unit(name)
        if a is not None and not close(a, tri(v['factor']), rel=1e-12):
            raise Machinery('unit table of the specification and astropy disagree on %r: %r vs %r' % (name, tri(v['factor']), a))
    if not ctx.replay_mode:
        missing = [u for u in REQUIRED_UNITS if admitted.get(u) is None]
        if missing:
            raise Machinery('pressure units not exported by the specification or not accepted by astropy: %r' % (missing,))
    n = 0
    for i, v in enumerate(uvecs):
        name = v['unit']
        if admitted[name] is None:
            continue
        si = np.array([float(fac(p)) for p in v['si']])
        stored = [float(tri(p)) for p in v['stored']]
        h = zlib.crc32(repr((v['cont'], name, v['attr'], v['gid'])).encode())     # stable choice of the incidental settings (replayable)
        mode = ['linear', 'exp'][h % 2]
        vec = dict(v, kind='unit', mode=mode, seed=ctx.seed)
        d = sb.mkdir('unit_%d' % i)
        sb.reset()
        suffix = '' if v['attr'] == 'str' else ':attr-' + v['attr']
        if v['cont'] == 'hdf5-xsec':
            cls = 'xsec:hdf5:' + name + suffix
            fx.write_hdf5_opacity(d, 'H2O_verif', 'H2O', WN, TEMPS, si, x, unit=name, stored_p=stored, unit_as=v['attr'],
                                  ext=['.h5', '.hdf5'][(h // 2) % 2], name_as=['bytes', 'array', 'str'][(h // 4) % 3])
            ref = GridOpacity('H2O', WN, TEMPS, si, x, mode)
            table = x
            OpacityCache().set_opacity_path(d)
            OpacityCache().set_interpolation(mode)
            get = lambda: OpacityCache()['H2O']
        elif v['cont'] == 'hdf5-ktable':
            cls = 'ktable-hdf5:' + name + suffix
            fx.write_hdf5_ktable(d, 'H2O_R100.ktable', WN, TEMPS, si, kc, WEIGHTS, unit=name, stored_p=stored, unit_as=v['attr'],
                                 ext=['.h5', '.hdf5'][(h // 2) % 2])
            ref = GridKTable('H2O', WN, TEMPS, si, kc, WEIGHTS, mode)
            table = kc
            sb.gc['xsec_interpolation'] = mode
            KTableCache().set_ktable_path(d)
            KTableCache().clear_cache()
            get = lambda: KTableCache()['H2O']
        else:
            raise Machinery('unknown container %r in the unit export' % (v['cont'],))
        try:
            obj = get()
        except Exception as e:
            ctx.verdict('same_table_all_formats', False, cls=cls, detail='declared unit %r: not loadable through the cache: %r' % (name, e), vector=vec)
            continue
        try:
            compare_opacity(ctx, obj, ref, table, si, cls, vec, queries=unit_queries(si))
        except Exception as e:
            ctx.verdict('same_table_all_formats', False, cls=cls, detail='declared unit %r: evaluation failed: %r' % (name, e), vector=vec)
        n += 1
        shutil.rmtree(d, ignore_errors=True)
    sb.reset()
    return n, sorted(k for k, a in admitted.items() if a is not None)


# ----------------------------------------------------------------------------
# binding A/C: HITRAN files as sets of blocks written in any order (spec/HitranCia.tla)
# ----------------------------------------------------------------------------

BAND_WN = {1: [20.0, 40.0, 60.0, 80.0], 2: [100.0, 120.5, 140.25], 3: [200.0, 210.0, 220.0, 230.0, 240.0]}


def hitran_class(v):
    """Input class of a file: how its blocks are ordered, and where bands are missing on the master temperature grid."""
    per = {}
    for b, t in v['file']:
        per.setdefault(b, []).append(t)
    seq = [b for b, _ in v['file']]
    runs = sum(1 for i in range(len(seq)) if i == 0 or seq[i] != seq[i - 1])
    order = 'band-unsorted' if any(l != sorted(l) for l in per.values()) else 'ascending'
    if runs > len(per):
        order += '+interleaved'
    gaps = set()
    for l in per.values():
        below = [t for t in v['master'] if t < min(l)]
        if below:
            gaps.add('below2' if len(below) >= 2 else 'below')
        if any(t > max(l) for t in v['master']):
            gaps.add('above')
        if any(min(l) < t < max(l) and t not in l for t in v['master']):
            gaps.add('inside')
    lays = sorted(set(v.get('layouts') or ['k']))
    # record layouts of the blocks (spec/HitranCia.tla Layouts); files written in the plain layout only keep their class
    return order + ':' + ('+'.join(sorted(gaps)) or 'complete') + ('' if lays == ['k'] else ':lay=' + ','.join(lays))


def run_hitran(ctx, sb, vecs, units, tag):
    """Each vector is a file (sequence of (band, temperature) blocks as TLC wrote them) with the specification's physical
    table as coefficient vectors.  The file is written as HITRAN text in that order, the physical table as a pickle; both
    are loaded through the real CIACache and must be the same function of (T, wavenumber).  Every block is written in the
    record layout the specification chose for it (two / three data columns, short / full header: fx_hitranfile); the
    uncertainty column holds values of its own.  Files with another layout than the plain one are also read through the
    public constructor HitranCIA(filename) directly."""
    from taurex.cache import CIACache
    scale = 1 / fac(units['hitran'])
    d1, d2 = sb.mkdir('hitran_%s_pickle' % tag), sb.mkdir('hitran_%s_text' % tag)
    for v in vecs:
        temps, master, bands = v['temps'], v['master'], v['bands']
        rng = random.Random('%d:%r' % (ctx.seed, v['file']))
        vals = {(b, t): [hitran_value(rng) for _ in BAND_WN[b]] for b, t in v['file']}
        layouts = list(v.get('layouts') or ['k'] * len(v['file']))
        if len(layouts) != len(v['file']) or any(l not in fx_hitranfile.LAYOUTS for l in layouts):
            raise Machinery('HITRAN export: layouts %r do not match the file %r' % (layouts, v['file']))
        erng = random.Random('err:%d:%r' % (ctx.seed, v['file']))
        errs = {(b, t): [hitran_value(erng) / 8 for _ in BAND_WN[b]] for b, t in v['file']}     # the uncertainty column has values of its own
        blocks = [(float(temps[t - 1]), BAND_WN[b], [float(q) for q in vals[(b, t)]], [float(q) for q in errs[(b, t)]], lay)
                  for (b, t), lay in zip(v['file'], layouts)]
        wn_all = [w for b in bands for w in BAND_WN[b]]
        full = []
        for k in range(len(master)):
            row = []
            for j, b in enumerate(bands):
                coef = [(i + 1, frac(c)) for i, c in enumerate(v['table'][k][j]) if frac(c) != 0]
                for p in range(len(BAND_WN[b])):
                    row.append(sum((c * vals[(b, t)][p] for t, c in coef), Fraction(0)))
            full.append(row)
        mtemps = [float(temps[t - 1]) for t in master]
        table = np.array([[float(q) for q in row] for row in full])
        cls0 = hitran_class(v)
        vec = dict(v, kind='hitran', seed=ctx.seed, tag=tag)
        fx.write_pickle_cia(d1, 'H2-H2', wn_all, mtemps, table)
        fn_text = fx_hitranfile.write_hitran_blocks(d2, 'H2-H2', blocks, scale=float(scale))
        objs = {}
        for fmt, d in (('cia-pickle', d1), ('cia-hitran', d2)):
            sb.reset()
            CIACache().set_cia_path(d)
            try:
                objs[fmt] = CIACache()['H2-H2']
            except Exception as e:
                ctx.verdict('same_table_all_formats', False, cls='%s:%s' % (fmt, cls0), detail='file %r (layouts %r) not loadable through the cache: %r' % (v['file'], layouts, e), vector=vec)
        if len(objs) < 2:
            continue
        if set(layouts) != {'k'}:
            # second public route to the same reader: the constructor on the file itself
            try:
                from taurex.cia.hitrancia import HitranCIA
                objs['cia-hitran-direct'] = HitranCIA(fn_text)
            except Exception as e:
                ctx.verdict('same_table_all_formats', False, cls='cia-hitran-direct:%s' % cls0, detail='file %r (layouts %r): HitranCIA(filename) failed: %r' % (v['file'], layouts, e), vector=vec)
        for fmt, obj in objs.items():
            cls = '%s:%s' % (fmt, cls0)
            try:
                ok = np.array_equal(np.asarray(obj.wavenumberGrid, dtype=float), np.array(wn_all)) and \
                    np.array_equal(np.asarray(obj.temperatureGrid, dtype=float), np.array(mtemps)) and obj.pairName == 'H2-H2'
                ctx.verdict('same_table_all_formats', ok, cls=cls + ':grids',
                            detail='file %r: wn %r T %r pair %r' % (v['file'], np.asarray(obj.wavenumberGrid).tolist(), np.asarray(obj.temperatureGrid).tolist(), obj.pairName), vector=vec)
                for q in v['queries']:
                    w = frac(q['w'])
                    want = np.array([float((1 - w) * a + w * b) for a, b in zip(full[q['lo'] - 1], full[q['hi'] - 1])])
                    got = np.asarray(obj.cia(float(q['T'])), dtype=float)
                    ctx.verdict('same_table_all_formats', got.shape == want.shape and np.allclose(got, want, rtol=1e-11, atol=1e-70),
                                cls=cls + (':node' if q['lo'] == q['hi'] else ':between'),
                                detail='file %r (T index per band, file order; layouts %r): cia(%g K) = %r, physical table %r' % (v['file'], layouts, q['T'], got.tolist(), want.tolist()),
                                vector=dict(vec, T=q['T']))
            except Exception as e:
                ctx.verdict('same_table_all_formats', False, cls=cls + ':eval', detail='file %r: evaluation failed: %r' % (v['file'], e), vector=vec)
        grid = np.array(sorted(wn_all + [30.0, 110.0, 235.0]))
        try:
            for T in (mtemps[0] - 50.0, 0.5 * (mtemps[0] + mtemps[1]), mtemps[-1], mtemps[-1] + 500.0):
                a = np.asarray(objs['cia-pickle'].cia(T, grid), dtype=float)
                b = np.asarray(objs['cia-hitran'].cia(T, grid), dtype=float)
                ctx.verdict('same_table_all_formats', a.shape == b.shape and np.allclose(a, b, rtol=1e-11, atol=1e-70), cls='cia:pickle-vs-hitran:' + cls0,
                            detail='file %r: cia(%g K, grid): pickle %r hitran %r' % (v['file'], T, a.tolist()[:6], b.tolist()[:6]), vector=dict(vec, T=T))
        except Exception as e:
            ctx.verdict('same_table_all_formats', False, cls='cia:pickle-vs-hitran:' + cls0 + ':eval', detail='file %r: evaluation failed: %r' % (v['file'], e), vector=vec)
    sb.reset()
    ctx.traces += len(vecs)
    return len(vecs)


def select_files(vecs, limit, rng):
    """Unique files; when more than `limit`, keep every file of up to 4 blocks and a seeded sample of the longer ones."""
    seen, uniq = set(), []
    for v in vecs:
        k = repr((v['file'], v.get('layouts')))
        if k not in seen:
            seen.add(k)
            uniq.append(v)
    if not limit or len(uniq) <= limit:
        return uniq
    short = [v for v in uniq if len(v['file']) <= 4]
    rest = [v for v in uniq if len(v['file']) > 4]
    rng.shuffle(rest)
    return short + rest[:max(0, limit - len(short))]


# ----------------------------------------------------------------------------
# binding A/C: Exo-Transmit files as sets of wavelength blocks written in any order (spec/ExoTransmitFile.tla)
# ----------------------------------------------------------------------------

EXO_T = [300.0, 600.0, 1200.0, 2400.0]
EXO_P = [1e2, 1e4, 1e6, 1e7]              # Pa
EXO_MOLS = ['H2O', 'CH4', 'CO2']


def run_exofiles(ctx, sb, vecs, units, tag):
    """Each vector is a file (sequence of candidate wavelength indices as TLC wrote the blocks) with the specification's
    physical table: the ascending wavenumber grid (exact) and the block that owns each of its columns.  The file is written
    as Exo-Transmit text in that block order, the physical table as a pickle; both are loaded through the real
    OpacityCache and must be the same function of (T, P, wavenumber)."""
    from taurex.cache import OpacityCache
    bar = float(fac(units['bar']))
    xf = float(fac(units['exotransmit']))
    exown = fac(units['exown'])
    d1, d2 = sb.mkdir('exo_%s_pickle' % tag), sb.mkdir('exo_%s_text' % tag)
    for v in vecs:
        h = zlib.crc32(repr((ctx.seed, v['file'])).encode())
        nP, nT = 2 + h % 3, 2 + (h // 3) % 3
        mode = ['linear', 'exp'][(h // 9) % 2]
        mol = EXO_MOLS[(h // 18) % 3]
        temps, press = EXO_T[:nT], EXO_P[:nP]
        rng = random.Random('%d:%r' % (ctx.seed, v['file']))
        # one column per block, every entry identifies its block (k/64 units, exact in binary)
        col = {k: (np.array([rng.randint(1, 127) for _ in range(nP * nT)]).reshape(nP, nT) + 128.0 * k) / 64.0 * 1e-20 for k in v['file']}
        wl_m = {k: Fraction(int(v['wl'][k - 1]), 10 ** 9) for k in v['file']}
        want_grid = [frac(g) for g in v['grid']]
        if [exown / wl_m[k] for k in v['cols']] != want_grid:
            raise Machinery('Exo-Transmit export inconsistent with the wavelength -> wavenumber constant of OpacityFiles.tla: %r' % (v,))
        wn = np.array([float(g) for g in want_grid])
        table = np.stack([col[k] for k in v['cols']], axis=-1)
        cls = 'xsec:exotransmit:' + v['layout']
        vec = dict(v, kind='exofile', seed=ctx.seed, tag=tag, shape=[nP, nT, len(wn)], mode=mode)
        for d in (d1, d2):                                   # one table per directory (the molecule changes from file to file)
            for f in os.listdir(d):
                os.remove(os.path.join(d, f))
        fx.write_pickle_opacity(d1, mol + '.R100.TauREx', wn, temps, press, table, bar_factor=bar)
        fx_exofile.write_exotransmit_blocks(d2, mol, temps, press, [(float(wl_m[k]), col[k]) for k in v['file']], bar_factor=bar, xsec_factor=xf)
        ref = GridOpacity(mol, wn, temps, press, table, mode)
        objs = {}
        for fmt, d in (('pickle', d1), ('exotransmit', d2)):
            sb.reset()
            OpacityCache().set_opacity_path(d)
            OpacityCache().set_interpolation(mode)
            try:
                objs[fmt] = OpacityCache()[mol]
            except Exception as e:
                ctx.verdict('same_table_all_formats', False, cls=cls if fmt == 'exotransmit' else 'xsec:pickle:exo-table',
                            detail='file %r (%s): not loadable through the cache: %r' % (v['file'], fmt, e), vector=vec)
        if len(objs) < 2:
            continue
        obj, pick = objs['exotransmit'], objs['pickle']
        T, P = temps, press
        queries = [(T[0], P[0]), (T[-1], P[-1]), (0.5 * (T[0] + T[1]), (P[0] * P[1]) ** 0.5), (0.25 * T[-2] + 0.75 * T[-1], 0.9 * P[-1]), (1.03 * T[0], 3 * P[0])]
        try:
            ctx.verdict('name_is_sanitised', obj.moleculeName == mol, cls='name:exotransmit:' + v['layout'], detail='name %r, file opac%s.dat' % (obj.moleculeName, mol), vector=vec)
            ctx.verdict('mode_takes_effect', obj._interp_mode == mode, cls='format:exotransmit:' + v['layout'], detail='mode %r, configured %r' % (obj._interp_mode, mode), vector=vec)
            compare_opacity(ctx, obj, ref, table, np.array(press), cls, vec, queries=queries)
            # a requested grid: the nodes and the points half-way between them
            req = np.array(sorted(list(wn) + [0.5 * (a + b) for a, b in zip(wn[:-1], wn[1:])]))
            for Tq, Pq in queries[1:4]:
                a = np.asarray(obj.opacity(Tq, Pq, req), dtype=float)
                b = np.asarray(ref.opacity(Tq, Pq, req), dtype=float)
                c = np.asarray(pick.opacity(Tq, Pq, req), dtype=float)
                ctx.verdict('same_table_all_formats', a.shape == b.shape and np.allclose(a, b, rtol=1e-11, atol=1e-55), cls=cls + ':wngrid',
                            detail='file %r (wavelength index per block, file order): opacity(%g K, %g Pa, %r) = %r, physical table gives %r' % (v['file'], Tq, Pq, req.tolist()[:4], a.tolist()[:4], b.tolist()[:4]),
                            vector=dict(vec, T=Tq, P=Pq))
                ctx.verdict('same_table_all_formats', a.shape == c.shape and np.allclose(a, c, rtol=1e-11, atol=1e-55), cls='xsec:pickle-vs-exotransmit:' + v['layout'],
                            detail='file %r: opacity(%g K, %g Pa, grid): exo-transmit %r, pickle of the same table %r' % (v['file'], Tq, Pq, a.tolist()[:4], c.tolist()[:4]),
                            vector=dict(vec, T=Tq, P=Pq))
        except Exception as e:
            ctx.verdict('same_table_all_formats', False, cls=cls + ':eval', detail='file %r: evaluation failed: %r' % (v['file'], e), vector=vec)
    sb.reset()
    ctx.traces += len(vecs)
    return len(vecs)


# ----------------------------------------------------------------------------
# binding C: replay of TLC behaviours on the real singletons
# ----------------------------------------------------------------------------

class LoadCounter:
    """Counts real file loads per file name (constructors wrapped from outside the repository)."""

    def __init__(self):
        self.n = {}
        self.patched = []

    def __enter__(self):
        from taurex.opacity.pickleopacity import PickleOpacity
        from taurex.opacity.hdf5opacity import HDF5Opacity
        from taurex.opacity.ktables.picklektable import PickleKTable
        from taurex.opacity.ktables.hdfktable import HDF5KTable
        from taurex.cia.picklecia import PickleCIA
        from taurex.cia.hitrancia import HitranCIA
        counter = self

        def wrap(klass, real_load):
            orig = klass.__init__

            def init(this, filename, *a, **kw):
                if real_load(a, kw):
                    counter.n[filename] = counter.n.get(filename, 0) + 1
                return orig(this, filename, *a, **kw)
            klass.__init__ = init
            self.patched.append((klass, orig))
        always = lambda a, kw: True
        # HDF5Opacity.discover opens every file with in_memory=False only to read the name: not a load
        hdf = lambda a, kw: bool(kw.get('in_memory', a[1] if len(a) > 1 else False))
        for k, f in ((PickleOpacity, always), (HDF5Opacity, hdf), (PickleKTable, always), (HDF5KTable, always), (PickleCIA, always), (HitranCIA, always)):
            wrap(k, f)
        return self

    def __exit__(self, *a):
        for klass, orig in self.patched:
            klass.__init__ = orig

    def total(self):
        return sum(self.n.values())


class Real:
    """The real singleton of one kind with the directories of the abstract paths."""

    def __init__(self, kind, sb):
        self.kind = kind
        self.sb = sb
        self.dirs = {'p1': sb.mkdir(kind + '_p1'), 'p2': sb.mkdir(kind + '_p2')}
        self.names = PAIR if kind == 'cia' else MOL
        shape = (len(PRESS), len(TEMPS), len(WN))
        if kind == 'xsec':
            fx.write_pickle_opacity(self.dirs['p1'], 'H2O.R100.TauREx', WN, TEMPS, PRESS, table_for(1, shape))
            fx.write_pickle_opacity(self.dirs['p1'], '12C-1H4.R100.TauREx', WN, TEMPS, PRESS, table_for(2, shape))
            fx.write_hdf5_opacity(self.dirs['p2'], 'H2O_verif', 'H2O', WN, TEMPS, PRESS, table_for(3, shape), unit='Pa', unit_factor=1.0)
        elif kind == 'ktable':
            s4 = shape + (len(WEIGHTS),)
            fx.write_pickle_ktable(self.dirs['p1'], 'H2O.R100.ktable', 'H2O', WN, TEMPS, PRESS, table_for(1, s4), WEIGHTS)
            fx.write_pickle_ktable(self.dirs['p1'], 'CH4.R100.ktable', 'CH4', WN, TEMPS, PRESS, table_for(2, s4), WEIGHTS)
            fx.write_hdf5_ktable(self.dirs['p2'], 'H2O_R100.ktable', WN, TEMPS, PRESS, table_for(3, s4), WEIGHTS, unit='Pa', unit_factor=1.0)
        else:
            s2 = (len(TEMPS), len(WN))
            fx.write_pickle_cia(self.dirs['p1'], 'H2-H2', WN, TEMPS, table_for(1, s2))
            fx.write_pickle_cia(self.dirs['p1'], 'H2-He', WN, TEMPS, table_for(2, s2))
            fx.write_hitran_cia(self.dirs['p2'], 'H2-H2', [(float(T), WN, np.full(len(WN), (3 * 128 + 1 + i) / 64.0 * 1e-20)) for i, T in enumerate(TEMPS)],
                                scale=1e10)

    def cache(self):
        from taurex.cache import OpacityCache, CIACache
        from taurex.cache.ktablecache import KTableCache
        return {'xsec': OpacityCache, 'ktable': KTableCache, 'cia': CIACache}[self.kind]()

    def contents(self):
        c = self.cache()
        return c.cia_dict if self.kind == 'cia' else c.opacity_dict

    def user_object(self, m):
        shape = (len(PRESS), len(TEMPS), len(WN))
        if self.kind == 'xsec':
            return GridOpacity(self.names[m], WN, TEMPS, PRESS, table_for(99, shape), 'linear')
        if self.kind == 'ktable':
            return GridKTable(self.names[m], WN, TEMPS, PRESS, table_for(99, shape + (len(WEIGHTS),)), WEIGHTS, 'linear')
        from ..fx_model import FixtureCIA
        return FixtureCIA(self.names[m], WN, TEMPS, table_for(99, (len(TEMPS), len(WN))))

    def do(self, e):
        """Execute one action; returns (result, served object or None)."""
        act, arg = e['act'], e['arg']
        c = self.cache()
        if act == 'SetPath':
            {'xsec': lambda p: c.set_opacity_path(p), 'ktable': lambda p: c.set_ktable_path(p), 'cia': lambda p: c.set_cia_path(p)}[self.kind](self.dirs[arg])
            return 'ok', None
        if act == 'SetInterpolation':
            c.set_interpolation(arg)
            return 'ok', None
        if act == 'SetMemoryMode':
            c.set_memory_mode(arg == 'true')
            return 'ok', None
        if act == 'Clear':
            c.clear_cache()
            return 'ok', None
        name = self.names[arg]
        if act == 'Get':
            before = self.contents().get(name)
            try:
                obj = c[name]
            except Exception:
                return 'error', None
            return ('hit' if before is not None and before is obj else ('hit?' if before is not None else 'load')), obj
        if act == 'AddOpacity':
            obj = self.user_object(arg)
            had = name in self.contents()
            try:
                if self.kind == 'cia':
                    c.add_cia(obj)
                else:
                    c.add_opacity(obj)
            except Exception:
                return 'error', None
            return ('skip' if had else 'added'), (None if had else obj)
        raise Machinery('unknown action %r' % act)

    def project(self, obj):
        """(mode, table id, source) of a cached object."""
        if isinstance(obj, (GridOpacity, GridKTable)) or type(obj).__name__ == 'FixtureCIA':
            return 'user', 99, 'user'
        fn = getattr(obj, '_filename', '')
        src = 'p1' if os.path.dirname(fn) == self.dirs['p1'] else 'p2' if os.path.dirname(fn) == self.dirs['p2'] else '?'
        if self.kind == 'cia':
            return 'n/a', table_id(np.asarray(obj._xsec_grid).ravel()[0]), src
        return obj._interp_mode, table_id(np.asarray(obj.xsecGrid[...]).ravel()[0]), src


def replay_history(ctx, real, hist, counter, tag):
    sb = real.sb
    sb.reset()
    counter.n.clear()
    alive = {}                                      # spec oid -> real object (kept alive: ids are never reused)
    loads_spec = 0
    rev = {v: k for k, v in real.names.items()}
    for i, e in enumerate(hist):
        cls = '%s:%s' % (real.kind, e['act'])
        vec = dict(kind='history', cache=real.kind, h=hist[:i + 1], tag=tag)
        res, obj = real.do(e)
        # -- result of the action
        if e['act'] == 'Get':
            want = e['res']
            ctx.verdict('loaded_from_configured_path' if want != 'hit' else 'same_object_served', res == want, cls=cls + ':' + want,
                        detail='step %d %s(%s): real cache %s, specification %s' % (i + 1, e['act'], e['arg'], res, want), vector=vec)
            if res != want:
                return False
            if want == 'hit':
                ctx.verdict('same_object_served', obj is alive.get(e['oid']), cls=cls + ':hit',
                            detail='step %d Get(%s) served a different object than before' % (i + 1, e['arg']), vector=vec)
            elif want == 'load':
                loads_spec += 1
                fresh = all(obj is not o for o in alive.values())
                ctx.verdict('loaded_once_per_epoch', fresh, cls=cls + ':load', detail='step %d Get(%s): a loaded object must be new' % (i + 1, e['arg']), vector=vec)
                alive[e['oid']] = obj
        elif e['act'] == 'AddOpacity':
            ctx.verdict('cache_state', res == e['res'], cls=cls + ':' + e['res'], detail='step %d AddOpacity(%s): real %s, specification %s' % (i + 1, e['arg'], res, e['res']), vector=vec)
            if res != e['res']:
                return False
            if res == 'added':
                alive[e['oid']] = obj
        # -- file loads so far
        ctx.verdict('loaded_once_per_epoch', counter.total() == loads_spec, cls=cls + ':file-loads',
                    detail='step %d: %d file loads so far, specification %d (%r)' % (i + 1, counter.total(), loads_spec, counter.n), vector=vec)
        # -- cache contents
        cont = real.contents()
        want_mols = {m for m, d in e['dict'].items() if d['oid'] != 0}
        got_mols = {rev.get(k, k) for k in cont}
        ok = want_mols == got_mols
        det = 'cached molecules %r, specification %r' % (sorted(got_mols), sorted(want_mols))
        ctx.verdict('cache_state', ok, cls=cls + ':molecules', detail='step %d: %s' % (i + 1, det), vector=vec)
        if not ok:
            return False
        for m in sorted(want_mols):
            d = e['dict'][m]
            o = cont[real.names[m]]
            mode, tid, src = real.project(o)
            ctx.verdict('same_object_served', o is alive.get(d['oid']), cls=cls + ':identity',
                        detail='step %d: cached object of %s is not the one served earlier' % (i + 1, m), vector=vec)
            if d['src'] != 'user' and real.kind != 'cia':
                ctx.verdict('mode_takes_effect', mode == d['mode'], cls=cls + ':mode',
                            detail='step %d: %s has mode %r, configured %r' % (i + 1, m, mode, d['mode']), vector=vec)
            ctx.verdict('loaded_from_configured_path', (tid, src) == (d['table'], d['src']), cls=cls + ':table',
                        detail='step %d: %s holds table %r from %r, specification table %r from %r' % (i + 1, m, tid, src, d['table'], d['src']), vector=vec)
    return True


def run_histories(ctx, sb, kind, hists, tag, limit, rng):
    seen, uniq = set(), []
    for h in hists:
        key = repr(h['h'])
        if key not in seen:
            seen.add(key)
            uniq.append(h['h'])
    if limit and len(uniq) > limit:
        rng.shuffle(uniq)
        # keep every history that ends in a Get (the observable action) first
        uniq.sort(key=lambda h: 0 if any(e['act'] == 'Get' and e['res'] != 'error' for e in h) else 1)
        uniq = uniq[:limit]
    real = Real(kind, sb)
    with LoadCounter() as counter:
        for h in uniq:
            replay_history(ctx, real, h, counter, tag)
    ctx.traces += len(uniq)
    if uniq:
        ctx.add_sample(dict(history=[(e['act'], e['arg'], e['res']) for e in uniq[len(uniq) // 2]], cache=kind))
    return len(uniq)


# ----------------------------------------------------------------------------
# binding B: random walks on the real caches, validated by TLC
# ----------------------------------------------------------------------------

ACTIONS = {'xsec': ['SetPath', 'SetPath', 'SetInterpolation', 'SetMemoryMode', 'Get', 'Get', 'Get', 'AddOpacity', 'Clear'],
           'ktable': ['SetPath', 'SetPath', 'Get', 'Get', 'Get', 'AddOpacity', 'Clear'],
           'cia': ['SetPath', 'SetPath', 'Get', 'Get', 'Get', 'AddOpacity']}


def record_walks(real, rng, ntraces, length):
    """Drive the real cache with random actions; log the harness's projection after every action."""
    events = []
    absent = {'oid': 0, 'mode': '', 'table': 0, 'src': ''}
    rev = {v: k for k, v in real.names.items()}
    for tid in range(ntraces):
        real.sb.reset()
        events.append(dict(tid=tid, act='Reset', arg='', res='', oid=0, dict={}))
        tokens = []                                 # objects in order of first appearance; token = index + 1
        for _ in range(length):
            act = rng.choice(ACTIONS[real.kind])
            arg = {'SetPath': lambda: rng.choice(['p1', 'p2']), 'SetInterpolation': lambda: rng.choice(['linear', 'exp']),
                   'SetMemoryMode': lambda: rng.choice(['true', 'false']), 'Get': lambda: rng.choice(['A', 'B']),
                   'AddOpacity': lambda: rng.choice(['A', 'B']), 'Clear': lambda: ''}[act]()
            res, obj = real.do(dict(act=act, arg=arg))
            if res == 'hit?':
                res = 'load'                        # an object was cached but another one came back: logged as a (forbidden) load

            def tok(o):
                for i, t in enumerate(tokens):
                    if t is o:
                        return i + 1
                tokens.append(o)
                return len(tokens)
            oid = tok(obj) if obj is not None else 0
            proj = {}
            for m in ('A', 'B'):
                o = real.contents().get(real.names[m])
                if o is None:
                    proj[m] = dict(absent)
                else:
                    mode, tid_, src = real.project(o)
                    proj[m] = dict(oid=tok(o), mode=mode, table=tid_, src=src)
            events.append(dict(tid=tid, act=act, arg=arg, res=res, oid=oid, dict=proj))
    return events


def run_traces(ctx, sb, kind, ntraces, length, rng):
    from ..core import validate_trace
    real = Real(kind, sb)
    events = record_walks(real, rng, ntraces, length)
    sb.reset()
    cfg = 'Trace_OpacityCache_%s.cfg' % kind
    pending = events
    rejected = 0
    for _ in range(6):
        ok, bad, res = validate_trace('Trace_OpacityCache', cfg, pending)
        ctx.add_tlc('trace-%s' % kind, res, counts=False)
        if res.violated:
            raise Machinery('trace spec %s violated invariant %s' % (cfg, res.violated))
        if ok:
            break
        at = max([a['l'] for a in res.tagged('AT')] or [0])
        if at >= len(pending):
            raise Machinery('trace spec rejected without a failing line:\n' + res.out[-800:])
        e = pending[at]                              # first event TLC could not match
        rejected += 1
        hist = [x for x in pending[:at + 1] if x['tid'] == e['tid'] and x['act'] != 'Reset']
        ctx.verdict('trace_cache_protocol', False, cls='%s:%s:trace' % (kind, e['act']),
                    detail='TLC rejects step %d of walk %d: %s(%s) -> %s oid %s, cache %r' % (len(hist), e['tid'], e['act'], e['arg'], e['res'], e['oid'], e['dict']),
                    vector=dict(kind='walk', cache=kind, h=[(x['act'], x['arg']) for x in hist]))
        pending = [x for x in pending if x['tid'] != e['tid']]
    tids = {e['tid'] for e in events}
    ctx.traces += len(tids)
    for _ in range(len(tids) - rejected):
        ctx.verdict('trace_cache_protocol', True, cls='%s:trace' % kind)
    # canary: a served object id that the specification cannot produce
    good = [e for e in events if e['tid'] == 0]
    gets = [i for i, e in enumerate(good) if e['act'] == 'Get' and e['res'] in ('hit', 'load')]
    c = [dict(e) for e in good]
    if gets:
        c[gets[-1]]['oid'] = c[gets[-1]]['oid'] + 5
    else:
        c[-1]['res'] = 'bogus'
    ok2, _, r2 = validate_trace('Trace_OpacityCache', cfg, c)
    if ok2:
        raise Machinery('canary accepted: cache trace validation is vacuous')
    return len(tids)


# ----------------------------------------------------------------------------

def run(ctx):
    q = ctx.tier == 'quick'
    t = ctx.tier
    import logging
    from taurex.log.logger import root_logger
    root_logger.setLevel(logging.CRITICAL + 1)          # the caches log every refused Get as ERROR; restored to ERROR below
    ctx.bounds = dict(tier=t, cache_model='2 paths (p1: both molecules as pickle; p2: molecule A only, HDF5 / HITRAN), 2 molecules, modes {linear, exp}, '
                                            'memory flag, user-added objects; exhaustive to depth %d' % (12 if q else 16),
                      histories='all histories of 4 actions (xsec sampled in quick; 5 actions for ktable/cia in thorough) + TLC-simulated histories of 12 actions, for OpacityCache, KTableCache, CIACache',
                      related_names='CacheNames.tla: 3 molecules in a substring chain x 2 paths, Request / SetPath / Clear; every history of %d actions + TLC-simulated '
                            'histories of 10; name families %r (xsec, k-tables) and %r (CIA), every permutation' % (4 if q else 5, fx_cachenames.FAMILIES['xsec'], fx_cachenames.FAMILIES['cia']),
                      formats='random 3x3x6 tables (k/64 units) in pickle(bar), HDF5(bar/Pa/atm/mbar; .h5/.hdf5; name as bytes/array/str), Exo-Transmit text; '
                              'k-table pickle + HDF5(bar/Pa/atm); CIA pickle vs HITRAN text with three wavenumber ranges given at different temperatures',
                      names='all names of length <= 4 over {H,C,e,o,1,2,-,_} + 9 documented patterns',
                      units='HDF5 cross-sections and HDF5 k-tables x 14 SI prefixes x {Pa, N/m2, bar, atm, Torr, torr, Ba, barye, dyn/cm2} (spellings astropy accepts) '
                            'x units attribute as str / bytes x %d pressure grid(s)' % (1 if q else 3),
                      exotransmit='files = every sequence of >= 2 distinct wavelength blocks over %d candidate wavelengths (%d files) + TLC-simulated files over 8; '
                                  'tables of 2..4 pressures x 2..4 temperatures, both interpolation modes' % ((5, 320) if q else (6, 1950)),
                      hitran='files = every sequence of distinct (band, temperature) blocks with >= 2 temperatures over 2 bands x 3 temperatures (1 944 files), '
                             'TLC-simulated files over 3 bands x 4 temperatures with a record layout per block (2 / 3 data columns, short / full header); '
                             'every file over 2 bands x 2 temperatures x layouts %s; design model %s'
                             % ('{k, k+err}' if q else '{k, k+err, ref:k, ref:k+err}', '2 bands x 3 temperatures' if q else '2 bands x 4 temperatures'))
    ctx.assumptions = ['object identity observed with `is` while every served object is kept alive',
                       'file loads counted by wrapping the reader constructors from outside the repository (HDF5 discovery opens with in_memory=False are not loads)',
                       'HITRAN values chosen exactly representable at the %10.3E precision of the format',
                       'TLC + CommunityModules Json']
    jobs = []
    for k in ('xsec', 'ktable', 'cia'):
        jobs.append(('cache-%s' % k, 'MC_OpacityCache', 'MC_OpacityCache_%s_%s.cfg' % (k, t), dict(workers=4), None))
    jobs += [('refuted-no-clear-on-mode-change', 'MC_OpacityCache', 'MC_OpacityCache_noclear_refuted.cfg', dict(workers=2), 'ModeTakesEffect'),
             ('refuted-discover-default-mode', 'MC_OpacityCache', 'MC_OpacityCache_defaultmode_refuted.cfg', dict(workers=2), 'ModeTakesEffect'),
             ('refuted-load-not-stored', 'MC_OpacityCache', 'MC_OpacityCache_nostore_refuted.cfg', dict(workers=2), 'LoadedOncePerEpoch'),
             ('nonvacuous-two-objects', 'MC_OpacityCache', 'MC_OpacityCache_nonvac1.cfg', dict(workers=2), 'NeverTwoObjects'),
             ('nonvacuous-hit', 'MC_OpacityCache', 'MC_OpacityCache_nonvac2.cfg', dict(workers=2), 'NeverHit'),
             ('export-names', 'MC_OpacityName', 'EX_OpacityName.cfg', dict(workers=1), None),
             # HITRAN files as sets of (band, temperature) blocks in any order; the reading algorithm against the physical table
             # (the export config carries the invariants: design check and export of the 2 bands x 3 temperatures model in one run)
             ('hitran-design', 'MC_HitranCia', 'EX_HitranCia_quick.cfg', dict(workers=1), None),
             ('refuted-hitran-no-sort-before-fill', 'MC_HitranCia', 'MC_HitranCia_nosort_refuted.cfg', dict(workers=1), 'ReaderMatchesTable'),
             ('refuted-hitran-running-bounds', 'MC_HitranCia', 'MC_HitranCia_runningbounds_refuted.cfg', dict(workers=1), 'ReaderMatchesTable'),
             ('refuted-hitran-hold-outside', 'MC_HitranCia', 'MC_HitranCia_hold_refuted.cfg', dict(workers=1), 'ReaderMatchesTable'),
             ('nonvacuous-hitran-unsorted-band', 'MC_HitranCia', 'MC_HitranCia_nonvac1.cfg', dict(workers=1), 'NeverUnsortedBand'),
             ('nonvacuous-hitran-interior-gap', 'MC_HitranCia', 'MC_HitranCia_nonvac2.cfg', dict(workers=1), 'NeverInteriorGap'),
             # record layouts of a block (two / three data columns, short / full header), chosen block by block
             ('hitran-layouts', 'MC_HitranCia', 'EX_HitranCia_layouts_%s.cfg' % t, dict(workers=1), None),
             ('refuted-hitran-coefficient-from-last-field', 'MC_HitranCia', 'MC_HitranCia_lastfield_refuted.cfg', dict(workers=1), 'ReaderMatchesTable'),
             ('refuted-hitran-header-from-the-right', 'MC_HitranCia', 'MC_HitranCia_headfromend_refuted.cfg', dict(workers=1), 'ReaderMatchesTable'),
             ('simulate-hitran', 'MC_HitranCia', 'SIM_HitranCia.cfg', dict(workers=1, simulate='num=%d' % (150 if q else 2500), depth=14, seed=ctx.seed + 1), None),
             # Exo-Transmit files as sets of wavelength blocks in any order; the re-ordering of the reader against the physical table
             # (the export config carries the invariants: design check and export in one run)
             ('exofile-design', 'MC_ExoTransmitFile', 'EX_ExoTransmitFile_%s.cfg' % t, dict(workers=1), None),
             ('refuted-exofile-flip', 'MC_ExoTransmitFile', 'MC_ExoTransmitFile_flip_refuted.cfg', dict(workers=1), 'ReaderMatchesTable'),
             ('refuted-exofile-grid-only', 'MC_ExoTransmitFile', 'MC_ExoTransmitFile_none_refuted.cfg', dict(workers=1), 'ReaderMatchesTable'),
             ('refuted-exofile-inverse-permutation', 'MC_ExoTransmitFile', 'MC_ExoTransmitFile_inverse_refuted.cfg', dict(workers=1), 'ReaderMatchesTable'),
             ('nonvacuous-exofile-order', 'MC_ExoTransmitFile', 'MC_ExoTransmitFile_nonvac1.cfg', dict(workers=1), 'NeverOtherThanStockOrder'),
             ('nonvacuous-exofile-mixed', 'MC_ExoTransmitFile', 'MC_ExoTransmitFile_nonvac2.cfg', dict(workers=1), 'NeverMixedOrder'),
             ('simulate-exofile', 'MC_ExoTransmitFile', 'SIM_ExoTransmitFile.cfg', dict(workers=1, simulate='num=%d' % (80 if q else 1500), depth=10, seed=ctx.seed + 1), None),
             # declared pressure units: container x prefixed unit x attribute storage (x pressure grid)
             ('export-units', 'MC_OpacityUnits', 'EX_OpacityUnits_%s.cfg' % t, dict(workers=1), None),
             ('nonvacuous-units', 'MC_OpacityUnits', 'MC_OpacityUnits_nonvac.cfg', dict(workers=1), 'AllBar')]
    # molecule names of which one is a substring of another (spec/CacheNames.tla): Request / SetPath / Clear histories
    jobs += [('names-design', 'MC_CacheNames', 'MC_CacheNames_design.cfg', dict(workers=1), None),
             ('names-histories', 'MC_CacheNames', 'EX_CacheNames_%s.cfg' % t, dict(workers=1), None),
             ('simulate-names', 'MC_CacheNames', 'SIM_CacheNames.cfg', dict(workers=1, simulate='num=%d' % (40 if q else 600), depth=11, seed=ctx.seed + 1), None),
             ('refuted-names-substring-filter', 'MC_CacheNames', 'MC_CacheNames_substring_refuted.cfg', dict(workers=1), 'NothingElseEnters'),
             ('refuted-names-substring-filter-stale', 'MC_CacheNames', 'MC_CacheNames_substring_stale_refuted.cfg', dict(workers=1), 'ServedFromFirstRequestPath'),
             ('nonvacuous-names-stale-path', 'MC_CacheNames', 'MC_CacheNames_nonvac1.cfg', dict(workers=1), 'NeverStalePathServed'),
             ('nonvacuous-names-sub-after-super', 'MC_CacheNames', 'MC_CacheNames_nonvac2.cfg', dict(workers=1), 'NeverSubAfterSuper')]
    if not q:
        jobs.append(('hitran-design-2x4', 'MC_HitranCia', 'MC_HitranCia_thorough.cfg', dict(workers=8), None))
    nsim = 120 if q else 1500
    for k in ('xsec', 'ktable', 'cia'):
        hi = 'HI5_OpacityCache_%s.cfg' % k if (not q and k != 'xsec') else 'HI_OpacityCache_%s.cfg' % k
        jobs.append(('histories-%s' % k, 'MC_OpacityCache', hi, dict(workers=1), None))
        jobs.append(('simulate-%s' % k, 'MC_OpacityCache', 'SIM_OpacityCache_%s.cfg' % k,
                     dict(workers=1, simulate='num=%d' % nsim, depth=13, seed=ctx.seed + 1), None))
    from concurrent.futures import ThreadPoolExecutor
    pool = ThreadPoolExecutor(max_workers=8)
    futs = {j[0]: pool.submit(run_tlc, j[1], j[2], allow_violation=True, timeout=1500, coverage=j[0].startswith('cache-') or j[0] in ('hitran-design', 'exofile-design'), **j[3]) for j in jobs}
    results = {}
    for label, module, cfg, kw, refute in jobs:
        res = futs[label].result()
        results[label] = res
        sim = 'simulate' in kw
        ctx.add_tlc(label, res, counts=(refute is None and not sim))
        if refute is None:
            if res.violated:
                raise Machinery('spec %s/%s violates %s\n%s' % (module, cfg, res.violated, res.error_trace))
            if not sim and res.distinct == 0:
                raise Machinery('TLC reported 0 states for %s/%s' % (module, cfg))
        elif res.violated != refute:
            raise Machinery('expected TLC to refute %s in %s/%s, got %r' % (refute, module, cfg, res.violated))
    pool.shutdown()
    import time as _time
    t_tlc = _time.time() - ctx.t0
    need = {'xsec': ('SetPath', 'SetInterpolation', 'SetMemoryMode', 'Get', 'AddOpacity', 'Clear'),
            'ktable': ('SetPath', 'Get', 'AddOpacity', 'Clear'), 'cia': ('SetPath', 'Get', 'AddOpacity')}
    for k, acts in need.items():
        cov = results['cache-%s' % k].action_cov
        for a in acts:
            if cov.get(a, (0, 0))[1] == 0:
                raise Machinery('vacuous: action %s never taken in the %s cache model' % (a, k))
    for a in ('Write', 'CloseFile'):
        if results['hitran-design'].action_cov.get(a, (0, 0))[1] == 0:
            raise Machinery('vacuous: action %s never taken in the HITRAN file model' % a)
    for a in ('WriteBlock', 'CloseExo'):
        if results['exofile-design'].action_cov.get(a, (0, 0))[1] == 0:
            raise Machinery('vacuous: action %s never taken in the Exo-Transmit file model' % a)
    ctx.exhaustive = True
    efiles = results['exofile-design'].tagged('EXO')
    esim = results['simulate-exofile'].tagged('EXO')
    if len(efiles) < (320 if q else 1950) or not esim:
        raise Machinery('Exo-Transmit export incomplete: %d files, %d simulated files' % (len(efiles), len(esim)))
    if not {'ascending-wavelength', 'ascending-wavenumber', 'two-chunks', 'shuffled'} <= {v['layout'] for v in efiles}:
        raise Machinery('Exo-Transmit export does not cover every block layout')
    hfiles = results['hitran-design'].tagged('CIA')
    hsim = results['simulate-hitran'].tagged('CIA')
    hlay = results['hitran-layouts'].tagged('CIA')
    seen_lay = {l for v in hlay + hsim for l in v.get('layouts', [])}
    if len(hlay) < (608 if q else 7808) or seen_lay != set(fx_hitranfile.LAYOUTS) or not any(len(set(v['layouts'])) > 1 for v in hlay):
        raise Machinery('HITRAN record-layout export incomplete: %d files, layouts %r' % (len(hlay), sorted(seen_lay)))
    uvecs = results['export-units'].tagged('UVEC')
    if len(hfiles) < 1900 or not hsim or len(uvecs) < 500:
        raise Machinery('HITRAN / unit export incomplete: %d files, %d simulated files, %d unit vectors' % (len(hfiles), len(hsim), len(uvecs)))
    names = results['export-names'].tagged('NAME')
    units = results['export-names'].tagged('UNIT')
    if len(names) < 4000 or not units:
        raise Machinery('name/unit export incomplete: %d names, %d unit records' % (len(names), len(units)))
    units = units[0]
    rng = random.Random(ctx.seed * 17 + 14)
    with CacheSandbox() as sb:
        nfiles = run_names(ctx, sb, names)
        nfmt = run_formats(ctx, sb, units, 2 if q else 12)
        t1 = _time.time()
        nunit, admitted = run_units(ctx, sb, uvecs)
        t2 = _time.time()
        nhit = run_hitran(ctx, sb, select_files(hfiles, 0, rng), units, 'exhaustive-2x3')
        nhit2 = run_hitran(ctx, sb, select_files(hsim, 0, rng), units, 'simulated-3x4')
        # thorough: every file of up to 3 blocks + a seeded sample of the 4-block ones (7 808 files with four layouts)
        if not q:
            short = [v for v in hlay if len(v['file']) <= 3]
            rest = [v for v in hlay if len(v['file']) > 3]
            rng.shuffle(rest)
            hlay = short + rest[:max(0, 3000 - len(short))]
        nhit3 = run_hitran(ctx, sb, hlay, units, 'layouts-2x2')
        t3 = _time.time()
        nexo = run_exofiles(ctx, sb, select_files(efiles, 0, rng), units, 'exhaustive')
        nexo2 = run_exofiles(ctx, sb, select_files(esim, 0, rng), units, 'simulated-8')
        t4 = _time.time()
        ctx.note('wall: TLC runs %.0f s, names+formats %.0f s, units %.0f s, HITRAN files %.0f s, Exo-Transmit files %.1f s' % (t_tlc, t1 - ctx.t0 - t_tlc, t2 - t1, t3 - t2, t4 - t3))
        ctx.note('Exo-Transmit files as block sequences: %d (every arrangement of every subset of %d wavelengths) + %d (TLC-simulated, 8 wavelengths)' % (nexo, 5 if q else 6, nexo2))
        nh = {}
        for k in ('xsec', 'ktable', 'cia'):
            hs = results['histories-%s' % k].tagged('HIST')
            if not hs:
                raise Machinery('no histories exported for %s' % k)
            n1 = run_histories(ctx, sb, k, hs, 'exhaustive-4', 4000 if (q and k == 'xsec') else 0, rng)
            ss = results['simulate-%s' % k].tagged('HIST')
            if not ss:
                raise Machinery('no simulated histories for %s' % k)
            n2 = run_histories(ctx, sb, k, ss, 'simulated-12', 0, rng)
            n3 = run_traces(ctx, sb, k, 40 if q else 400, 14, rng)
            nh[k] = (n1, n2, n3)
        # ---- related molecule names: every Request / SetPath / Clear history of the specification under rotating name assignments
        tn = _time.time()
        nhs = [v['h'] for v in results['names-histories'].tagged('NHIST')]
        seen_h = {repr(h) for h in nhs}
        for v in results['simulate-names'].tagged('NHIST'):
            if repr(v['h']) not in seen_h:
                seen_h.add(repr(v['h']))
                nhs.append(v['h'])
        meta = results['names-histories'].tagged('SUBREL')
        if len(nhs) < (1296 if q else 7776) or not meta:
            raise Machinery('name-history export incomplete: %d histories' % len(nhs))
        disk = {(p, m): int(tid) for p, m, tid in meta[0]['disk']}
        # a history that never requests anything observes nothing
        nhs = [h for h in nhs if any(e['act'] == 'Request' and e['res'] != 'error' for e in h)]
        if len(nhs) > 3000:                          # thorough: a seeded sample of the 5-action histories (each contains its 4-action prefixes)
            rng.shuffle(nhs)
            nhs = nhs[:3000]
        nn = {}
        for k in ('xsec', 'ktable', 'cia'):
            nn[k] = fx_cachenames.run(ctx, sb, k, nhs, meta[0]['rel'], disk, LoadCounter, 2 if k == 'xsec' else 1, rng, 'names-' + t)
            ctx.traces += nn[k]
        ctx.note('related molecule names (CacheNames.tla): %d histories, replays per cache %r, %.1f s' % (len(nhs), nn, _time.time() - tn))
    root_logger.setLevel(logging.ERROR)
    ctx.note('declared pressure units: %d containers loaded, %d unit spellings of the specification accepted by astropy (%s); HITRAN files as block sequences: '
             '%d (every arrangement of every subset of 2 bands x 3 temperatures) + %d (TLC-simulated, 3 bands x 4 temperatures, record layout per block) '
             '+ %d (every arrangement over 2 bands x 2 temperatures x record layouts %s)'
             % (nunit, len(admitted), ' '.join(admitted), nhit, nhit2, nhit3, '{k, k+err}' if q else '{k, k+err, ref:k, ref:k+err}'))
    ctx.note('names through files: %d; containers loaded: %d; histories replayed (exhaustive depth 4, simulated depth 12) and random walks validated by TLC: %r' % (nfiles, nfmt, nh))


def replay(ctx, violations):
    from ..core import run_tlc as _run
    res = _run('MC_OpacityName', 'EX_OpacityName.cfg', workers=1)
    units = res.tagged('UNIT')[0]
    with CacheSandbox() as sb:
        for v in violations:
            vec = v['vector']
            kind = vec.get('kind')
            if kind == 'walk':
                raise Machinery('random-walk violations are re-run with the same VERIF_SEED (./check C14 %s)' % ctx.tier)
            if kind == 'names-history':
                names = tuple(fx_cachenames.FAMILIES[vec['cache']][vec['family']][j] for j in vec['perm'])
                r0 = _run('MC_CacheNames', 'MC_CacheNames_design.cfg', workers=1)
                disk = {(p, m): int(tid) for p, m, tid in r0.tagged('SUBREL')[0]['disk']}
                real = fx_cachenames.NamedReal(vec['cache'], sb, names, disk, 'replay')
                with LoadCounter() as counter:
                    fx_cachenames.replay(ctx, real, vec['h'], counter, {k: v for k, v in vec.items() if k != 'h'})
            elif kind == 'history':
                real = Real(vec['cache'], sb)
                with LoadCounter() as counter:
                    replay_history(ctx, real, vec['h'], counter, 'replay')
            elif kind in ('name', 'name-file'):
                run_names(ctx, sb, [vec])
            elif kind == 'unit':
                ctx.seed = vec.get('seed', ctx.seed)
                run_units(ctx, sb, [vec])
            elif kind == 'hitran':
                ctx.seed = vec.get('seed', ctx.seed)
                run_hitran(ctx, sb, [vec], units, 'replay')
            elif kind == 'exofile':
                ctx.seed = vec.get('seed', ctx.seed)
                run_exofiles(ctx, sb, [vec], units, 'replay')
            else:
                ctx.seed = vec.get('seed', ctx.seed)
                run_formats(ctx, sb, units, vec.get('round', 0) + 1)
