"""C11 -- vertical structure is hydrostatic, ordered and one value per layer.

Spec: spec/Atmosphere.tla (relations over an abstract arithmetic), spec/MC_Atmosphere.tla (exact
rationals, n <= 3, exhaustive + export), spec/Trace_Atmosphere.tla (exact decimals spec/Dec.tla,
local step obligation per layer).
Binding A: TLC-exported (grid, T, mu, planet) -> exact z, g, H, rho, profile lengths, replayed into
           real TransmissionModels on SimplePressureProfile and ArrayPressureProfile (1e-9).
Binding B: random planets / pressure ranges / T and mu profiles, n = 1..200, both pressure profile
           classes; events levels / step (one per layer, fields read from the *exposed* per-layer
           profiles at index i) / profiles (attributes, generate_profiles(), store_profiles());
           every event validated by TLC at 1e-7 in exact decimal arithmetic + canaries.
"""
import math
import random
from concurrent.futures import ThreadPoolExecutor

import numpy as np

from ..core import Machinery, frac, close, validate_trace
from ..fx_vertical import (dec, FixedMuChemistry, clear_opacities, register_flat_opacity, layer_len,
                           ln_ratio)

PPB = 100            # relative tolerance of the TLC-side comparison, parts per 1e9 (1e-7)
REL = 1e-9           # Python-side comparison against TLC's exact rationals (binding A)
LAYER_KEYS = ['pressure_profile', 'temp_profile', 'density_profile', 'altitude_profile', 'gravity_profile',
              'scaleheight_profile', 'mu_profile', 'active_mix_profile', 'inactive_mix_profile']
STEP_CLAUSES = ['step_entries_present_and_positive', 'altitude_zero_at_surface', 'altitude_strictly_increasing',
                'dz_is_level_difference', 'dz_is_H_ln_pressure_ratio', 'H_is_kT_over_mu_g', 'g_inverse_square',
                'density_ideal_gas']


def _imports():
    from taurex.model import TransmissionModel
    from taurex.data.planet import Planet
    from taurex.data.stellar import BlackbodyStar
    from taurex.data.profiles.pressure import SimplePressureProfile
    from taurex.data.profiles.pressure.arraypressure import ArrayPressureProfile
    from taurex.data.profiles.temperature.temparray import TemperatureArray
    from taurex.data.profiles.chemistry import TaurexChemistry, ConstantGas
    from taurex.data.profiles.chemistry.gas.arraygas import ArrayGas
    from taurex import constants as C
    return locals()


# --------------------------------------------------------------------------- binding A
UNIT_SETS = [dict(T0=500.0, R0=1.0e7, m0=2.0), dict(T0=150.0, R0=2.5e6, m0=11.0)]


def build_from_vector(v, units, pkind, X):
    C = X['C']
    n = v['n']
    T0, R0, m0 = units['T0'], units['R0'], units['m0']
    gm_si = C.KBOLTZ * T0 * R0 * math.log(10.0) * v['gm'] / (m0 * C.AMU)
    planet = X['Planet'](planet_mass=(gm_si / C.G) / C.MJUP, planet_radius=v['rad'] * R0 / C.RJUP)
    if pkind == 'simple':
        pp = X['SimplePressureProfile'](n, 10.0 ** v['lev'][-1], 10.0 ** v['lev'][0])
    else:
        pp = X['ArrayPressureProfile'](np.array([10.0 ** e for e in v['lay']]))
    tp = X['TemperatureArray'](tp_array=[t * T0 for t in v['T']])
    chem = FixedMuChemistry([m * m0 * C.AMU for m in v['mu']])
    model = X['TransmissionModel'](planet=planet, star=X['BlackbodyStar'](), pressure_profile=pp,
                                   temperature_profile=tp, chemistry=chem)
    model.build()
    return model, gm_si


def at(a, k):
    try:
        if a is None or k >= len(a):
            return None
        return float(a[k])
    except Exception:
        return None


def judge_vector(ctx, v, units, pkind, X):
    C = X['C']
    n = v['n']
    model, gm_si = build_from_vector(v, units, pkind, X)
    R0, T0 = units['R0'], units['T0']
    vec = dict(v, units=units, pkind=pkind)
    cls0 = '%s:n=%d' % (pkind, n)

    def cmp(clause, name, got, want, k):
        ok = got is not None and close(got, want, rel=REL, abs_=0.0 if want != 0 else 1e-300)
        ctx.verdict(clause, ok, cls='%s:%s%s' % (cls0, name, ':entry-absent' if got is None else ''),
                    detail='%s[%d] got %r expected %r' % (name, k, got, want), vector=vec)

    lev = model.pressure.pressure_profile_levels
    for k in range(n + 1):
        cmp('levels_log_spaced', 'pressure_levels', at(lev, k), 10.0 ** v['lev'][k], k)
        cmp('altitude_recurrence', 'altitude_boundaries', at(model.altitude_boundaries, k), float(frac(v['z'][k])) * R0, k)
    for k in range(n):
        cmp('layer_is_geometric_mean', 'pressure_profile', at(model.pressureProfile, k), 10.0 ** v['lay'][k], k)
        cmp('altitude_recurrence', 'altitude_profile', at(model.altitudeProfile, k), float(frac(v['z'][k])) * R0, k)
        cmp('altitude_recurrence', 'deltaz', at(model.deltaz, k), float(frac(v['z'][k + 1]) - frac(v['z'][k])) * R0, k)
        cmp('g_inverse_square', 'gravity_profile', at(model.gravity_profile, k),
            float(frac(v['g'][k])) * gm_si / (v['gm'] * R0 * R0), k)
        cmp('H_is_kT_over_mu_g', 'scaleheight_profile', at(model.scaleheight_profile, k),
            float(frac(v['H'][k])) * R0 / math.log(10.0), k)
        cmp('density_ideal_gas', 'density_profile', at(model.densityProfile, k),
            float(frac(v['rho'][k])) / (C.KBOLTZ * T0), k)
    z = np.asarray(model.altitude_boundaries, dtype=float)
    ctx.verdict('altitude_strictly_increasing', bool(z[0] == 0.0 and np.all(np.diff(z) > 0)), cls=cls0,
                detail='boundaries %r' % z.tolist(), vector=vec)
    lens = observed_lengths(model)
    for src, rec in lens.items():
        for name, want in v['prof'].items():
            if name not in rec:
                continue
            ctx.verdict('one_entry_per_layer', rec[name] == want, cls='%s:%s:%s' % (cls0, src, name),
                        detail='%s from %s has %d entries, expected %d' % (name, src, rec[name], want), vector=vec)


def run_vectors(ctx, vecs, X):
    if not vecs:
        raise Machinery('no vectors exported')
    for j, v in enumerate(vecs):
        units = UNIT_SETS[j % len(UNIT_SETS)]
        judge_vector(ctx, v, units, 'simple', X)
        if v['n'] >= 2:
            judge_vector(ctx, v, units, 'array', X)


# --------------------------------------------------------------------------- projection
class RecordingOutput:
    """Stands in for an output group: remembers what store_profiles() writes."""

    def __init__(self):
        self.arrays = {}

    def write_array(self, name, value, metadata=None):
        self.arrays[name] = value


def observed_lengths(model):
    from taurex.util.output import store_profiles
    ch = model.chemistry
    attrs = dict(pressure_profile=layer_len(model.pressureProfile), temp_profile=layer_len(model.temperatureProfile),
                 density_profile=layer_len(model.densityProfile), altitude_profile=layer_len(model.altitudeProfile),
                 gravity_profile=layer_len(model.gravity_profile), scaleheight_profile=layer_len(model.scaleheight_profile),
                 mu_profile=layer_len(ch.muProfile), active_mix_profile=layer_len(ch.activeGasMixProfile),
                 inactive_mix_profile=layer_len(ch.inactiveGasMixProfile),
                 pressure_levels=layer_len(model.pressure.pressure_profile_levels),
                 altitude_boundaries=layer_len(model.altitude_boundaries), deltaz=layer_len(model.deltaz))
    gen = {k: layer_len(val) for k, val in model.generate_profiles().items()}
    out = RecordingOutput()
    store_profiles(out, model)
    stored = {k: layer_len(val) for k, val in out.arrays.items()}
    return dict(attributes=attrs, generate_profiles=gen, store_profiles=stored)


# --------------------------------------------------------------------------- binding B
def random_model(rng, n, pkind, X):
    C = X['C']
    tstyle = rng.random()
    if tstyle < 0.3:
        T = [rng.uniform(200.0, 3000.0)] * n
    elif tstyle < 0.6:
        a, b = rng.uniform(200.0, 3000.0), rng.uniform(200.0, 3000.0)
        T = list(np.linspace(a, b, n))
    else:
        T = [rng.uniform(200.0, 3000.0) for _ in range(n)]
    radius_m = rng.uniform(0.05, 2.0) * C.RJUP
    lmax, lmin = rng.uniform(3.0, 7.0), rng.uniform(-6.0, 1.0)
    span = (lmax - lmin) * math.log(10.0)
    # planet mass from a chosen surface scale height (mu ~ 2.3..15 amu): keeps the atmosphere finite
    h_over_r = 10.0 ** rng.uniform(-4.0, math.log10(0.5 / span))
    mass_kg = C.KBOLTZ * max(T) * radius_m / (2.0 * C.AMU * C.G * h_over_r)
    planet = X['Planet'](planet_mass=mass_kg / C.MJUP, planet_radius=radius_m / C.RJUP)
    chem = X['TaurexChemistry'](fill_gases=['H2', 'He'], ratio=rng.uniform(0.05, 0.3))
    mstyle = rng.random()
    if mstyle < 0.3:
        chem.addGas(X['ConstantGas']('H2O', mix_ratio=10.0 ** rng.uniform(-6, -1)))
    else:
        chem.addGas(X['ArrayGas']('H2O', [10.0 ** rng.uniform(-6, -0.4) for _ in range(n)]))
    if rng.random() < 0.6:
        chem.addGas(X['ArrayGas']('CO2', [10.0 ** rng.uniform(-6, -0.6) for _ in range(n)]))
    if rng.random() < 0.5:
        chem.addGas(X['ConstantGas']('N2', mix_ratio=10.0 ** rng.uniform(-5, -1)))
    tp = X['TemperatureArray'](tp_array=T)
    if pkind == 'simple':
        pp = X['SimplePressureProfile'](n, 10.0 ** lmin, 10.0 ** lmax)
        pmax, pmin = 10.0 ** lmax, 10.0 ** lmin
    else:
        steps = [rng.uniform(1.0, 1.8) for _ in range(n - 1)]
        tot = sum(steps)
        lp = [lmax]
        for s in steps:
            lp.append(lp[-1] - s * (lmax - lmin) / tot)
        arr = np.array([10.0 ** e for e in lp])
        if rng.random() < 0.3:
            pp = X['ArrayPressureProfile'](arr[::-1].copy(), reverse=True)
        else:
            pp = X['ArrayPressureProfile'](arr)
        pmax = pmin = None
    model = X['TransmissionModel'](planet=planet, star=X['BlackbodyStar'](), pressure_profile=pp,
                                   temperature_profile=tp, chemistry=chem)
    model.build()
    return model, pmax, pmin


def events_of(model, mid, pkind, pmax, pmin, X):
    """Project one built model to trace events.  Every per-layer field is read from the exposed
    profile at index i; absent entries become [-1, 0]."""
    C = X['C']
    n = int(model.nLayers)
    lev = np.asarray(model.pressure.pressure_profile_levels, dtype=float)
    lay = np.asarray(model.pressureProfile, dtype=float)
    ev = []
    e = dict(ev='levels', id='%s:levels' % mid, n=n, kind=pkind, ppb=PPB,
             lev=[dec(x) for x in lev], lay=[dec(x) for x in lay])
    if pkind == 'simple':
        e['pmax'], e['pmin'] = dec(pmax), dec(pmin)
    ev.append(e)
    zb = model.altitude_boundaries
    za = model.altitudeProfile
    mu = model.chemistry.muProfile
    gen = model.generate_profiles()
    floats = []
    for i in range(n):
        lr = ln_ratio(lev[i], lev[i + 1]) if (len(lev) == n + 1 and lev[i] > 0 and lev[i + 1] > 0 and lev[i] > lev[i + 1]) else None
        vals = dict(z0=at(za, i), z1=at(zb, i + 1), dz=at(model.deltaz, i), H=at(gen.get('scaleheight_profile'), i),
                    g=at(gen.get('gravity_profile'), i), T=at(model.temperatureProfile, i), mu=at(mu, i), Lr=lr,
                    rho=at(model.densityProfile, i), P=at(lay, i), rad=float(model.planet.fullRadius),
                    gm=float(C.G * model.planet.fullMass), kB=float(C.KBOLTZ))
        # the attribute and the stored dictionary must agree entry by entry (same array)
        if at(model.scaleheight_profile, i) != vals['H'] or at(model.gravity_profile, i) != vals['g']:
            vals['H'] = None
        d = dict(ev='step', id='%s:step:%d' % (mid, i), i=i, n=n, ppb=PPB)
        d.update({k: dec(x) for k, x in vals.items()})
        ev.append(d)
        floats.append(vals)
    for src, rec in observed_lengths(model).items():
        ev.append(dict(ev='profiles', id='%s:profiles:%s' % (mid, src), n=n, src=src, lens=rec))
    return ev, floats


def float_step_ok(v):
    """Python-side 1e-9 evaluation of the same step relations on the raw floats."""
    try:
        if any(v[k] is None for k in v):
            return False
        r = v['rad'] + v['z0']
        return (close(v['z1'], v['z0'] + v['dz'], rel=REL) and close(v['dz'], v['H'] * v['Lr'], rel=REL)
                and close(v['H'] * v['mu'] * v['g'], v['kB'] * v['T'], rel=REL)
                and close(v['g'] * r * r, v['gm'], rel=REL) and close(v['rho'] * v['kB'] * v['T'], v['P'], rel=REL)
                and v['z1'] > v['z0'])
    except Exception:
        return False


def layer_counts(rng, q):
    base = [1, 1, 2, 2, 3, 5, 10, 30, 100, 200]
    extra = [rng.randint(1, 200) for _ in range(24 if q else 600)]
    small = [rng.randint(1, 12) for _ in range(12 if q else 300)]
    return base + extra + small


def validate_chunks(events, chunk=6000, threads=4):
    chunks = [events[k:k + chunk] for k in range(0, len(events), chunk)]

    def one(c):
        return validate_trace('Trace_Atmosphere', 'Trace_Atmosphere.cfg', c, timeout=1500)
    with ThreadPoolExecutor(max_workers=threads) as ex:
        return list(zip(chunks, ex.map(one, chunks)))


def run_traces(ctx, X):
    q = ctx.tier == 'quick'
    rng = random.Random(ctx.seed * 104729 + 11)
    events, meta, skipped = [], {}, 0
    nmodels = 0
    for n in layer_counts(rng, q):
        kinds = ['simple'] if n < 2 else (['simple', 'array'] if rng.random() < 0.6 else [rng.choice(['simple', 'array'])])
        for pkind in kinds:
            sub = rng.getrandbits(48)
            model, pmax, pmin = random_model(random.Random(sub), n, pkind, X)
            lev = np.asarray(model.pressure.pressure_profile_levels, dtype=float)
            if pkind == 'array' and not (np.all(lev > 0) and np.all(np.diff(lev) < 0)):
                skipped += 1      # outside the quantifier: "for any decreasing levels"
                continue
            mid = 'm%d' % nmodels
            nmodels += 1
            ev, floats = events_of(model, mid, pkind, pmax, pmin, X)
            steps = [e for e in ev if e['ev'] == 'step']
            recipe = dict(trace=True, sub=sub, n=n, pkind=pkind, mid=mid)
            for e, f in zip(steps, floats):
                meta[e['id']] = (pkind, n, f, recipe)
            for e in ev:
                if e['ev'] != 'step':
                    meta[e['id']] = (pkind, n, None, recipe)
            events += ev
    if nmodels < 20:
        raise Machinery('too few models generated')
    nbad_total = 0
    allbad = set()
    for chunk, (accepted, bad, res) in validate_chunks(events):
        ctx.add_tlc('trace-atmosphere', res, counts=False)
        if res.postcondition_false and not bad:
            raise Machinery('trace spec did not consume the whole trace:\n' + res.out[-1500:])
        badids = {b['id']: b for b in bad}
        nbad_total += len(badids)
        allbad |= set(badids)
        for e in chunk:
            pkind, n, f, recipe = meta[e['id']]
            why = set(badids[e['id']]['why']) if e['id'] in badids else set()
            if e['ev'] == 'levels':
                clauses = ['levels_wellformed', 'levels_strictly_decreasing'] + \
                          (['layer_is_geometric_mean', 'levels_log_spaced'] if pkind == 'simple' else [])
                for c in clauses:
                    ctx.verdict(c, c not in why, cls='%s:trace:levels' % pkind, detail='TLC rejected %s (n=%d)' % (e['id'], n),
                                vector=dict(recipe, event=e if n <= 12 else dict(id=e['id'], n=n)))
            elif e['ev'] == 'step':
                top = ':top-layer' if e['i'] == n - 1 else ''
                absent = ':entry-absent' if any(e[k][0] < 0 for k in ('H', 'g', 'z0', 'z1', 'dz', 'rho', 'mu', 'T')) else ''
                for c in STEP_CLAUSES:
                    ctx.verdict(c, c not in why, cls='%s:trace:step%s%s' % (pkind, top, absent),
                                detail='TLC rejected %s (n=%d): %s' % (e['id'], n, sorted(why)), vector=dict(recipe, event=e))
                present = not absent
                ctx.verdict('step_relations_float_1e-9', (not present) or float_step_ok(f),
                            cls='%s:float:step%s' % (pkind, top), detail='raw floats %r' % (f,), vector=dict(recipe, event=e))
            else:
                wrong = sorted(badids[e['id']].get('wrong', [])) if e['id'] in badids else []
                ctx.verdict('one_entry_per_layer', 'one_entry_per_layer' not in why,
                            cls='%s:trace:profiles:%s:%s' % (pkind, e['src'], '+'.join(wrong)),
                            detail='%s (n=%d): wrong number of entries in %s' % (e['id'], n, wrong),
                            vector=dict(recipe, event=e))
    ctx.traces += nmodels
    ctx.note('binding B: %d models, %d events (%d step events), %d array profiles skipped (derived levels not decreasing)'
             % (nmodels, len(events), sum(1 for e in events if e['ev'] == 'step'), skipped))
    ctx.add_sample(dict(trace_event=next(e for e in events if e['ev'] == 'step')))
    ctx.add_sample(dict(trace_event=next(e for e in events if e['ev'] == 'profiles')))
    run_canaries(events, allbad)


def run_canaries(events, allbad):
    """Corrupt one logged field of accepted events; TLC must reject exactly those."""
    good = [e for e in events if e['id'] not in allbad]
    if len(good) < len(events) // 2:
        good = events      # most events already rejected (reported above): only require rejection of the corrupted ones
    events = good
    steps = [e for e in events if e['ev'] == 'step' and all(e[k][0] > 0 for k in ('H', 'g', 'z1', 'dz', 'rho', 'mu', 'T'))]
    profs = [e for e in events if e['ev'] == 'profiles' and e['src'] == 'generate_profiles']
    levs = [e for e in events if e['ev'] == 'levels' and e['kind'] == 'simple' and e['n'] >= 2]
    if (not steps or not profs or not levs) and not allbad:
        raise Machinery('no events available for the canaries')
    can, want = [], []
    if steps:
        a = dict(steps[len(steps) // 2]); a['dz'] = [a['dz'][0] + 2000, a['dz'][1]]; a['id'] = 'canary-dz'; can.append(a)
        b = dict(steps[len(steps) // 3]); b['g'] = [b['g'][0] - 3000, b['g'][1]]; b['id'] = 'canary-g'; can.append(b)
        want += ['canary-dz', 'canary-g']
        if steps[0]['id'] not in allbad:
            g = dict(steps[0]); g['id'] = 'canary-good'; can.append(g)
    if profs:
        c = dict(profs[0]); c['lens'] = dict(c['lens'], gravity_profile=c['n'] + 1); c['id'] = 'canary-len'; can.append(c)
        want.append('canary-len')
    if levs:
        d = dict(levs[0]); d['lay'] = [list(x) for x in d['lay']]; d['lay'][0][0] += 5000; d['id'] = 'canary-geo'; can.append(d)
        want.append('canary-geo')
    if not can:
        return
    ok, bad, res = validate_trace('Trace_Atmosphere', 'Trace_Atmosphere.cfg', can)
    got = sorted(x['id'] for x in bad)
    if got != sorted(want):
        raise Machinery('canary: expected the corrupted events %r to be rejected, TLC rejected %r' % (sorted(want), got))


# --------------------------------------------------------------------------- entry points
def setup():
    X = _imports()
    clear_opacities()
    register_flat_opacity('H2O', [1000.0, 2000.0, 3000.0])
    return X


def run(ctx):
    q = ctx.tier == 'quick'
    ctx.bounds = dict(tier=ctx.tier,
                      exhaustive='n<=3 layers, integer log10 level exponents (spacing 2 or 4), T in {1,2,3}, mu in {1,2}, rad 8, GM in {64,128} (exact rationals)',
                      vectors='every exported grid through SimplePressureProfile and ArrayPressureProfile (n>=2), two unit maps',
                      traces='n in 1..200, random planets (H0/R 1e-4..~0.03), pressure ranges 1e-6..1e7 Pa, random T (200..3000 K) and mu (ArrayGas) profiles')
    ctx.assumptions = ['ln(P_i/P_{i+1}) is evaluated by the harness (math.log) from the exposed levels',
                       'physical constants (k_B, G, amu) are those of taurex.constants; planet mass/radius are read in SI from the Planet object',
                       'TLC + CommunityModules Json/IOUtils; spec/Dec.tla decimal arithmetic',
                       'FixedMuChemistry double supplies exact small mu values in binding A; binding B uses the real TaurexChemistry',
                       'ArrayPressureProfile: only inputs whose derived levels decrease (the property\'s premise); n>=2']
    tier = ctx.tier
    ctx.check_spec('exhaustive', 'MC_Atmosphere', 'MC_Atmosphere_%s.cfg' % tier, need_actions=('Levels', 'Step', 'Profiles'))
    ctx.expect_refuted('droplast-refuted', 'MC_Atmosphere', 'MC_Atmosphere_droplast.cfg', 'OneEntryPerLayer')
    ctx.exhaustive = True
    X = setup()
    res = ctx.check_spec('export', 'MC_Atmosphere', 'EX_Atmosphere.cfg', workers=1)
    vecs = res.tagged('VEC')
    if q:
        rng = random.Random(ctx.seed)
        keep = [v for v in vecs if v['n'] == 3]
        rest = [v for v in vecs if v['n'] < 3]
        rng.shuffle(keep)
        vecs = rest[::2] + keep[:120]
    run_vectors(ctx, vecs, X)
    ctx.note('binding A: %d exported vectors replayed' % len(vecs))
    run_traces(ctx, X)


def replay(ctx, violations):
    """Re-drive the real code: rebuild the model of each stored vector / random recipe, project it
    again and judge the fresh event (one TLC run for all trace events)."""
    X = setup()
    models, items = {}, []
    for v in violations:
        vec = v['vector']
        if not vec.get('trace'):
            judge_vector(ctx, {k: vec[k] for k in vec if k not in ('units', 'pkind')}, vec['units'], vec['pkind'], X)
            continue
        key = (vec['sub'], vec['n'], vec['pkind'])
        if key not in models:
            model, pmax, pmin = random_model(random.Random(vec['sub']), vec['n'], vec['pkind'], X)
            ev, floats = events_of(model, vec['mid'], vec['pkind'], pmax, pmin, X)
            fl = dict(zip([e['id'] for e in ev if e['ev'] == 'step'], floats))
            models[key] = ({e['id']: e for e in ev}, fl)
        evs, fl = models[key]
        e = evs.get(vec['event']['id'])
        if e is None:
            raise Machinery('replay: event %s not produced again' % vec['event']['id'])
        if v['clause'] == 'step_relations_float_1e-9':
            ctx.verdict(v['clause'], float_step_ok(fl[e['id']]), cls=v['cls'], detail='raw floats %r' % (fl[e['id']],), vector=vec)
        else:
            items.append((v, e))
    if items:
        uniq = {e['id']: e for _, e in items}
        ok, bad, _ = validate_trace('Trace_Atmosphere', 'Trace_Atmosphere.cfg', list(uniq.values()))
        badids = {b['id']: set(b['why']) for b in bad}
        for v, e in items:
            why = badids.get(e['id'], set())
            ctx.verdict(v['clause'], v['clause'] not in why, cls=v['cls'], detail='replay %s: TLC says %s' % (e['id'], sorted(why)),
                        vector=v['vector'])
