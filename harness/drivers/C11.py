"""C11 -- vertical structure is hydrostatic, ordered and one value per layer.

Spec: spec/Atmosphere.tla (relations over an abstract arithmetic), spec/MC_Atmosphere.tla (exact
rationals, n <= 3, exhaustive + export), spec/Trace_Atmosphere.tla (exact decimals spec/Dec.tla,
local step obligation per layer).
Binding A: TLC-exported (grid, T, mu, planet) -> exact z, g, H, rho, profile lengths, replayed into
           real TransmissionModels on SimplePressureProfile and ArrayPressureProfile (1e-9).
Binding B: random planets / pressure ranges / T and mu profiles, n = 1..200, both pressure profile
           classes; events levels / step (one per layer, fields read from the *exposed* per-layer
           profiles at index i) / profiles (attributes, generate_profiles(), store_profiles());
           every event validated by TLC at 1e-7 in exact decimal arithmetic + canaries.
           Array AND file pressure profiles in both admissible input options of Atmosphere.tla
           (surface first, top first + reverse=True; file units, header, column, delimiter); models
           observed after their planet / pressure settings were changed through the fitting
           parameters (kind simple:after-history: the step obligation is local, so it is owed by a
           long-lived model exactly as by a new one).
Binding C: spec/Functional.tla walks (harness/history.py): ONE long-lived model, settings changed
           through model[<fitting parameter>], the full vertical structure after every evaluation
           must equal that of a freshly built model.
"""
import math
import os
import random
import shutil
import tempfile
from concurrent.futures import ThreadPoolExecutor

import numpy as np

from ..core import Machinery, frac, close, validate_trace
from ..fx_vertical import (dec, FixedMuChemistry, clear_opacities, register_flat_opacity, layer_len,
                           ln_ratio)

PPB = 100            # relative tolerance of the TLC-side comparison, parts per 1e9 (1e-7)
REL = 1e-9           # Python-side comparison against TLC's exact rationals (binding A)
LAYER_KEYS = ['pressure_profile', 'temp_profile', 'density_profile', 'altitude_profile', 'gravity_profile',
              'scaleheight_profile', 'mu_profile', 'active_mix_profile', 'inactive_mix_profile']
STEP_CLAUSES = ['step_entries_present_and_positive', 'altitude_zero_at_surface', 'altitude_strictly_increasing',
                'dz_is_level_difference', 'dz_is_H_ln_pressure_ratio', 'H_is_kT_over_mu_g', 'g_inverse_square',
                'density_ideal_gas']


def _imports():
    from taurex.model import TransmissionModel
    from taurex.data.planet import Planet
    from taurex.data.stellar import BlackbodyStar
    from taurex.data.profiles.pressure import SimplePressureProfile
    from taurex.data.profiles.pressure.arraypressure import ArrayPressureProfile
    from taurex.data.profiles.pressure.filepressure import FilePressureProfile
    from taurex.data.profiles.temperature.temparray import TemperatureArray
    from taurex.data.profiles.temperature import Isothermal
    from taurex.data.profiles.chemistry import TaurexChemistry, ConstantGas
    from taurex.data.profiles.chemistry.gas.arraygas import ArrayGas
    from taurex import constants as C
    return locals()



# --------------------------------------------------------------------------- array / file inputs
FILE_UNITS = ['Pa', 'bar', 'mbar', 'hPa', 'kPa']
FILE_LAYOUTS = [dict(), dict(skiprows=1), dict(usecols=1), dict(usecols=1, skiprows=2, delimiter=',')]
_TMP = []


def tmpdir():
    if not _TMP:
        _TMP.append(tempfile.mkdtemp(prefix='c11-%d-' % os.getpid(), dir='/tmp'))
    return _TMP[0]


def cleanup_tmp():
    while _TMP:
        shutil.rmtree(_TMP.pop(), ignore_errors=True)


def array_profile(X, klass, input_pa, reverse, unit='Pa', layout=None, tag='p'):
    """An ArrayPressureProfile / FilePressureProfile for the pressures `input_pa` (Pa) as the user
    hands them over (orientation already applied) and the flag `reverse`."""
    arr = np.array([float(x) for x in input_pa])
    if klass == 'array':
        return X['ArrayPressureProfile'](arr, reverse=reverse) if reverse else X['ArrayPressureProfile'](arr)
    from astropy import units as u
    per = float(u.Unit(unit).to('Pa'))
    layout = dict(layout or {})
    col, skip, delim = int(layout.get('usecols', 0)), int(layout.get('skiprows', 0)), layout.get('delimiter')
    path = os.path.join(tmpdir(), '%s.dat' % tag)
    sep = delim or ' '
    with open(path, 'w') as f:
        for k in range(skip):
            f.write('# pressure column %d, unit %s\n' % (col, unit))
        for j, x in enumerate(arr):
            cells = [repr(float(j))] * col + [repr(float(x / per))]
            f.write(sep.join(cells) + '\n')
    kw = dict(filename=path, units=unit, reverse=reverse)
    if col:
        kw['usecols'] = col
    if skip:
        kw['skiprows'] = skip
    if delim:
        kw['delimiter'] = delim
    return X['FilePressureProfile'](**kw)


def option_label(klass, opt, unit=None):
    return '%s:%s%s%s' % (klass, 'top-first' if opt['orient'] == 'top_first' else 'surface-first',
                          '+reverse' if opt['reverse'] else '', (':' + unit) if klass == 'file' else '')

# --------------------------------------------------------------------------- binding A
UNIT_SETS = [dict(T0=500.0, R0=1.0e7, m0=2.0), dict(T0=150.0, R0=2.5e6, m0=11.0)]


def build_from_vector(v, units, pkind, X):
    C = X['C']
    n = v['n']
    T0, R0, m0 = units['T0'], units['R0'], units['m0']
    gm_si = C.KBOLTZ * T0 * R0 * math.log(10.0) * v['gm'] / (m0 * C.AMU)
    planet = X['Planet'](planet_mass=(gm_si / C.G) / C.MJUP, planet_radius=v['rad'] * R0 / C.RJUP)
    if pkind == 'simple':
        pp = X['SimplePressureProfile'](n, 10.0 ** v['lev'][-1], 10.0 ** v['lev'][0])
    else:
        # pkind = dict(klass, opt (index into the spec's exported input options), unit, layout)
        opt = v['inputs'][pkind['opt']]
        pp = array_profile(X, pkind['klass'], [10.0 ** e for e in opt['array']], bool(opt['reverse']),
                           unit=pkind.get('unit', 'Pa'), layout=FILE_LAYOUTS[pkind.get('layout', 0)], tag='vec')
    tp = X['TemperatureArray'](tp_array=[t * T0 for t in v['T']])
    chem = FixedMuChemistry([m * m0 * C.AMU for m in v['mu']])
    model = X['TransmissionModel'](planet=planet, star=X['BlackbodyStar'](), pressure_profile=pp,
                                   temperature_profile=tp, chemistry=chem)
    model.build()
    return model, gm_si


def at(a, k):
    try:
        if a is None or k >= len(a):
            return None
        return float(a[k])
    except Exception:
        return None


def judge_vector(ctx, v, units, pkind, X):
    C = X['C']
    n = v['n']
    model, gm_si = build_from_vector(v, units, pkind, X)
    R0, T0 = units['R0'], units['T0']
    vec = dict(v, units=units, pkind=pkind)
    cls0 = '%s:n=%d' % (pkind if pkind == 'simple' else option_label(pkind['klass'], v['inputs'][pkind['opt']], pkind.get('unit')), n)

    def cmp(clause, name, got, want, k):
        ok = got is not None and close(got, want, rel=REL, abs_=0.0 if want != 0 else 1e-300)
        ctx.verdict(clause, ok, cls='%s:%s%s' % (cls0, name, ':entry-absent' if got is None else ''),
                    detail='%s[%d] got %r expected %r' % (name, k, got, want), vector=vec)

    lev = model.pressure.pressure_profile_levels
    for k in range(n + 1):
        cmp('levels_log_spaced', 'pressure_levels', at(lev, k), 10.0 ** v['lev'][k], k)
        cmp('altitude_recurrence', 'altitude_boundaries', at(model.altitude_boundaries, k), float(frac(v['z'][k])) * R0, k)
    for k in range(n):
        cmp('layer_is_geometric_mean', 'pressure_profile', at(model.pressureProfile, k), 10.0 ** v['lay'][k], k)
        cmp('altitude_recurrence', 'altitude_profile', at(model.altitudeProfile, k), float(frac(v['z'][k])) * R0, k)
        cmp('altitude_recurrence', 'deltaz', at(model.deltaz, k), float(frac(v['z'][k + 1]) - frac(v['z'][k])) * R0, k)
        cmp('g_inverse_square', 'gravity_profile', at(model.gravity_profile, k),
            float(frac(v['g'][k])) * gm_si / (v['gm'] * R0 * R0), k)
        cmp('H_is_kT_over_mu_g', 'scaleheight_profile', at(model.scaleheight_profile, k),
            float(frac(v['H'][k])) * R0 / math.log(10.0), k)
        cmp('density_ideal_gas', 'density_profile', at(model.densityProfile, k),
            float(frac(v['rho'][k])) / (C.KBOLTZ * T0), k)
    z = np.asarray(model.altitude_boundaries, dtype=float)
    ctx.verdict('altitude_strictly_increasing', bool(z[0] == 0.0 and np.all(np.diff(z) > 0)), cls=cls0,
                detail='boundaries %r' % z.tolist(), vector=vec)
    lens = observed_lengths(model)
    for src, rec in lens.items():
        for name, want in v['prof'].items():
            if name not in rec:
                continue
            ctx.verdict('one_entry_per_layer', rec[name] == want, cls='%s:%s:%s' % (cls0, src, name),
                        detail='%s from %s has %d entries, expected %d' % (name, src, rec[name], want), vector=vec)


def run_vectors(ctx, vecs, X):
    if not vecs:
        raise Machinery('no vectors exported')
    for j, v in enumerate(vecs):
        units = UNIT_SETS[j % len(UNIT_SETS)]
        judge_vector(ctx, v, units, 'simple', X)
        if v['n'] >= 2:
            # the spec's input options (orientation x reverse flag) in turn, through both classes
            nopt = len(v['inputs'])
            pk = dict(klass='array' if (j // nopt) % 2 == 0 else 'file', opt=j % nopt,
                      unit=FILE_UNITS[(j // (2 * nopt)) % len(FILE_UNITS)], layout=(j // 3) % len(FILE_LAYOUTS))
            judge_vector(ctx, v, units, pk, X)


# --------------------------------------------------------------------------- projection
class RecordingOutput:
    """Stands in for an output group: remembers what store_profiles() writes."""

    def __init__(self):
        self.arrays = {}

    def write_array(self, name, value, metadata=None):
        self.arrays[name] = value


def observed_lengths(model):
    from taurex.util.output import store_profiles
    ch = model.chemistry
    attrs = dict(pressure_profile=layer_len(model.pressureProfile), temp_profile=layer_len(model.temperatureProfile),
                 density_profile=layer_len(model.densityProfile), altitude_profile=layer_len(model.altitudeProfile),
                 gravity_profile=layer_len(model.gravity_profile), scaleheight_profile=layer_len(model.scaleheight_profile),
                 mu_profile=layer_len(ch.muProfile), active_mix_profile=layer_len(ch.activeGasMixProfile),
                 inactive_mix_profile=layer_len(ch.inactiveGasMixProfile),
                 pressure_levels=layer_len(model.pressure.pressure_profile_levels),
                 altitude_boundaries=layer_len(model.altitude_boundaries), deltaz=layer_len(model.deltaz))
    gen = {k: layer_len(val) for k, val in model.generate_profiles().items()}
    out = RecordingOutput()
    store_profiles(out, model)
    stored = {k: layer_len(val) for k, val in out.arrays.items()}
    return dict(attributes=attrs, generate_profiles=gen, store_profiles=stored)


# --------------------------------------------------------------------------- binding B
def random_model(rng, n, pkind, X):
    """-> (model, declared, label).  pkind: 'simple' | 'array' | 'history'.
    declared: what the spec is told about the grid: pmax/pmin (simple: the CURRENT settings) or
    input/reverse (array and file profiles).  'history' is a simple-grid model whose planet and
    pressure settings are changed through the public fitting parameters (in random order, with
    evaluations in between) before it is observed."""
    C = X['C']
    tstyle = rng.random()
    if tstyle < 0.3:
        T = [rng.uniform(200.0, 3000.0)] * n
    elif tstyle < 0.6:
        a, b = rng.uniform(200.0, 3000.0), rng.uniform(200.0, 3000.0)
        T = list(np.linspace(a, b, n))
    else:
        T = [rng.uniform(200.0, 3000.0) for _ in range(n)]

    def draw(radius_m=None):
        if radius_m is None:
            radius_m = rng.uniform(0.05, 2.0) * C.RJUP
        lmax, lmin = rng.uniform(3.0, 7.0), rng.uniform(-6.0, 1.0)
        span = (lmax - lmin) * math.log(10.0)
        # planet mass from a chosen surface scale height (mu ~ 2.3..15 amu): keeps the atmosphere finite
        h_over_r = 10.0 ** rng.uniform(-4.0, math.log10(0.5 / span))
        mass_kg = C.KBOLTZ * max(T) * radius_m / (2.0 * C.AMU * C.G * h_over_r)
        return dict(radius=radius_m / C.RJUP, mass=mass_kg / C.MJUP, lmax=lmax, lmin=lmin)
    cfg = draw()
    planet = X['Planet'](planet_mass=cfg['mass'], planet_radius=cfg['radius'])
    chem = X['TaurexChemistry'](fill_gases=['H2', 'He'], ratio=rng.uniform(0.05, 0.3))
    mstyle = rng.random()
    if mstyle < 0.3:
        chem.addGas(X['ConstantGas']('H2O', mix_ratio=10.0 ** rng.uniform(-6, -1)))
    else:
        chem.addGas(X['ArrayGas']('H2O', [10.0 ** rng.uniform(-6, -0.4) for _ in range(n)]))
    if rng.random() < 0.6:
        chem.addGas(X['ArrayGas']('CO2', [10.0 ** rng.uniform(-6, -0.6) for _ in range(n)]))
    if rng.random() < 0.5:
        chem.addGas(X['ConstantGas']('N2', mix_ratio=10.0 ** rng.uniform(-5, -1)))
    tp = X['TemperatureArray'](tp_array=T)
    lmax, lmin = cfg['lmax'], cfg['lmin']
    declared = dict(input=[], reverse=False, radius=cfg['radius'], mass=cfg['mass'])   # the settings as the user made them
    if pkind in ('simple', 'history'):
        pp = X['SimplePressureProfile'](n, 10.0 ** lmin, 10.0 ** lmax)
        declared.update(pmax=10.0 ** lmax, pmin=10.0 ** lmin)
        label = 'simple'
    else:
        # layer pressures with moderately uneven log steps (ratio of neighbouring steps < 1.8): every
        # reading of "the levels of an array profile" brackets these layers with decreasing levels
        steps = [rng.uniform(1.0, 1.8) for _ in range(n - 1)]
        tot = sum(steps)
        lp = [lmax]
        for st in steps:
            lp.append(lp[-1] - st * (lmax - lmin) / tot)
        lay = [10.0 ** e for e in lp]                       # surface first
        opt = dict(orient='top_first', reverse=True) if rng.random() < 0.5 else dict(orient='surface_first', reverse=False)
        given = lay[::-1] if opt['orient'] == 'top_first' else lay
        klass = 'file' if rng.random() < 0.4 else 'array'
        unit = rng.choice(FILE_UNITS)
        pp = array_profile(X, klass, given, opt['reverse'], unit=unit, layout=rng.choice(FILE_LAYOUTS), tag='rnd')
        declared.update(input=given, reverse=opt['reverse'])
        label = option_label(klass, opt, unit)
    model = X['TransmissionModel'](planet=planet, star=X['BlackbodyStar'](), pressure_profile=pp,
                                   temperature_profile=tp, chemistry=chem)
    model.build()
    if pkind == 'history':
        # a second configuration; the radius stays within a factor 1.4 so that the intermediate
        # (mixed) configurations are ordinary atmospheres too
        cfg2 = draw(radius_m=cfg['radius'] * C.RJUP * rng.uniform(0.7, 1.4))
        todo = [('planet_radius', cfg2['radius']), ('planet_mass', cfg2['mass']),
                ('atm_max_pressure', 10.0 ** cfg2['lmax']), ('atm_min_pressure', 10.0 ** cfg2['lmin'])]
        rng.shuffle(todo)
        todo = todo[:rng.randint(1, 4)]
        for name, value in todo:
            model[name] = value
            if rng.random() < 0.5:
                model.initialize_profiles()
            declared[dict(atm_max_pressure='pmax', atm_min_pressure='pmin', planet_radius='radius', planet_mass='mass')[name]] = value
        model.initialize_profiles()
        label = 'simple:after-history:' + '+'.join(sorted(nm for nm, _ in todo))
    return model, declared, label


def events_of(model, mid, pkind, declared, X):
    """Project one built model to trace events.  Every per-layer field is read from the exposed
    profile at index i; absent entries become [-1, 0]."""
    C = X['C']
    n = int(model.nLayers)
    lev = np.asarray(model.pressure.pressure_profile_levels, dtype=float)
    lay = np.asarray(model.pressureProfile, dtype=float)
    ev = []
    e = dict(ev='levels', id='%s:levels' % mid, n=n, kind='simple' if pkind in ('simple', 'history') else 'array', ppb=PPB,
             lev=[dec(x) for x in lev], lay=[dec(x) for x in lay],
             input=[dec(x) for x in declared['input']], reverse=bool(declared['reverse']))
    if e['kind'] == 'simple':
        e['pmax'], e['pmin'] = dec(declared['pmax']), dec(declared['pmin'])
    ev.append(e)
    zb = model.altitude_boundaries
    za = model.altitudeProfile
    mu = model.chemistry.muProfile
    gen = model.generate_profiles()
    floats = []
    for i in range(n):
        lr = ln_ratio(lev[i], lev[i + 1]) if (len(lev) == n + 1 and lev[i] > 0 and lev[i + 1] > 0 and lev[i] > lev[i + 1]) else None
        vals = dict(z0=at(za, i), z1=at(zb, i + 1), dz=at(model.deltaz, i), H=at(gen.get('scaleheight_profile'), i),
                    g=at(gen.get('gravity_profile'), i), T=at(model.temperatureProfile, i), mu=at(mu, i), Lr=lr,
                    rho=at(model.densityProfile, i), P=at(lay, i), rad=float(declared['radius'] * C.RJUP),
                    gm=float(C.G * declared['mass'] * C.MJUP), kB=float(C.KBOLTZ))
        # the attribute and the stored dictionary must agree entry by entry (same array)
        if at(model.scaleheight_profile, i) != vals['H'] or at(model.gravity_profile, i) != vals['g']:
            vals['H'] = None
        d = dict(ev='step', id='%s:step:%d' % (mid, i), i=i, n=n, ppb=PPB)
        d.update({k: dec(x) for k, x in vals.items()})
        ev.append(d)
        floats.append(vals)
    for src, rec in observed_lengths(model).items():
        ev.append(dict(ev='profiles', id='%s:profiles:%s' % (mid, src), n=n, src=src, lens=rec))
    return ev, floats


def float_step_ok(v):
    """Python-side 1e-9 evaluation of the same step relations on the raw floats."""
    try:
        if any(v[k] is None for k in v):
            return False
        r = v['rad'] + v['z0']
        return (close(v['z1'], v['z0'] + v['dz'], rel=REL) and close(v['dz'], v['H'] * v['Lr'], rel=REL)
                and close(v['H'] * v['mu'] * v['g'], v['kB'] * v['T'], rel=REL)
                and close(v['g'] * r * r, v['gm'], rel=REL) and close(v['rho'] * v['kB'] * v['T'], v['P'], rel=REL)
                and v['z1'] > v['z0'])
    except Exception:
        return False


def layer_counts(rng, q):
    base = [1, 1, 2, 2, 3, 5, 10, 30, 100, 200]
    extra = [rng.randint(1, 200) for _ in range(24 if q else 600)]
    small = [rng.randint(1, 12) for _ in range(12 if q else 300)]
    return base + extra + small


def validate_chunks(events, chunk=6000, threads=4):
    chunks = [events[k:k + chunk] for k in range(0, len(events), chunk)]

    def one(c):
        return validate_trace('Trace_Atmosphere', 'Trace_Atmosphere.cfg', c, timeout=1500)
    with ThreadPoolExecutor(max_workers=threads) as ex:
        return list(zip(chunks, ex.map(one, chunks)))


def run_traces(ctx, X):
    q = ctx.tier == 'quick'
    rng = random.Random(ctx.seed * 104729 + 11)
    events, meta, labels = [], {}, {}
    nmodels = 0
    for n in layer_counts(rng, q):
        kinds = ['simple'] if n < 2 else (['simple', 'array'] if rng.random() < 0.6 else [rng.choice(['simple', 'array'])])
        if rng.random() < 0.35:
            kinds.append('history')
        for pkind in kinds:
            sub = rng.getrandbits(48)
            model, declared, label = random_model(random.Random(sub), n, pkind, X)
            # no case is dropped because of what the code produced: the inputs are inside the quantifier
            # by construction (min < max; array / file layers decreasing in the declared orientation)
            mid = 'm%d' % nmodels
            nmodels += 1
            ev, floats = events_of(model, mid, pkind, declared, X)
            steps = [e for e in ev if e['ev'] == 'step']
            recipe = dict(trace=True, sub=sub, n=n, pkind=pkind, mid=mid)
            for e, f in zip(steps, floats):
                meta[e['id']] = (label, n, f, recipe)
            for e in ev:
                if e['ev'] != 'step':
                    meta[e['id']] = (label, n, None, recipe)
            events += ev
            short = 'simple:after-history' if pkind == 'history' else label
            labels[short] = labels.get(short, 0) + 1
    if nmodels < 20:
        raise Machinery('too few models generated')
    nbad_total = 0
    allbad = set()
    for chunk, (accepted, bad, res) in validate_chunks(events):
        ctx.add_tlc('trace-atmosphere', res, counts=False)
        if res.postcondition_false and not bad:
            raise Machinery('trace spec did not consume the whole trace:\n' + res.out[-1500:])
        badids = {b['id']: b for b in bad}
        nbad_total += len(badids)
        allbad |= set(badids)
        for e in chunk:
            pkind, n, f, recipe = meta[e['id']]
            why = set(badids[e['id']]['why']) if e['id'] in badids else set()
            if e['ev'] == 'levels':
                clauses = ['levels_wellformed', 'levels_strictly_decreasing', 'levels_bracket_layers'] + \
                          (['layer_is_geometric_mean', 'levels_log_spaced'] if e['kind'] == 'simple' else ['layers_are_oriented_input'])
                for c in clauses:
                    ctx.verdict(c, c not in why, cls='%s:trace:levels' % pkind, detail='TLC rejected %s (n=%d)' % (e['id'], n),
                                vector=dict(recipe, event=e if n <= 12 else dict(id=e['id'], n=n)))
            elif e['ev'] == 'step':
                top = ':top-layer' if e['i'] == n - 1 else ''
                absent = ':entry-absent' if any(e[k][0] < 0 for k in ('H', 'g', 'z0', 'z1', 'dz', 'rho', 'mu', 'T')) else ''
                for c in STEP_CLAUSES:
                    ctx.verdict(c, c not in why, cls='%s:trace:step%s%s' % (pkind, top, absent),
                                detail='TLC rejected %s (n=%d): %s' % (e['id'], n, sorted(why)), vector=dict(recipe, event=e))
                present = not absent
                ctx.verdict('step_relations_float_1e-9', (not present) or float_step_ok(f),
                            cls='%s:float:step%s' % (pkind, top), detail='raw floats %r' % (f,), vector=dict(recipe, event=e))
            else:
                wrong = sorted(badids[e['id']].get('wrong', [])) if e['id'] in badids else []
                ctx.verdict('one_entry_per_layer', 'one_entry_per_layer' not in why,
                            cls='%s:trace:profiles:%s:%s' % (pkind, e['src'], '+'.join(wrong)),
                            detail='%s (n=%d): wrong number of entries in %s' % (e['id'], n, wrong),
                            vector=dict(recipe, event=e))
    ctx.traces += nmodels
    ctx.note('binding B: %d models, %d events (%d step events); by input class: %s'
             % (nmodels, len(events), sum(1 for e in events if e['ev'] == 'step'),
                ', '.join('%s=%d' % kv for kv in sorted(labels.items()))))
    need = ['simple', 'simple:after-history', 'array:surface-first', 'array:top-first+reverse', 'file:surface-first', 'file:top-first+reverse']
    missing = [k for k in need if not any(lb.startswith(k) for lb in labels)]
    if missing:
        raise Machinery('input classes never generated: %r' % missing)
    ctx.add_sample(dict(trace_event=next(e for e in events if e['ev'] == 'step')))
    ctx.add_sample(dict(trace_event=next(e for e in events if e['ev'] == 'profiles')))
    run_canaries(events, allbad)


def run_canaries(events, allbad):
    """Corrupt one logged field of accepted events; TLC must reject exactly those."""
    good = [e for e in events if e['id'] not in allbad]
    if len(good) < len(events) // 2:
        good = events      # most events already rejected (reported above): only require rejection of the corrupted ones
    events = good
    steps = [e for e in events if e['ev'] == 'step' and all(e[k][0] > 0 for k in ('H', 'g', 'z1', 'dz', 'rho', 'mu', 'T'))]
    profs = [e for e in events if e['ev'] == 'profiles' and e['src'] == 'generate_profiles']
    levs = [e for e in events if e['ev'] == 'levels' and e['kind'] == 'simple' and e['n'] >= 2]
    if (not steps or not profs or not levs) and not allbad:
        raise Machinery('no events available for the canaries')
    can, want = [], []
    if steps:
        a = dict(steps[len(steps) // 2]); a['dz'] = [a['dz'][0] + 2000, a['dz'][1]]; a['id'] = 'canary-dz'; can.append(a)
        b = dict(steps[len(steps) // 3]); b['g'] = [b['g'][0] - 3000, b['g'][1]]; b['id'] = 'canary-g'; can.append(b)
        want += ['canary-dz', 'canary-g']
        if steps[0]['id'] not in allbad:
            g = dict(steps[0]); g['id'] = 'canary-good'; can.append(g)
    if profs:
        c = dict(profs[0]); c['lens'] = dict(c['lens'], gravity_profile=c['n'] + 1); c['id'] = 'canary-len'; can.append(c)
        want.append('canary-len')
    if levs:
        d = dict(levs[0]); d['lay'] = [list(x) for x in d['lay']]; d['lay'][0][0] += 5000; d['id'] = 'canary-geo'; can.append(d)
        want.append('canary-geo')
    arrs = [e for e in events if e['ev'] == 'levels' and e['kind'] == 'array' and e['n'] >= 2]
    if arrs:
        # the flag flipped (layers then do not follow the declared orientation); levels listed top first
        a = dict(arrs[0]); a['reverse'] = not a['reverse']; a['id'] = 'canary-orientation'; can.append(a)
        b = dict(arrs[-1]); b['lev'] = list(reversed(b['lev'])); b['id'] = 'canary-levels-reversed'; can.append(b)
        want += ['canary-orientation', 'canary-levels-reversed']
    elif not allbad:
        raise Machinery('no array-profile event available for the canaries')
    if not can:
        return
    ok, bad, res = validate_trace('Trace_Atmosphere', 'Trace_Atmosphere.cfg', can)
    got = sorted(x['id'] for x in bad)
    if got != sorted(want):
        raise Machinery('canary: expected the corrupted events %r to be rejected, TLC rejected %r' % (sorted(want), got))


# --------------------------------------------------------------------------- binding C: history walks
def structure(model, C):
    """The full vertical structure as exposed after (re-)initialisation."""
    gen = model.generate_profiles()
    return dict(levels=np.asarray(model.pressure.pressure_profile_levels), layers=np.asarray(model.pressureProfile),
                z=np.asarray(model.altitude_boundaries), zl=np.asarray(model.altitudeProfile), dz=np.asarray(model.deltaz),
                g=np.asarray(model.gravity_profile), H=np.asarray(model.scaleheight_profile),
                rho=np.asarray(model.densityProfile), T=np.asarray(model.temperatureProfile),
                mu=np.asarray(model.chemistry.muProfile), g0=float(model.planet.gravity),
                stored={k: np.asarray(v) for k, v in gen.items() if k in LAYER_KEYS})


def history_scenarios(X):
    from .. import history
    C = X['C']

    class OneModel(history.Scenario):
        """ONE long-lived TransmissionModel; settings through model[<fitting parameter>]."""

        def __init__(self, name, params, dims, n, base):
            self.name, self.params, self.dims, self.n, self.base = name, params, dims, n, base

        def fresh(self, v):
            c = dict(self.base)
            c.update(dict(zip(self.params, v)))
            chem = X['TaurexChemistry'](fill_gases=['H2', 'He'], ratio=0.17)
            chem.addGas(X['ConstantGas']('H2O', mix_ratio=1e-3))
            m = X['TransmissionModel'](planet=X['Planet'](planet_mass=c['planet_mass'], planet_radius=c['planet_radius']),
                                       star=X['BlackbodyStar'](), temperature_profile=X['Isothermal'](T=c['T']),
                                       chemistry=chem, nlayers=self.n, atm_min_pressure=c['atm_min_pressure'],
                                       atm_max_pressure=c['atm_max_pressure'])
            m.build()
            return m

        def set(self, m, d, value, values):
            m[self.params[d]] = value

        def observe(self, m):
            m.initialize_profiles()
            return structure(m, C)

    base = dict(planet_mass=1.0, planet_radius=1.0, T=1200.0, atm_min_pressure=1e-1, atm_max_pressure=1e6)
    return [OneModel('planet', ['planet_radius', 'planet_mass', 'T'], [[0.7, 1.0, 1.35], [0.6, 1.0, 2.2], [700.0, 1200.0, 1900.0]], 9, base),
            OneModel('grid', ['atm_max_pressure', 'atm_min_pressure', 'planet_radius'],
                     [[1e4, 1e5, 1e7], [1e-3, 1e-1, 5.0], [0.8, 1.0, 1.2]], 6, base),
            OneModel('one-layer', ['atm_max_pressure', 'planet_radius', 'planet_mass'],
                     [[1e3, 1e5, 1e6], [0.9, 1.0, 1.5], [0.5, 1.0, 1.6]], 1, base)]


def replay_history(ctx, v, X):
    from ..history import digest
    vec = v['vector']
    sc = next((s for s in history_scenarios(X) if s.name == vec['history']), None)
    if sc is None:
        raise Machinery('replay: unknown history scenario %r' % vec['history'])
    vals = list(vec['init'])
    obj = sc.fresh(list(vals))
    ok = True
    for step in vec['trail']:
        if step.startswith('set'):
            d, val = step[3:].split('=', 1)
            vals[int(d)] = float(val)
            sc.set(obj, int(d), float(val), list(vals))
        elif step.startswith('eval'):
            ok = ok and digest(sc.observe(obj)) == digest(sc.observe(sc.fresh(list(vals))))
    ctx.verdict(v['clause'], ok, cls=v['cls'], detail='replay of the walk %r from %r' % (vec['trail'], vec['init']), vector=vec)


# --------------------------------------------------------------------------- entry points
def setup():
    X = _imports()
    clear_opacities()
    register_flat_opacity('H2O', [1000.0, 2000.0, 3000.0])
    return X


def run(ctx):
    q = ctx.tier == 'quick'
    ctx.bounds = dict(tier=ctx.tier,
                      exhaustive='n<=3 layers, integer log10 level exponents (spacing 2 or 4), T in {1,2,3}, mu in {1,2}, rad 8, GM in {64,128} (exact rationals)',
                      vectors='every exported grid through SimplePressureProfile and (n>=2) Array/FilePressureProfile in the spec\'s input options (surface first; top first + reverse), two unit maps',
                      traces='n in 1..200, random planets (H0/R 1e-4..~0.03), pressure ranges 1e-6..1e7 Pa, random T (200..3000 K) and mu (ArrayGas) profiles')
    ctx.assumptions = ['ln(P_i/P_{i+1}) is evaluated by the harness (math.log) from the exposed levels',
                       'physical constants (k_B, G, amu) are those of taurex.constants; planet mass/radius are read in SI from the Planet object',
                       'TLC + CommunityModules Json/IOUtils; spec/Dec.tla decimal arithmetic',
                       'FixedMuChemistry double supplies exact small mu values in binding A; binding B uses the real TaurexChemistry',
                       'array / file pressure profiles: layer pressures decreasing in the declared orientation with neighbouring log steps within a factor 1.8, n>=2; the two options that expose the layers top first are outside the quantifier',
                       'history walks: settings changed through model[<fitting parameter>], observed after initialize_profiles(); reference = freshly built model']
    tier = ctx.tier
    ctx.check_spec('exhaustive', 'MC_Atmosphere', 'MC_Atmosphere_%s.cfg' % tier, need_actions=('Levels', 'Step', 'Profiles'))
    ctx.expect_refuted('droplast-refuted', 'MC_Atmosphere', 'MC_Atmosphere_droplast.cfg', 'OneEntryPerLayer')
    ctx.exhaustive = True
    X = setup()
    res = ctx.check_spec('export', 'MC_Atmosphere', 'EX_Atmosphere.cfg', workers=1)
    vecs = res.tagged('VEC')
    if q:
        rng = random.Random(ctx.seed)
        keep = [v for v in vecs if v['n'] == 3]
        rest = [v for v in vecs if v['n'] < 3]
        rng.shuffle(keep)
        vecs = rest[::2] + keep[:120]
    try:
        run_vectors(ctx, vecs, X)
        ctx.note('binding A: %d exported vectors replayed' % len(vecs))
        run_traces(ctx, X)
    finally:
        cleanup_tmp()
    from .. import history
    nh = history.run_history(ctx, history_scenarios(X), 8 if q else 60)
    ctx.note('binding C: %d history walks on long-lived models (planet / grid / one-layer settings)' % nh)


def replay(ctx, violations):
    """Re-drive the real code: rebuild the model of each stored vector / random recipe, project it
    again and judge the fresh event (one TLC run for all trace events)."""
    X = setup()
    try:
        _replay(ctx, violations, X)
    finally:
        cleanup_tmp()


def _replay(ctx, violations, X):
    models, items = {}, []
    for v in violations:
        vec = v['vector']
        if vec.get('history'):
            replay_history(ctx, v, X)
            continue
        if not vec.get('trace'):
            judge_vector(ctx, {k: vec[k] for k in vec if k not in ('units', 'pkind')}, vec['units'], vec['pkind'], X)
            continue
        key = (vec['sub'], vec['n'], vec['pkind'])
        if key not in models:
            model, declared, _ = random_model(random.Random(vec['sub']), vec['n'], vec['pkind'], X)
            ev, floats = events_of(model, vec['mid'], vec['pkind'], declared, X)
            fl = dict(zip([e['id'] for e in ev if e['ev'] == 'step'], floats))
            models[key] = ({e['id']: e for e in ev}, fl)
        evs, fl = models[key]
        e = evs.get(vec['event']['id'])
        if e is None:
            raise Machinery('replay: event %s not produced again' % vec['event']['id'])
        if v['clause'] == 'step_relations_float_1e-9':
            ctx.verdict(v['clause'], float_step_ok(fl[e['id']]), cls=v['cls'], detail='raw floats %r' % (fl[e['id']],), vector=vec)
        else:
            items.append((v, e))
    if items:
        uniq = {e['id']: e for _, e in items}
        ok, bad, _ = validate_trace('Trace_Atmosphere', 'Trace_Atmosphere.cfg', list(uniq.values()))
        badids = {b['id']: set(b['why']) for b in bad}
        for v, e in items:
            why = badids.get(e['id'], set())
            ctx.verdict(v['clause'], v['clause'] not in why, cls=v['cls'], detail='replay %s: TLC says %s' % (e['id'], sorted(why)),
                        vector=v['vector'])
