"""C11 -- vertical structure is hydrostatic, ordered and one value per layer.

Spec: spec/Atmosphere.tla (relations over an abstract arithmetic), spec/MC_Atmosphere.tla (exact
rationals, n <= 3, exhaustive + export), spec/Trace_Atmosphere.tla (exact decimals spec/Dec.tla,
local step obligation per layer).
Binding A: TLC-exported (grid, T, mu, planet) -> exact z, g, H, rho, profile lengths, replayed into
           real TransmissionModels on SimplePressureProfile and ArrayPressureProfile (1e-9).
Binding B: random planets / pressure ranges / T and mu profiles, n = 1..200, both pressure profile
           classes; events levels / step (one per layer, fields read from the *exposed* per-layer
           profiles at index i) / profiles (attributes, generate_profiles(), store_profiles());
           every event validated by TLC at 1e-7 in exact decimal arithmetic + canaries.
           Array AND file pressure profiles in both admissible input options of Atmosphere.tla
           (surface first, top first + reverse=True; file units, header, column, delimiter); models
           observed after their planet / pressure settings were changed through the fitting
           parameters (kind simple:after-history: the step obligation is local, so it is owed by a
           long-lived model exactly as by a new one).
Binding C: spec/Functional.tla walks (harness/history.py): ONE long-lived model, settings changed
           through model[<fitting parameter>], the full vertical structure after every evaluation
           must equal that of a freshly built model.
Second round (after seeded changes C11-4..6):
  * chemistry TABLES: the spec's composition is a table tab[layer][gas] with pairwise distinct
    entries (MC_Atmosphere action Chemistry, invariant MixAlignedWithLayers; its mu is what the
    recurrence uses).  Binding A replays every vector through the real ChemistryFile (square case
    n = number of gases = 3 included); binding B draws file chemistries (2..6 gases, square case
    forced for small n) and TaurexChemistry + ArrayGas tables and logs a `chem` event.
  * every public route, every length unit: Planet.calculate_scale_properties(length_units=...) is
    a second route of the `step` events (HydroStepRelUnit: the relations hold between the RETURNED
    numbers and the constants expressed in the unit); binding A compares the route with the exact
    vectors in several units.
  * evaluation is read-only (MC action Evaluate): binding B re-validates the step obligation on
    models AFTER model() / model_contrib() / model_full_contrib() (transmission with both path
    methods, emission); binding C evaluates the long-lived model before reading the structure and
    compares with a fresh, un-evaluated one.
Fifth round (after seeded change C11-14): the ELEMENT TYPE / container in which the profile inputs are handed
over (MC_Atmosphere!ElementTypes, exported per vector as `etypes`; WorkArrays = "inherit_element_type" is refuted by
TLC on StructureIndependentOfElementType).  Binding A builds every vector a second time with its temperatures in one
of the exported presentations (int64 / int32 / float32 / float64 arrays, lists of ints) through TemperatureArray with one
entry per layer, and hands Planet.calculate_scale_properties arrays of those element types (every input array whose
numbers the type represents exactly); the expected values are the same exact vectors (the unit maps have whole T0).
Third round (after seeded change C11-9): the TYPE of the components a model is assembled from, and the
arrays the model shares with them.
  * MC_Atmosphere: the temperature component reads the model's own layer-pressure array whenever its
    profile is evaluated (Step, Evaluate, Read), the composition reads the model's temperature array;
    action Read + property ReadsAreRepeatable; ShareEffect = a component that writes into what it is
    handed is refuted by TLC (LayerIsGeometricMean, ReadsAreRepeatable).  Exported input class
    `tkinds` (Atmosphere.tla!TempComponentKinds): binding A builds every vector with each built-in
    temperature component that can be told T (array, array + pressure points, file, file + pressure
    column, Rodgers2000 with identity covariance, NPoint with nodes on the layers, Isothermal).
  * binding B draws every built-in temperature component (also Guillot2010, smoothed NPoint,
    correlated Rodgers2000, interpolated arrays) and every gas type (ConstantGas, ArrayGas,
    TwoLayerGas, TwoPointGas, PowerGas), as built, after a settings history and after evaluation; new
    trace event `reads` (two consecutive reads of every exposed array; arrays handed to
    calculate_scale_properties / <temperature>.initialize_profile / <chemistry>.initialize_chemistry
    against the harness's private copies), clauses reads_repeatable and handed_arrays_unchanged.
  * binding C: the long-lived models of the history walks use Guillot2010 / NPoint / Rodgers2000 and
    TwoLayerGas / PowerGas / TwoPointGas with their own fitting parameters among the settings.
"""
import math
import os
import random
import shutil
import tempfile
import time
from concurrent.futures import ThreadPoolExecutor

import numpy as np

from ..core import Machinery, frac, close, validate_trace
from ..fx_vertical import (dec, FixedMuChemistry, clear_opacities, register_flat_opacity, layer_len,
                           ln_ratio)
from ..fx_chemtable import (UNITS, unit_factor, units_consistent, write_table, stated_weights_chemistry_file,
                            EVAL_OPS, evaluate, add_contributions, tmpfile)
from ..fx_components import (TOLD_KINDS, TEMP_KINDS, GAS_TYPES, told_temperature, temperature_recipe, finish_guillot,
                             make_temperature, gas_recipe, make_taurex_chemistry, read_exposed, same_array, sample)

PPB = 100            # relative tolerance of the TLC-side comparison, parts per 1e9 (1e-7)
REL = 1e-9           # Python-side comparison against TLC's exact rationals (binding A)
# float32 presentation: the NUMBERS are the same (whole kelvins below 2**24), but products of a float32 entry with a
# Python scalar may legitimately be rounded to 24 bits (NumPy's scalar promotion): a few units of 2**-24 per layer
REL32 = 16 * 2.0 ** -24
# presentations of a profile input besides the baseline (list of floats), in the order binding A rotates through
ELEMENT_TYPES = ['int64', 'float32', 'list_of_int', 'int32', 'float64']
LAYER_KEYS = ['pressure_profile', 'temp_profile', 'density_profile', 'altitude_profile', 'gravity_profile',
              'scaleheight_profile', 'mu_profile', 'active_mix_profile', 'inactive_mix_profile']
CHEM_CLAUSES = ['chem_wellformed', 'mixing_ratios_aligned_with_layers', 'mu_is_weighted_mean_of_layer']
GAS_POOL = ['H2', 'He', 'CO2', 'N2', 'CH4']      # besides H2O (the only gas with a registered cross-section)
READ_CLAUSES = ['reads_repeatable', 'handed_arrays_unchanged', 'temperature_aligned_with_layers']
STEP_CLAUSES = ['step_entries_present_and_positive', 'altitude_zero_at_surface', 'altitude_strictly_increasing',
                'dz_is_level_difference', 'dz_is_H_ln_pressure_ratio', 'H_is_kT_over_mu_g', 'g_inverse_square',
                'density_ideal_gas']


def _imports():
    from taurex.model import TransmissionModel, EmissionModel
    from taurex.data.profiles.chemistry.filechemistry import ChemistryFile
    from taurex.util import get_molecular_weight
    from taurex.data.planet import Planet
    from taurex.data.stellar import BlackbodyStar
    from taurex.data.profiles.pressure import SimplePressureProfile
    from taurex.data.profiles.pressure.arraypressure import ArrayPressureProfile
    from taurex.data.profiles.pressure.filepressure import FilePressureProfile
    from taurex.data.profiles.temperature.temparray import TemperatureArray
    from taurex.data.profiles.temperature import Isothermal
    from taurex.data.profiles.chemistry import TaurexChemistry, ConstantGas
    from taurex.data.profiles.chemistry.gas.arraygas import ArrayGas
    from taurex import constants as C
    return locals()



# --------------------------------------------------------------------------- array / file inputs
FILE_UNITS = ['Pa', 'bar', 'mbar', 'hPa', 'kPa']
FILE_LAYOUTS = [dict(), dict(skiprows=1), dict(usecols=1), dict(usecols=1, skiprows=2, delimiter=',')]
_TMP = []


def tmpdir():
    if not _TMP:
        _TMP.append(tempfile.mkdtemp(prefix='c11-%d-' % os.getpid(), dir='/tmp'))
    return _TMP[0]


def cleanup_tmp():
    while _TMP:
        shutil.rmtree(_TMP.pop(), ignore_errors=True)


def array_profile(X, klass, input_pa, reverse, unit='Pa', layout=None, tag='p'):
    """An ArrayPressureProfile / FilePressureProfile for the pressures `input_pa` (Pa) as the user
    hands them over (orientation already applied) and the flag `reverse`."""
    arr = np.array([float(x) for x in input_pa])
    if klass == 'array':
        return X['ArrayPressureProfile'](arr, reverse=reverse) if reverse else X['ArrayPressureProfile'](arr)
    from astropy import units as u
    per = float(u.Unit(unit).to('Pa'))
    layout = dict(layout or {})
    col, skip, delim = int(layout.get('usecols', 0)), int(layout.get('skiprows', 0)), layout.get('delimiter')
    path = os.path.join(tmpdir(), '%s.dat' % tag)
    sep = delim or ' '
    with open(path, 'w') as f:
        for k in range(skip):
            f.write('# pressure column %d, unit %s\n' % (col, unit))
        for j, x in enumerate(arr):
            cells = [repr(float(j))] * col + [repr(float(x / per))]
            f.write(sep.join(cells) + '\n')
    kw = dict(filename=path, units=unit, reverse=reverse)
    if col:
        kw['usecols'] = col
    if skip:
        kw['skiprows'] = skip
    if delim:
        kw['delimiter'] = delim
    return X['FilePressureProfile'](**kw)


def option_label(klass, opt, unit=None):
    return '%s:%s%s%s' % (klass, 'top-first' if opt['orient'] == 'top_first' else 'surface-first',
                          '+reverse' if opt['reverse'] else '', (':' + unit) if klass == 'file' else '')

# --------------------------------------------------------------------------- binding A
def present(etype, values):
    """the numbers `values` in the presentation `etype` of MC_Atmosphere!ElementTypes"""
    vals = [float(x) for x in values]
    if etype in ('int64', 'int32', 'list_of_int'):
        if not all(x.is_integer() and abs(x) < 2 ** 31 for x in vals):
            raise Machinery('integer presentation of non-integer values %r' % (vals,))
        ints = [int(x) for x in vals]
        return ints if etype == 'list_of_int' else np.array(ints, dtype=etype)
    if etype == 'list_of_float':
        return vals
    if etype in ('float64', 'float32'):
        return np.array(vals, dtype=etype)
    raise Machinery('unknown element type %r exported by the spec' % (etype,))


def present_if_exact(etype, arr):
    """`arr` (float64) as an ndarray of the element type of `etype` when that type holds the same numbers, else as it is"""
    dt = {'list_of_int': 'int64', 'list_of_float': 'float64'}.get(etype, etype)
    with np.errstate(all='ignore'):
        if np.all(np.abs(arr) < 2 ** 31) and np.array_equal(arr.astype(dt).astype(float), arr):
            return arr.astype(dt)
    return arr


def element_type(v, j):
    kinds = [e for e in ELEMENT_TYPES if e in v.get('etypes', [])]
    unknown = set(v.get('etypes', [])) - set(ELEMENT_TYPES) - {'list_of_float'}
    if not kinds or unknown:
        raise Machinery('vector with element types %r' % (v.get('etypes'),))
    return kinds[j % len(kinds)]


UNIT_SETS = [dict(T0=500.0, R0=1.0e7, m0=2.0), dict(T0=150.0, R0=2.5e6, m0=11.0)]
# unit maps of the element-type presentations: whole T0, and surface gravities of a few m/s2 (1.9 .. 4.6), so that a
# gravity / scale height cut to a whole number stays finite and positive (a silent error, not an exception)
ELEMENT_UNIT_SETS = [dict(T0=2000.0, R0=1.0e7, m0=2.0), dict(T0=1200.0, R0=2.5e6, m0=4.0)]


def told_kind(v, j):
    """the j-th (cyclically) of the temperature component kinds the spec exports for this vector"""
    kinds = [k for k in TOLD_KINDS if k.split('/')[0] in v.get('tkinds', ['array'])]
    if not kinds:
        raise Machinery('vector without temperature component kinds: %r' % (v.get('tkinds'),))
    return kinds[j % len(kinds)]


def build_from_vector(v, units, pkind, X, tkind='array', etype=None):
    C = X['C']
    n = v['n']
    T0, R0, m0 = units['T0'], units['R0'], units['m0']
    gm_si = C.KBOLTZ * T0 * R0 * math.log(10.0) * v['gm'] / (m0 * C.AMU)
    planet = X['Planet'](planet_mass=(gm_si / C.G) / C.MJUP, planet_radius=v['rad'] * R0 / C.RJUP)
    if pkind == 'simple':
        pp = X['SimplePressureProfile'](n, 10.0 ** v['lev'][-1], 10.0 ** v['lev'][0])
    else:
        # pkind = dict(klass, opt (index into the spec's exported input options), unit, layout)
        opt = v['inputs'][pkind['opt']]
        pp = array_profile(X, pkind['klass'], [10.0 ** e for e in opt['array']], bool(opt['reverse']),
                           unit=pkind.get('unit', 'Pa'), layout=FILE_LAYOUTS[pkind.get('layout', 0)], tag='vec')
    # the built-in temperature component of kind `tkind`, told the vector's temperatures (and, where the kind
    # takes pressure nodes, the layer pressures the vector's grid declares)
    # (table_<cover>/<route>: the spec's table for that cover -- nodes at doubled exponents, temperatures in units of T0)
    nodes = [(10.0 ** (nd['l'] / 2.0), nd['T'] * T0) for nd in v['tables'][tkind.split('/')[0]]] if tkind.startswith('table_') else None
    if etype is not None:
        # one entry per layer, no pressure points: the component exposes the very array it was given
        if tkind != 'array':
            raise Machinery('element types are presented through the array component')
        tp = X['TemperatureArray'](tp_array=present(etype, [t * T0 for t in v['T']]))
    else:
        tp = told_temperature(tkind, [t * T0 for t in v['T']], [10.0 ** e for e in v['lay']], [10.0 ** e for e in v['lev']], tmpdir(), nodes)
    if pkind == 'simple':
        # the real ChemistryFile on the spec's table (rows = layers, columns = gases); which column is
        # the active gas rotates with the vector
        names = vector_gas_names(v)
        path = write_table(tmpfile(tmpdir(), 'vec-chem'), [[x / float(v['den']) for x in row] for row in v['tab']])
        chem = stated_weights_chemistry_file(names, path, {nm: w * m0 * C.AMU for nm, w in zip(names, v['w'])})
    else:
        chem = FixedMuChemistry([float(frac(m)) * m0 * C.AMU for m in v['mu']])
    model = X['TransmissionModel'](planet=planet, star=X['BlackbodyStar'](), pressure_profile=pp,
                                   temperature_profile=tp, chemistry=chem)
    model.build()
    return model, gm_si


def vector_gas_names(v):
    base = ['H2O', 'H2', 'He']
    r = (sum(v['T']) + v['n'] + v['gm'] // 64) % 3
    return base[r:] + base[:r]


def at(a, k):
    try:
        if a is None or k >= len(a):
            return None
        return float(a[k])
    except Exception:
        return None


def judge_vector(ctx, v, units, pkind, X, tkind='array', etype=None):
    C = X['C']
    n = v['n']
    model, gm_si = build_from_vector(v, units, pkind, X, tkind, etype)
    R0, T0 = units['R0'], units['T0']
    vec = dict(v, units=units, pkind=pkind, tkind=tkind, etype=etype)
    tol = [REL32 if etype == 'float32' else REL]
    cls0 = '%s:n=%d%s' % (pkind if pkind == 'simple' else option_label(pkind['klass'], v['inputs'][pkind['opt']], pkind.get('unit')), n,
                          ('' if tkind == 'array' else ':T=' + tkind) + ('' if etype is None else ':T-elements=' + etype))

    def cmp(clause, name, got, want, k):
        ok = got is not None and close(got, want, rel=tol[0], abs_=0.0 if want != 0 else 1e-300)
        ctx.verdict(clause, ok, cls='%s:%s%s' % (cls0, name, ':entry-absent' if got is None else ''),
                    detail='%s[%d] got %r expected %r' % (name, k, got, want), vector=vec)

    lev = model.pressure.pressure_profile_levels
    for k in range(n + 1):
        cmp('levels_log_spaced', 'pressure_levels', at(lev, k), 10.0 ** v['lev'][k], k)
        cmp('altitude_recurrence', 'altitude_boundaries', at(model.altitude_boundaries, k), float(frac(v['z'][k])) * R0, k)
    for k in range(n):
        cmp('layer_is_geometric_mean', 'pressure_profile', at(model.pressureProfile, k), 10.0 ** v['lay'][k], k)
        cmp('temperature_aligned_with_layers', 'temp_profile', at(model.temperatureProfile, k), v['T'][k] * T0, k)
        cmp('altitude_recurrence', 'altitude_profile', at(model.altitudeProfile, k), float(frac(v['z'][k])) * R0, k)
        cmp('altitude_recurrence', 'deltaz', at(model.deltaz, k), float(frac(v['z'][k + 1]) - frac(v['z'][k])) * R0, k)
        cmp('g_inverse_square', 'gravity_profile', at(model.gravity_profile, k),
            float(frac(v['g'][k])) * gm_si / (v['gm'] * R0 * R0), k)
        cmp('H_is_kT_over_mu_g', 'scaleheight_profile', at(model.scaleheight_profile, k),
            float(frac(v['H'][k])) * R0 / math.log(10.0), k)
        cmp('density_ideal_gas', 'density_profile', at(model.densityProfile, k),
            float(frac(v['rho'][k])) / (C.KBOLTZ * T0), k)
    z = np.asarray(model.altitude_boundaries, dtype=float)
    ctx.verdict('altitude_strictly_increasing', bool(z[0] == 0.0 and np.all(np.diff(z) > 0)), cls=cls0,
                detail='boundaries %r' % z.tolist(), vector=vec)
    m0 = units['m0']
    for k in range(n):
        cmp('mu_is_weighted_mean_of_layer', 'mu_profile', at(model.chemistry.muProfile, k), float(frac(v['mu'][k])) * m0 * C.AMU, k)
    if pkind == 'simple':
        # exposed mixing ratios, gas by gas and layer by layer, against the spec's mix[gas][layer]
        ch = model.chemistry
        names = vector_gas_names(v)
        gen = model.generate_profiles()
        stored = {}
        for key, gl in (('active_mix_profile', list(ch.activeGases)), ('inactive_mix_profile', list(ch.inactiveGases))):
            for idx, nm in enumerate(gl):
                try:
                    stored[nm] = gen[key][idx]
                except Exception:
                    stored[nm] = None
        for gi, nm in enumerate(names):
            try:
                direct = ch.get_gas_mix_profile(nm)
            except Exception:
                direct = None
            for k in range(n):
                want = v['mix'][gi][k] / float(v['den'])
                cmp('mixing_ratios_aligned_with_layers', 'get_gas_mix_profile', at(direct, k), want, k)
                cmp('mixing_ratios_aligned_with_layers', 'stored_mix_profile', at(stored.get(nm), k), want, k)
        # the second public route, in several length units: what is RETURNED is the exact structure times u
        T = np.array([t * T0 for t in v['T']])
        Pl = np.array([10.0 ** e for e in v['lev']])
        mu = np.array([float(frac(m)) * m0 * C.AMU for m in v['mu']])
        j0 = sum(v['T']) + v['n'] + v['lev'][0]
        # ... and in several element types: the first call float64 throughout (or the model's presentation), the others
        # with every input array in a rotating element type wherever that type holds the same numbers
        ets = (etype or 'float64', element_type(v, j0), element_type(v, j0 + 2))
        for unit, et in zip(('m', UNITS[1 + j0 % (len(UNITS) - 1)], UNITS[1 + (j0 + 3) % (len(UNITS) - 1)]), ets):
            u = unit_factor(unit)
            aT, aP, amu = present_if_exact(et, T), present_if_exact(et, Pl), present_if_exact(et, mu)
            if et not in ('float64', 'list_of_float') and aT.dtype == np.float64:
                raise Machinery('temperatures %r not presentable as %s' % (T.tolist(), et))
            tol[0] = REL32 if 'float32' in (et, etype) else REL
            try:
                rz, rH, rg, rdz = model.planet.calculate_scale_properties(aT, aP, amu, length_units=unit)
            except Exception:
                rz = rH = rg = rdz = None
            rname = 'route:%s%s' % (unit, '' if et == 'float64' else ':elements=' + str(aT.dtype))
            for k in range(n + 1):
                cmp('altitude_recurrence', rname + ':z', at(rz, k), float(frac(v['z'][k])) * R0 * u, k)
            for k in range(n):
                cmp('altitude_recurrence', rname + ':dz', at(rdz, k), float(frac(v['z'][k + 1]) - frac(v['z'][k])) * R0 * u, k)
                cmp('g_inverse_square', rname + ':g', at(rg, k), float(frac(v['g'][k])) * gm_si / (v['gm'] * R0 * R0) * u, k)
                cmp('H_is_kT_over_mu_g', rname + ':H', at(rH, k), float(frac(v['H'][k])) * R0 / math.log(10.0) * u, k)
            for name, arr, want in (('z', rz, n + 1), ('dz', rdz, n), ('g', rg, n), ('H', rH, n)):
                ctx.verdict('one_entry_per_layer', layer_len(arr) == want, cls='%s:%s:%s' % (cls0, rname, name),
                            detail='%s returned by calculate_scale_properties(length_units=%r) has %d entries, expected %d'
                                   % (name, unit, layer_len(arr), want), vector=vec)
    tol[0] = REL32 if etype == 'float32' else REL
    lens = observed_lengths(model)
    for src, rec in lens.items():
        for name, want in v['prof'].items():
            if name not in rec:
                continue
            ctx.verdict('one_entry_per_layer', rec[name] == want, cls='%s:%s:%s' % (cls0, src, name),
                        detail='%s from %s has %d entries, expected %d' % (name, src, rec[name], want), vector=vec)
    # after every exposed profile has been read (several times): the pressures are still the vector's
    for k in range(n):
        cmp('layer_is_geometric_mean', 'pressure_profile:after-all-reads', at(model.pressureProfile, k), 10.0 ** v['lay'][k], k)
    for k in range(n + 1):
        cmp('levels_log_spaced', 'pressure_levels:after-all-reads', at(model.pressure.pressure_profile_levels, k), 10.0 ** v['lev'][k], k)


def judge_vector_safely(ctx, v, units, pkind, X, tkind, etype=None):
    """an exception of the implementation while a vector is built / read is a verdict for that vector"""
    try:
        judge_vector(ctx, v, units, pkind, X, tkind, etype)
    except Machinery:
        raise
    except Exception as e:
        import traceback
        where = traceback.extract_tb(e.__traceback__)[-1]
        ctx.verdict('implementation_raised', False,
                    cls='%s@%s:%s:vector:%s:T=%s%s' % (type(e).__name__, os.path.basename(where.filename), where.name,
                                                      pkind if pkind == 'simple' else pkind['klass'], tkind,
                                                      '' if etype is None else ':T-elements=' + etype),
                    detail='%s: %s (n=%d)' % (type(e).__name__, e, v['n']), vector=dict(v, units=units, pkind=pkind, tkind=tkind, etype=etype))


def run_vectors(ctx, vecs, X):
    if not vecs:
        raise Machinery('no vectors exported')
    used = {told_kind(v, j) for j, v in enumerate(vecs)} | {told_kind(v, j // 2 + 3) for j, v in enumerate(vecs) if v['n'] >= 2}
    if not set(TOLD_KINDS) <= used:
        raise Machinery('temperature component kinds never built in binding A: %r' % sorted(set(TOLD_KINDS) - used))
    for j, v in enumerate(vecs):
        units = UNIT_SETS[j % len(UNIT_SETS)]
        judge_vector_safely(ctx, v, units, 'simple', X, told_kind(v, j))
        # the same vector with its temperatures handed over in another element type / container
        judge_vector_safely(ctx, v, ELEMENT_UNIT_SETS[(j // len(ELEMENT_TYPES)) % len(ELEMENT_UNIT_SETS)], 'simple', X, 'array', element_type(v, j))
        if v['n'] >= 2:
            # the spec's input options (orientation x reverse flag) in turn, through both classes
            nopt = len(v['inputs'])
            pk = dict(klass='array' if (j // nopt) % 2 == 0 else 'file', opt=j % nopt,
                      unit=FILE_UNITS[(j // (2 * nopt)) % len(FILE_UNITS)], layout=(j // 3) % len(FILE_LAYOUTS))
            judge_vector_safely(ctx, v, units, pk, X, told_kind(v, j // 2 + 3))


# --------------------------------------------------------------------------- projection
class RecordingOutput:
    """Stands in for an output group: remembers what store_profiles() writes."""

    def __init__(self):
        self.arrays = {}

    def write_array(self, name, value, metadata=None):
        self.arrays[name] = value


def observed_lengths(model):
    from taurex.util.output import store_profiles
    ch = model.chemistry
    attrs = dict(pressure_profile=layer_len(model.pressureProfile), temp_profile=layer_len(model.temperatureProfile),
                 density_profile=layer_len(model.densityProfile), altitude_profile=layer_len(model.altitudeProfile),
                 gravity_profile=layer_len(model.gravity_profile), scaleheight_profile=layer_len(model.scaleheight_profile),
                 mu_profile=layer_len(ch.muProfile), active_mix_profile=layer_len(ch.activeGasMixProfile),
                 inactive_mix_profile=layer_len(ch.inactiveGasMixProfile),
                 pressure_levels=layer_len(model.pressure.pressure_profile_levels),
                 altitude_boundaries=layer_len(model.altitude_boundaries), deltaz=layer_len(model.deltaz))
    gen = {k: layer_len(val) for k, val in model.generate_profiles().items()}
    out = RecordingOutput()
    store_profiles(out, model)
    stored = {k: layer_len(val) for k, val in out.arrays.items()}
    return dict(attributes=attrs, generate_profiles=gen, store_profiles=stored)


# --------------------------------------------------------------------------- binding B
def random_chemistry(rng, n, X, want=None, gas=None, lmax=6.0, lmin=-2.0):
    """-> (chemistry, declared table).  The declared table is what the USER handed over per layer:
    decl = dict(kind, names (declared gases, column order), table[layer][column]); its entries are
    pairwise distinct (random reals), so every misalignment (shift, reversal, transposition of a
    square table) changes it.  decl['make']() builds a second, identical, never-used chemistry;
    decl['gastypes']: the gas types of a TaurexChemistry (`gas` forces the type of H2O)."""
    r0, r1 = rng.random(), rng.random()
    if want in ('file', 'file-square') or (want is None and gas is None and r0 < 0.4):
        # file chemistry: one row per layer (surface first), one column per gas; square case
        # (as many gases as layers) forced for about half of the small grids
        ngas = n if (2 <= n <= 6 and (r1 < 0.55 or want == 'file-square')) else rng.randint(2, 6)
        names = ['H2O'] + rng.sample(GAS_POOL, ngas - 1)
        rng.shuffle(names)
        table = []
        for k in range(n):
            raw = [10.0 ** rng.uniform(-3.0, 0.0) for _ in range(ngas)]
            tot = sum(raw)
            table.append([x / tot for x in raw])
        path = write_table(tmpfile(tmpdir(), 'rnd-chem'), table)
        # what the file says (repr round-trips exactly)
        make = lambda: X['ChemistryFile'](gases=list(names), filename=path)
        return make(), dict(kind='file:%s' % ('square' if ngas == n else 'ngas=%d' % ngas), names=names, table=table,
                            make=make, gastypes=[])
    # TaurexChemistry (H2 / He fill): H2O, the only gas with a registered cross-section, is always there; every gas is
    # of any of the built-in types (a two-point profile needs two layers); caps keep the sum of the mixing ratios below 1
    ratio = rng.uniform(0.05, 0.3)

    def gtype(p_array, p_constant):
        r = rng.random()
        if r < p_array:
            return 'array'
        if r < p_array + p_constant:
            return 'constant'
        return rng.choice([t for t in GAS_TYPES if t not in ('array', 'constant') and not (t == 'twopoint' and n < 2)])
    gases = [gas_recipe(gas or gtype(0.45, 0.2), 'H2O', rng, n, lmax, lmin, 0.4)]
    if rng.random() < 0.6:
        gases.append(gas_recipe(gtype(0.6, 0.1), 'CO2', rng, n, lmax, lmin, 0.25))
    if rng.random() < 0.5:
        gases.append(gas_recipe(gtype(0.0, 0.6), 'N2', rng, n, lmax, lmin, 0.1))
    if rng.random() < 0.3:
        gases.append(gas_recipe(gtype(0.6, 0.1), 'CH4', rng, n, lmax, lmin, 0.1))
    cols = {g['name']: g['arr'] for g in gases if g['type'] == 'array'}
    names = list(cols)
    make = lambda: make_taurex_chemistry(ratio, gases)
    return make(), dict(kind='taurex:arraygas=%d%s' % (len(names), ':square' if len(names) == n else ''), names=names,
                        table=[[cols[nm][k] for nm in names] for k in range(n)], make=make,
                        gastypes=sorted(set(g['type'] for g in gases)))


MODEL_KINDS = ['transmission-old-path', 'transmission-new-path', 'emission']


FORCED = [(3, 'simple', dict(chem='file-square')), (2, 'array', dict(chem='file-square', klass='array', orient='top_first')),
          (5, 'evaluated', dict(chem='file-square', mkind='transmission-new-path')),
          (4, 'evaluated', dict(chem='taurex', mkind='emission')), (6, 'evaluated', dict(chem='file', mkind='transmission-old-path')),
          (1, 'evaluated', dict(mkind='transmission-new-path')), (7, 'simple', dict(unit='km', chem='taurex')),
          (8, 'simple', dict(unit='cm', chem='file')), (9, 'history', dict(unit='Rjup')),
          (4, 'array', dict(klass='array', orient='surface_first')), (5, 'array', dict(klass='file', orient='surface_first')),
          (3, 'array', dict(klass='file', orient='top_first')),
          # every built-in temperature component, as built and after evaluation (and after a settings history for those
          # that read the pressure array); every gas type
          (6, 'simple', dict(temp='guillot', chem='taurex', gas='power')), (5, 'evaluated', dict(temp='guillot', mkind='transmission-old-path', contribs=['flatmie', 'absorption', 'leemie'])),
          (1, 'simple', dict(temp='guillot')), (7, 'history', dict(temp='guillot')),
          (7, 'simple', dict(temp='npoint', chem='taurex', gas='twolayer')), (4, 'evaluated', dict(temp='npoint', mkind='emission')),
          (5, 'history', dict(temp='npoint')),
          (8, 'array', dict(temp='rodgers', chem='taurex', gas='twopoint')), (3, 'evaluated', dict(temp='rodgers', mkind='transmission-new-path')),
          (5, 'simple', dict(temp='array-ppoints')), (6, 'evaluated', dict(temp='array-ppoints', chem='taurex', gas='twolayer')),
          (4, 'simple', dict(temp='file-pcol')), (6, 'history', dict(temp='file-pcol')), (3, 'evaluated', dict(temp='file')),
          (4, 'simple', dict(temp='rodgers-cov')), (9, 'evaluated', dict(temp='array-interp', chem='taurex', gas='power')),
          (2, 'evaluated', dict(temp='isothermal', chem='taurex', gas='twopoint'))]
# a tabulated T(P) on its own pressure nodes: the grid reaches beyond the table on both sides / the table beyond the grid
# (generated after the random cases, so that the sub-seeds of the earlier cases stay what they were)
FORCED4 = [(6, 'simple', dict(temp='array-ppoints', cover='inside')), (9, 'evaluated', dict(temp='file-pcol', cover='inside')),
          (5, 'history', dict(temp='array-ppoints', cover='inside')), (4, 'array', dict(temp='file-pcol', cover='around', klass='array')),
          (40, 'simple', dict(temp='file-pcol', cover='inside')), (3, 'simple', dict(temp='array-ppoints', cover='around')),
           # the (kind, as built / after evaluation) classes that `run_traces` requires and that were left to chance so far
           # (VERIF_SEED=5 did not draw a rodgers-cov model that is evaluated)
           (3, 'simple', dict(temp='isothermal')), (5, 'simple', dict(temp='array-interp')), (4, 'simple', dict(temp='file')),
           (5, 'evaluated', dict(temp='rodgers-cov'))]


def random_model(rng, n, pkind, X, force=None):
    """-> (model, declared, label).  `force` pins some of the random choices (input classes that every
    run must contain).  pkind: 'simple' | 'array' | 'history' | 'evaluated'.
    declared: what the spec is told about the case: pmax/pmin (simple: the CURRENT settings) or
    input/reverse (array and file profiles), the planet, the chemistry table and the length unit of
    the second route.  'history' is a simple-grid model whose planet and pressure settings are
    changed through the public fitting parameters (in random order, with evaluations in between)
    before it is observed; 'evaluated' is a model (transmission with either path method, or
    emission; one to three contributions) that has been run through its public evaluation entry
    points before it is observed."""
    C = X['C']
    force = force or {}
    # the temperature component: any built-in type (the per-layer array of the earlier rounds stays the most frequent)
    tkind = force.get('temp') or ('array' if rng.random() < 0.4 else rng.choice(TEMP_KINDS))

    def draw_grid(radius_m=None):
        if radius_m is None:
            radius_m = rng.uniform(0.05, 2.0) * C.RJUP
        return dict(radius=radius_m / C.RJUP, lmax=rng.uniform(3.0, 7.0), lmin=rng.uniform(-6.0, 1.0))

    def draw_mass(c, tmax):
        span = (c['lmax'] - c['lmin']) * math.log(10.0)
        # planet mass from a chosen surface scale height (mu >= 2 amu): keeps the atmosphere finite
        h_over_r = 10.0 ** rng.uniform(-4.0, math.log10(0.5 / span))
        c['mass'] = C.KBOLTZ * tmax * c['radius'] * C.RJUP / (2.0 * C.AMU * C.G * h_over_r) / C.MJUP
        return c
    cfg = draw_grid()
    lmax, lmin = cfg['lmax'], cfg['lmin']
    trec = temperature_recipe(tkind, rng, n, lmax, lmin, tmpdir(), force.get('cover'))
    if pkind == 'history' and tkind == 'npoint':
        # the pressure range is going to change under the component: no intermediate nodes (they would have to stay
        # strictly inside every range the walk visits)
        trec.update(tpoints=[], ppoints=[])
    draw_mass(cfg, trec['tmax'])
    cfgs = [cfg]
    if pkind == 'history':
        # a second configuration; the radius stays within a factor 1.4 so that the intermediate
        # (mixed) configurations are ordinary atmospheres too
        cfgs.append(draw_mass(draw_grid(radius_m=cfg['radius'] * C.RJUP * rng.uniform(0.7, 1.4)), trec['tmax']))
    # Guillot2010: the infra-red opacity is drawn for the weakest gravity / highest pressure the model will see
    finish_guillot(trec, C.G * min(c['mass'] for c in cfgs) * C.MJUP / (max(c['radius'] for c in cfgs) * C.RJUP) ** 2,
                   10.0 ** max(c['lmax'] for c in cfgs))
    planet = X['Planet'](planet_mass=cfg['mass'], planet_radius=cfg['radius'])
    chem, decl = random_chemistry(rng, n, X, force.get('chem'), force.get('gas'), lmax, lmin)
    tp = make_temperature(trec)
    grid = 'array' if (pkind == 'array' or (pkind == 'evaluated' and n >= 2 and rng.random() < 0.35)) else 'simple'
    declared = dict(input=[], reverse=False, radius=cfg['radius'], mass=cfg['mass'],   # the settings as the user made them
                    grid=grid, chem=decl, unit=force.get('unit') or rng.choice(UNITS), temp=trec,
                    make_temp=lambda: make_temperature(trec))
    if grid == 'simple':
        pp = X['SimplePressureProfile'](n, 10.0 ** lmin, 10.0 ** lmax)
        declared.update(pmax=10.0 ** lmax, pmin=10.0 ** lmin)
        label = 'simple'
    else:
        # layer pressures with moderately uneven log steps (ratio of neighbouring steps < 1.8): every
        # reading of "the levels of an array profile" brackets these layers with decreasing levels
        steps = [rng.uniform(1.0, 1.8) for _ in range(n - 1)]
        tot = sum(steps)
        lp = [lmax]
        for st in steps:
            lp.append(lp[-1] - st * (lmax - lmin) / tot)
        lay = [10.0 ** e for e in lp]                       # surface first
        opt = dict(orient='top_first', reverse=True) if rng.random() < 0.5 else dict(orient='surface_first', reverse=False)
        if force.get('orient'):
            opt = dict(orient=force['orient'], reverse=(force['orient'] == 'top_first'))
        given = lay[::-1] if opt['orient'] == 'top_first' else lay
        klass = 'file' if rng.random() < 0.4 else 'array'
        klass = force.get('klass') or klass
        unit = rng.choice(FILE_UNITS)
        pp = array_profile(X, klass, given, opt['reverse'], unit=unit, layout=rng.choice(FILE_LAYOUTS), tag='rnd')
        declared.update(input=given, reverse=opt['reverse'])
        label = option_label(klass, opt, unit)
    mkind = rng.choice(MODEL_KINDS) if pkind == 'evaluated' else 'transmission-old-path'
    if pkind == 'evaluated' and force.get('mkind'):
        mkind = force['mkind']
    common = dict(planet=planet, star=X['BlackbodyStar'](), pressure_profile=pp, temperature_profile=tp, chemistry=chem)
    if mkind == 'emission':
        model = X['EmissionModel'](ngauss=rng.choice([2, 4]), **common)
    else:
        model = X['TransmissionModel'](new_path_method=(mkind == 'transmission-new-path'), **common)
    if pkind == 'evaluated':
        which = ['absorption'] + [w for w in ('rayleigh', 'clouds') if rng.random() < 0.6] + \
                [w for w in ('flatmie', 'leemie') if rng.random() < 0.25]
        rng.shuffle(which)
        which = list(force.get('contribs') or which)
        add_contributions(model, which, 10.0 ** rng.uniform(lmin, lmax))
    model.build()
    if pkind == 'history':
        cfg2 = cfgs[1]
        todo = [('planet_radius', cfg2['radius']), ('planet_mass', cfg2['mass']),
                ('atm_max_pressure', 10.0 ** cfg2['lmax']), ('atm_min_pressure', 10.0 ** cfg2['lmin'])]
        rng.shuffle(todo)
        todo = todo[:rng.randint(1, 4)]
        for name, value in todo:
            model[name] = value
            if rng.random() < 0.5:
                model.initialize_profiles()
            declared[dict(atm_max_pressure='pmax', atm_min_pressure='pmin', planet_radius='radius', planet_mass='mass')[name]] = value
        model.initialize_profiles()
        label = 'simple:after-history:' + '+'.join(sorted(nm for nm, _ in todo))
    if tkind != 'array':
        label = label + ':T=' + tkind
    if pkind == 'evaluated':
        # the structure is read AFTER the public evaluation entry points have run (no re-initialisation
        # by the harness in between: evaluation may only read the structure)
        ops = [rng.choice(EVAL_OPS) for _ in range(rng.randint(1, 3))]
        raised = ''
        for op in ops:
            try:
                evaluate(model, op)
            except Exception as e:      # the structure is still owed; the exception goes into the input class
                raised = ':evaluation-raised-%s-in-%s' % (type(e).__name__, op)
                declared['raised'] = '%s@evaluation:%s:%s' % (type(e).__name__, mkind, op)
                break
        label = '%s:after-evaluation:%s:%s:%s%s' % (label, mkind, '+'.join(which), '+'.join(ops), raised)
    return model, declared, label


def chem_event(model, mid, n, decl, X):
    """The composition as exposed (generate_profiles(); an entry that differs from the attribute or
    from get_gas_mix_profile() is logged as absent) next to the table the user handed over."""
    ch = model.chemistry
    active, inactive = list(ch.activeGases), list(ch.inactiveGases)
    names = active + inactive
    gen = model.generate_profiles()
    mix = []
    for idx, nm in enumerate(names):
        key, j = ('active_mix_profile', idx) if idx < len(active) else ('inactive_mix_profile', idx - len(active))
        try:
            stored = np.asarray(gen[key][j], dtype=float)
            attr = np.asarray((ch.activeGasMixProfile if idx < len(active) else ch.inactiveGasMixProfile)[j], dtype=float)
            direct = np.asarray(ch.get_gas_mix_profile(nm), dtype=float)
            row = [float(stored[k]) if (at(attr, k) == float(stored[k]) and at(direct, k) == float(stored[k])) else None
                   for k in range(stored.shape[0])]
        except Exception:
            row = []
        mix.append(row)
    mu = gen.get('mu_profile')
    mus = [at(mu, k) if at(mu, k) == at(ch.muProfile, k) else None for k in range(layer_len(mu) if layer_len(mu) > 0 else 0)]
    # the step obligation and the alignment are local: for long grids a fixed sample of layers is logged
    keep = list(range(n)) if n <= 60 else sorted(set([0, 1, 2, n - 3, n - 2, n - 1] + list(range(3, n - 3, max(1, n // 50)))))
    full = all(len(r) == n for r in mix) and len(mus) == n
    if not full or len(keep) == n:
        keep = list(range(n))
        sel = lambda r: list(r)
    else:
        sel = lambda r: [r[k] for k in keep]
    e = dict(ev='chem', id='%s:chem' % mid, n=len(keep), ppb=PPB, kind=decl['kind'], gases='+'.join(decl.get('gastypes', [])),
             names=names, mix=[[dec(x) for x in sel(r)] for r in mix],
             w=[dec(float(X['get_molecular_weight'](nm))) for nm in names],
             mu=[dec(x) for x in sel(mus)],
             tab=[[dec(x) for x in decl['table'][k]] for k in keep],
             col=[(names.index(nm) + 1) if nm in names else 0 for nm in decl['names']])
    return e


def pair(name, a, b):
    """one record of a `reads` event: a, b = first / second read (or private copy / array after the call)"""
    return dict(name=name, same=same_array(a, b), a=[dec(x) for x in sample(a)], b=[dec(x) for x in sample(b)])


def component_routes(model, n, declared, handed, pairs, first, stash=None):
    """The components on their own, as any caller may use them: a second, identical, never-used temperature component
    and chemistry (built from the recipe, so nothing of the model is touched) are handed the HARNESS'S arrays, are
    initialised, and read twice.  The handed arrays are compared with private copies.  They hold what the model exposes
    times (1 + 2^-20): equally legal profiles whose bit patterns have never been through the implementation (a write
    that is idempotent -- a round trip through another unit, a clip -- would leave an array the model itself had handed
    over before exactly as it is)."""
    P, T, z = first.get('pressure_profile'), first.get('temp_profile'), first.get('altitude_profile')
    if P is None or T is None or P.shape != (n,) or T.shape != (n,):
        return                      # (reported by the other events)
    eps = 1.0 + 2.0 ** -20
    try:
        tp = declared['make_temp']()
        own = P * eps
        keep = own.copy()
        tp.initialize_profile(model.planet, n, own)
        t1 = np.array(tp.profile, dtype=float, copy=True)
        mid_ = own.copy()
        t2 = np.array(tp.profile, dtype=float, copy=True)
        if stash is not None:
            stash['component'] = (keep, t1)
        handed.append(pair('temperature.initialize_profile:pressure', keep, mid_))
        handed.append(pair('temperature.profile:pressure', keep, own))
        pairs.append(pair('component:temperature.profile', t1, t2))
    except Exception as e:
        handed.append(dict(name='temperature.initialize_profile:raised-%s' % type(e).__name__, same=False, a=[], b=[]))
    try:
        ch = declared['chem']['make']()
        ownP, ownT, ownz = P * eps, T * eps, (None if z is None else z * eps)
        keepP, keepT, keepz = ownP.copy(), ownT.copy(), (None if ownz is None else ownz.copy())
        ch.set_star_planet(model.star, model.planet)
        ch.initialize_chemistry(n, ownT, ownP, ownz)
        reads = [(np.array(ch.muProfile, dtype=float, copy=True), np.array(ch.activeGasMixProfile, dtype=float, copy=True))
                 for _ in range(2)]
        handed.extend(pair('chemistry.initialize_chemistry:' + nm, a, b)
                      for nm, a, b in (('pressure', keepP, ownP), ('temperature', keepT, ownT), ('altitude', keepz, ownz)))
        pairs.append(pair('component:chemistry.muProfile', reads[0][0], reads[1][0]))
        pairs.append(pair('component:chemistry.activeGasMixProfile', reads[0][1], reads[1][1]))
    except Exception as e:
        handed.append(dict(name='chemistry.initialize_chemistry:raised-%s' % type(e).__name__, same=False, a=[], b=[]))


def enc_pos(p):
    """position of a pressure on the table axis: round(log10(P / Pa) * 1e5) (resolution 1e-5 dex; slack 2 in the spec)"""
    try:
        p = float(p)
        return int(round(math.log10(p) * 1.0e5)) if (p > 0.0 and math.isfinite(p)) else 0
    except Exception:
        return 0


def enc_mk(t):
    """temperature in mK as an integer; -1: absent / not finite / negative / absurd"""
    try:
        t = float(t)
        return int(round(t * 1000.0)) if (math.isfinite(t) and 0.0 <= t < 1.0e6) else -1
    except Exception:
        return -1


def table_records(declared, n, exposures):
    """A tabulated T(P) on its own pressure nodes: the nodes as the user gave them (surface first) and, for every public
    exposure of the profile, (position, temperature) of every layer.  -> (records, where the grid lies relative to the table)"""
    trec = declared['temp']
    if trec['kind'] not in ('array-ppoints', 'file-pcol'):
        return [], ''
    nodes = [dict(l=enc_pos(p), T=enc_mk(t)) for p, t in zip(trec['P'], trec['T'])]
    recs, where = [], ''
    for name, P, T in exposures:
        ok = P is not None and T is not None and getattr(P, 'shape', None) == (n,) and getattr(T, 'shape', None) == (n,)
        layers = [dict(l=enc_pos(P[k]), T=enc_mk(T[k])) for k in range(n)] if ok else [dict(l=0, T=-1)]
        recs.append(dict(name=name, nodes=nodes, layers=layers, slack=2, tol=2))
        if ok and not where:
            below = sum(1 for x in layers if x['l'] > nodes[0]['l'] + 2)
            above = sum(1 for x in layers if x['l'] < nodes[-1]['l'] - 2)
            where = 'grid-beyond-table:%s' % ('both' if below and above else 'below' if below else 'above' if above else 'none')
    return recs, where


def reads_event(model, mid, n, declared, handed):
    """Every exposed array read once, then every array once more (nothing is set in between), then the components on
    their own.  One record per array."""
    first = read_exposed(model)
    second = read_exposed(model)
    pairs = [pair(nm, first[nm], second.get(nm)) for nm in first]
    pairs += [pair(nm, None, second[nm]) for nm in second if nm not in first]
    stash = {}
    component_routes(model, n, declared, handed, pairs, second, stash)
    # a component that was TOLD one temperature per layer (array, file) or one for all (isothermal) exposes it, exactly
    trec, told = declared['temp'], []
    if trec['kind'] in ('array', 'file', 'isothermal') and (trec['kind'] == 'isothermal' or len(trec['T']) == n):
        want = np.full(n, float(trec['T'])) if trec['kind'] == 'isothermal' else np.array(trec['T'], dtype=float)
        told.append(pair('temp_profile:as-told:' + trec['kind'], want, second.get('temp_profile')))
    # a TABLE on its own pressure nodes: every layer of every exposure against the table's rule (node / nearest end / bracket)
    tables, where = table_records(declared, n, [('temp_profile', second.get('pressure_profile'), second.get('temp_profile')),
                                                ('generate_profiles:temp_profile', second.get('pressure_profile'), second.get('generate_profiles:temp_profile')),
                                                ('component:temperature.profile',) + stash.get('component', (None, None))])
    kinds = 'T=%s%s:chem=%s' % (declared['temp']['kind'], ('[%s]' % where) if where else '',
                                '+'.join(declared['chem']['gastypes']) or declared['chem']['kind'].split(':')[0])
    return dict(ev='reads', id='%s:reads' % mid, n=n, kinds=kinds, pairs=pairs, handed=handed, told=told, tables=tables, tcover=where)


def route_events(model, mid, n, declared, lev, X, handed):
    """The second public route to the vertical structure: Planet.calculate_scale_properties on the
    model's own T, levels and mu, asked for the declared length unit.  One step event per layer
    (a fixed sample of layers for long grids) + the lengths of what is returned."""
    C = X['C']
    unit = declared['unit']
    u = unit_factor(unit)
    # the arrays handed over are the harness's own (what the model exposes times (1 + 2^-20): bit patterns that have
    # never been through the implementation); private copies are kept, compared after the call, and the step
    # obligation is judged for the values AS HANDED
    eps = 1.0 + 2.0 ** -20
    T = np.array(model.temperatureProfile, dtype=float, copy=True) * eps
    mu = np.array(model.chemistry.muProfile, dtype=float, copy=True) * eps
    levh = np.array(lev, dtype=float, copy=True) * eps
    keepT, keepmu, keeplev = T.copy(), mu.copy(), levh.copy()
    try:
        rz, rH, rg, rdz = model.planet.calculate_scale_properties(T, levh, mu, length_units=unit)
    except Exception:
        rz = rH = rg = rdz = None
    handed.extend(pair('calculate_scale_properties:' + nm, a, b)
                  for nm, a, b in (('temperature', keepT, T), ('pressure_levels', keeplev, levh), ('mu', keepmu, mu)))
    keep = list(range(n)) if n <= 12 else sorted(set([0, 1, 2, n - 2, n - 1] + list(range(3, n - 2, max(1, n // 7)))))
    ev, floats = [], []
    for i in keep:
        lr = ln_ratio(keeplev[i], keeplev[i + 1]) if (len(keeplev) == n + 1 and keeplev[i] > 0 and keeplev[i + 1] > 0 and keeplev[i] > keeplev[i + 1]) else None
        vals = dict(z0=at(rz, i), z1=at(rz, i + 1), dz=at(rdz, i), H=at(rH, i), g=at(rg, i), T=at(keepT, i), mu=at(keepmu, i), Lr=lr,
                    rho=None, P=None, rad=float(declared['radius'] * C.RJUP),
                    gm=float(C.G * declared['mass'] * C.MJUP), kB=float(C.KBOLTZ), u=u)
        d = dict(ev='step', id='%s:route:%s:step:%d' % (mid, unit, i), i=i, n=n, ppb=PPB, route='planet')
        d.update({k: dec(x) for k, x in vals.items()})
        ev.append(d)
        floats.append(vals)
    ev.append(dict(ev='profiles', id='%s:profiles:route:%s' % (mid, unit), n=n, src='calculate_scale_properties',
                   lens=dict(altitude_boundaries=layer_len(rz), scaleheight_profile=layer_len(rH),
                             gravity_profile=layer_len(rg), deltaz=layer_len(rdz))))
    return ev, floats


def events_of(model, mid, pkind, declared, X):
    """Project one built model to trace events.  Every per-layer field is read from the exposed
    profile at index i; absent entries become [-1, 0]."""
    C = X['C']
    n = int(model.nLayers)
    lev = np.asarray(model.pressure.pressure_profile_levels, dtype=float)
    lay = np.asarray(model.pressureProfile, dtype=float)
    ev = []
    e = dict(ev='levels', id='%s:levels' % mid, n=n, kind=declared['grid'], ppb=PPB,
             lev=[dec(x) for x in lev], lay=[dec(x) for x in lay],
             input=[dec(x) for x in declared['input']], reverse=bool(declared['reverse']))
    if e['kind'] == 'simple':
        e['pmax'], e['pmin'] = dec(declared['pmax']), dec(declared['pmin'])
    ev.append(e)
    zb = model.altitude_boundaries
    za = model.altitudeProfile
    mu = model.chemistry.muProfile
    gen = model.generate_profiles()
    floats = []
    for i in range(n):
        lr = ln_ratio(lev[i], lev[i + 1]) if (len(lev) == n + 1 and lev[i] > 0 and lev[i + 1] > 0 and lev[i] > lev[i + 1]) else None
        vals = dict(z0=at(za, i), z1=at(zb, i + 1), dz=at(model.deltaz, i), H=at(gen.get('scaleheight_profile'), i),
                    g=at(gen.get('gravity_profile'), i), T=at(model.temperatureProfile, i), mu=at(mu, i), Lr=lr,
                    rho=at(model.densityProfile, i), P=at(lay, i), rad=float(declared['radius'] * C.RJUP),
                    gm=float(C.G * declared['mass'] * C.MJUP), kB=float(C.KBOLTZ), u=1.0)
        # the attribute and the stored dictionary must agree entry by entry (same array); the altitude of
        # layer i is boundary i, in the stored dictionary too
        if at(model.scaleheight_profile, i) != vals['H'] or at(model.gravity_profile, i) != vals['g']:
            vals['H'] = None
        if at(zb, i) != vals['z0'] or at(gen.get('altitude_profile'), i) != vals['z0']:
            vals['z0'] = None
        d = dict(ev='step', id='%s:step:%d' % (mid, i), i=i, n=n, ppb=PPB, route='model')
        d.update({k: dec(x) for k, x in vals.items()})
        ev.append(d)
        floats.append(vals)
    for src, rec in observed_lengths(model).items():
        ev.append(dict(ev='profiles', id='%s:profiles:%s' % (mid, src), n=n, src=src, lens=rec))
    ev.append(chem_event(model, mid, n, declared['chem'], X))
    handed = []
    rev, rfloats = route_events(model, mid, n, declared, lev, X, handed)
    # last: by now every exposed profile has been read several times
    rev.append(reads_event(model, mid, n, declared, handed))
    return ev + rev, floats + rfloats


def float_step_ok(v, route='model'):
    """Python-side 1e-9 evaluation of the same step relations on the raw floats (constants in the
    length unit of the route: R u, GM u^3, k_B u^2)."""
    try:
        if any(v[k] is None for k in v if route == 'model' or k not in ('rho', 'P')):
            return False
        u = v['u']
        r = v['rad'] * u + v['z0']
        return (close(v['z1'], v['z0'] + v['dz'], rel=REL) and close(v['dz'], v['H'] * v['Lr'], rel=REL)
                and close(v['H'] * v['mu'] * v['g'], v['kB'] * u * u * v['T'], rel=REL)
                and close(v['g'] * r * r, v['gm'] * u * u * u, rel=REL)
                and (route != 'model' or close(v['rho'] * v['kB'] * v['T'], v['P'], rel=REL))
                and v['z1'] > v['z0'])
    except Exception:
        return False


def layer_counts(rng, q):
    base = [1, 2, 2, 3, 10, 30, 100, 200]
    extra = [rng.randint(1, 200) for _ in range(18 if q else 450)]
    small = [rng.randint(1, 12) for _ in range(12 if q else 250)]
    return base + extra + small


def validate_chunks(events, chunk=6000, threads=4):
    if len(events) <= 3 * chunk:          # quick tier: a handful of TLC processes side by side
        chunk = max(1200, len(events) // 5 + 1)
        threads = 5
    chunks = [events[k:k + chunk] for k in range(0, len(events), chunk)]

    def one(c):
        return validate_trace('Trace_Atmosphere', 'Trace_Atmosphere.cfg', c, timeout=1500)
    with ThreadPoolExecutor(max_workers=threads) as ex:
        return list(zip(chunks, ex.map(one, chunks)))


def run_traces(ctx, X):
    q = ctx.tier == 'quick'
    rng = random.Random(ctx.seed * 104729 + 11)
    events, meta, labels = [], {}, {}
    nmodels = 0
    cases = [(n, pkind, force) for n, pkind, force in FORCED]
    for n in layer_counts(rng, q):
        kinds = ['simple'] if n < 2 else (['simple', 'array'] if rng.random() < 0.6 else [rng.choice(['simple', 'array'])])
        if rng.random() < 0.35:
            kinds.append('history')
        if rng.random() < 0.4:
            kinds.append('evaluated')
        cases += [(n, pkind, None) for pkind in kinds]
    cases += FORCED4
    nraised = 0
    for n, pkind, force in cases:
        sub = rng.getrandbits(48)
        # no case is dropped because of what the code produced: the inputs are inside the quantifier
        # by construction (min < max; array / file layers decreasing in the declared orientation)
        mid = 'm%d' % nmodels
        nmodels += 1
        try:
            model, declared, label = random_model(random.Random(sub), n, pkind, X, force)
            ev, floats = events_of(model, mid, pkind, declared, X)
        except Machinery:
            raise
        except Exception as e:
            # building / initialising / reading a model whose settings are inside the quantifier raised: a verdict
            # for this case (as the framework reports any exception of the implementation), the other cases go on
            import traceback
            where = traceback.extract_tb(e.__traceback__)[-1]
            nraised += 1
            ctx.verdict('implementation_raised', False,
                        cls='%s@%s:%s:build-or-read:%s' % (type(e).__name__, os.path.basename(where.filename), where.name, pkind),
                        detail='%s: %s (n=%d, %r)' % (type(e).__name__, e, n, force),
                        vector=dict(trace=True, sub=sub, n=n, pkind=pkind, mid=mid, force=force, build=True))
            continue
        steps = [e for e in ev if e['ev'] == 'step']
        recipe = dict(trace=True, sub=sub, n=n, pkind=pkind, mid=mid, force=force)
        if declared.get('raised'):
            # an evaluation entry point raised on an input inside the quantifier (reported like the
            # framework reports any exception of the implementation); the structure is judged all the same
            ctx.verdict('implementation_raised', False, cls=declared['raised'], detail='%s (n=%d)' % (label, n), vector=recipe)
        for e, f in zip(steps, floats):
            meta[e['id']] = (label, n, f, recipe)
        for e in ev:
            if e['ev'] != 'step':
                meta[e['id']] = (label, n, None, recipe)
        events += ev
        for e in ev:
            if e['ev'] == 'reads' and e.get('tcover'):
                labels['table:' + e['tcover']] = labels.get('table:' + e['tcover'], 0) + 1
        short = 'simple:after-history' if pkind == 'history' else (':'.join(label.split(':after-evaluation:')[0:1] + ['after-evaluation', label.split(':after-evaluation:')[1].split(':')[0]]) if pkind == 'evaluated' else label)
        labels[short] = labels.get(short, 0) + 1
        for extra in ['chem:' + declared['chem']['kind'].split(':ngas')[0], 'route-unit:' + declared['unit'],
                      'T=%s:%s' % (declared['temp']['kind'], 'after-evaluation' if pkind == 'evaluated' else 'as-built')] + \
                ['gas:' + t for t in declared['chem']['gastypes']]:
            labels[extra] = labels.get(extra, 0) + 1
    if nmodels < 20 or not events:
        raise Machinery('too few models generated')
    nbad_total = 0
    allbad = set()
    for chunk, (accepted, bad, res) in validate_chunks(events):
        ctx.add_tlc('trace-atmosphere', res, counts=False)
        if res.postcondition_false and not bad:
            raise Machinery('trace spec did not consume the whole trace:\n' + res.out[-1500:])
        badids = {b['id']: b for b in bad}
        nbad_total += len(badids)
        allbad |= set(badids)
        for e in chunk:
            pkind, n, f, recipe = meta[e['id']]
            why = set(badids[e['id']]['why']) if e['id'] in badids else set()
            if e['ev'] == 'levels':
                clauses = ['levels_wellformed', 'levels_strictly_decreasing', 'levels_bracket_layers'] + \
                          (['layer_is_geometric_mean', 'levels_log_spaced'] if e['kind'] == 'simple' else ['layers_are_oriented_input'])
                for c in clauses:
                    ctx.verdict(c, c not in why, cls='%s:trace:levels' % pkind, detail='TLC rejected %s (n=%d)' % (e['id'], n),
                                vector=dict(recipe, event=e if n <= 12 else dict(id=e['id'], n=n)))
            elif e['ev'] == 'step':
                top = ':top-layer' if e['i'] == n - 1 else ''
                model_route = e['route'] == 'model'
                fields = ('H', 'g', 'z0', 'z1', 'dz', 'rho', 'mu', 'T') if model_route else ('H', 'g', 'z0', 'z1', 'dz', 'mu', 'T')
                absent = ':entry-absent' if any(e[k][0] < 0 for k in fields) else ''
                where = 'trace:step' if model_route else 'trace:%s:step' % ':'.join(e['id'].split(':')[1:3])
                for c in STEP_CLAUSES:
                    if c == 'density_ideal_gas' and not model_route:
                        continue
                    ctx.verdict(c, c not in why, cls='%s:%s%s%s' % (pkind, where, top, absent),
                                detail='TLC rejected %s (n=%d): %s' % (e['id'], n, sorted(why)), vector=dict(recipe, event=e))
                present = not absent
                ctx.verdict('step_relations_float_1e-9', (not present) or float_step_ok(f, e['route']),
                            cls='%s:%s%s' % (pkind, where.replace('trace', 'float'), top), detail='raw floats %r' % (f,), vector=dict(recipe, event=e))
            elif e['ev'] == 'chem':
                if 'input_table_not_distinct' in why:
                    raise Machinery('the harness declared a chemistry table with repeated entries: %s' % e['id'])
                for c in CHEM_CLAUSES:
                    ctx.verdict(c, c not in why, cls='%s:trace:chem:%s%s' % (pkind, e['kind'], (':' + e['gases']) if e.get('gases') else ''),
                                detail='TLC rejected %s (n=%d, gases %s, declared columns %s): %s' % (e['id'], n, e['names'], e['col'], sorted(why)),
                                vector=dict(recipe, event=e if n <= 12 else dict(id=e['id'], n=n, kind=e['kind'])))
            elif e['ev'] == 'reads':
                if 'input_table_not_decreasing' in why:
                    raise Machinery('the harness declared a temperature table whose nodes do not decrease: %s' % e['id'])
                wrong = sorted(badids[e['id']].get('wrong', [])) if e['id'] in badids else []
                for c in READ_CLAUSES:
                    ctx.verdict(c, c not in why, cls='%s:trace:reads:%s%s' % (pkind, e['kinds'], (':' + '+'.join(wrong[:3])) if c in why else ''),
                                detail='TLC rejected %s (n=%d): arrays that differ: %s' % (e['id'], n, wrong),
                                vector=dict(recipe, event=dict(id=e['id'], kinds=e['kinds'], differ=wrong)))
            else:
                wrong = sorted(badids[e['id']].get('wrong', [])) if e['id'] in badids else []
                ctx.verdict('one_entry_per_layer', 'one_entry_per_layer' not in why,
                            cls='%s:trace:profiles:%s:%s' % (pkind, e['src'], '+'.join(wrong)),
                            detail='%s (n=%d): wrong number of entries in %s' % (e['id'], n, wrong),
                            vector=dict(recipe, event=e))
    ctx.traces += nmodels
    ctx.note('binding B: %d models, %d events (%d step events); by input class: %s'
             % (nmodels, len(events), sum(1 for e in events if e['ev'] == 'step'),
                ', '.join('%s=%d' % kv for kv in sorted(labels.items()))))
    need = ['simple', 'simple:after-history', 'array:surface-first', 'array:top-first+reverse', 'file:surface-first', 'file:top-first+reverse',
            'chem:file:square', 'chem:file', 'chem:taurex', 'route-unit:km', 'route-unit:cm', 'route-unit:Rjup',
            'table:grid-beyond-table:both', 'table:grid-beyond-table:none']
    missing = [k for k in need if not any(lb.startswith(k) for lb in labels)]
    missing += ['after-evaluation:' + mk for mk in MODEL_KINDS if not any(lb.endswith('after-evaluation:' + mk) for lb in labels)]
    # every built-in temperature component as built AND after evaluation; every gas type
    missing += [k for k in ['T=%s:%s' % (t, w) for t in TEMP_KINDS for w in ('as-built', 'after-evaluation')] + ['gas:' + t for t in GAS_TYPES]
                if k not in labels]
    if missing and not nraised:
        raise Machinery('input classes never generated: %r' % missing)
    ctx.add_sample(dict(trace_event=next(e for e in events if e['ev'] == 'step')))
    ctx.add_sample(dict(trace_event=next(e for e in events if e['ev'] == 'profiles')))
    run_canaries(events, allbad)


def run_canaries(events, allbad):
    """Corrupt one logged field of accepted events; TLC must reject exactly those."""
    good = [e for e in events if e['id'] not in allbad]
    if len(good) < len(events) // 2:
        good = events      # most events already rejected (reported above): only require rejection of the corrupted ones
    events = good
    steps = [e for e in events if e['ev'] == 'step' and all(e[k][0] > 0 for k in ('H', 'g', 'z1', 'dz', 'rho', 'mu', 'T'))]
    profs = [e for e in events if e['ev'] == 'profiles' and e['src'] == 'generate_profiles']
    levs = [e for e in events if e['ev'] == 'levels' and e['kind'] == 'simple' and e['n'] >= 2]
    if (not steps or not profs or not levs) and not allbad:
        raise Machinery('no events available for the canaries')
    can, want = [], []
    if steps:
        a = dict(steps[len(steps) // 2]); a['dz'] = [a['dz'][0] + 2000, a['dz'][1]]; a['id'] = 'canary-dz'; can.append(a)
        b = dict(steps[len(steps) // 3]); b['g'] = [b['g'][0] - 3000, b['g'][1]]; b['id'] = 'canary-g'; can.append(b)
        want += ['canary-dz', 'canary-g']
        if steps[0]['id'] not in allbad:
            g = dict(steps[0]); g['id'] = 'canary-good'; can.append(g)
    if profs:
        c = dict(profs[0]); c['lens'] = dict(c['lens'], gravity_profile=c['n'] + 1); c['id'] = 'canary-len'; can.append(c)
        want.append('canary-len')
    if levs:
        d = dict(levs[0]); d['lay'] = [list(x) for x in d['lay']]; d['lay'][0][0] += 5000; d['id'] = 'canary-geo'; can.append(d)
        want.append('canary-geo')
    arrs = [e for e in events if e['ev'] == 'levels' and e['kind'] == 'array' and e['n'] >= 2]
    if arrs:
        # the flag flipped (layers then do not follow the declared orientation); levels listed top first
        a = dict(arrs[0]); a['reverse'] = not a['reverse']; a['id'] = 'canary-orientation'; can.append(a)
        b = dict(arrs[-1]); b['lev'] = list(reversed(b['lev'])); b['id'] = 'canary-levels-reversed'; can.append(b)
        want += ['canary-orientation', 'canary-levels-reversed']
    elif not allbad:
        raise Machinery('no array-profile event available for the canaries')
    # second route: the unit factor of a non-metre event replaced by that of metres
    routes = [e for e in events if e['ev'] == 'step' and e['route'] == 'planet' and e['i'] >= 1 and ':route:m:' not in e['id']
              and all(e[k][0] > 0 for k in ('H', 'g', 'z0', 'z1', 'dz', 'mu', 'T'))]
    if routes:
        a = dict(routes[len(routes) // 2]); a['u'] = dec(1.0); a['id'] = 'canary-unit'; can.append(a)
        want.append('canary-unit')
        if routes[len(routes) // 2]['id'] not in allbad:
            g = dict(routes[len(routes) // 2]); g['id'] = 'canary-route-good'; can.append(g)
    elif not allbad:
        raise Machinery('no second-route event available for the canaries')
    # chemistry: two layers of one declared gas swapped; mu of one layer changed; a square table transposed
    chems = [e for e in events if e['ev'] == 'chem' and e['n'] >= 2 and len(e['col']) >= 1 and all(c >= 1 for c in e['col'])]
    if chems:
        a = dict(chems[0]); a['mix'] = [list(r) for r in a['mix']]
        r = a['mix'][a['col'][0] - 1]; r[0], r[1] = r[1], r[0]; a['id'] = 'canary-chem-shift'; can.append(a)
        b = dict(chems[-1]); b['mu'] = [list(x) for x in b['mu']]; b['mu'][0][0] += 3000; b['id'] = 'canary-chem-mu'; can.append(b)
        if chems[0]['id'] not in allbad:
            g = dict(chems[0]); g['id'] = 'canary-chem-good'; can.append(g)
        want += ['canary-chem-shift', 'canary-chem-mu']
        sq = [e for e in chems if len(e['col']) == e['n']]
        if sq:
            t = dict(sq[0]); t['tab'] = [[t['tab'][k][j] for k in range(t['n'])] for j in range(t['n'])]
            t['id'] = 'canary-chem-transposed'; can.append(t)
            want.append('canary-chem-transposed')
        elif not allbad:
            raise Machinery('no square chemistry table available for the canaries')
    elif not allbad:
        raise Machinery('no chemistry event available for the canaries')
    # reads: the second read of one exposed array differs in one sampled entry / is flagged as differing somewhere;
    # a handed array differs from the private copy
    rds = [e for e in events if e['ev'] == 'reads' and e['pairs'] and e['handed'] and e['pairs'][0]['a']]
    if rds:
        a = dict(rds[0]); a['pairs'] = [dict(p_) for p_ in a['pairs']]
        a['pairs'][0]['b'] = [list(x) for x in a['pairs'][0]['b']]; a['pairs'][0]['b'][0][0] += 1
        a['id'] = 'canary-reread'; can.append(a)
        b = dict(rds[-1]); b['pairs'] = [dict(p_) for p_ in b['pairs']]; b['pairs'][-1]['same'] = False
        b['id'] = 'canary-reread-whole'; can.append(b)
        c = dict(rds[len(rds) // 2]); c['handed'] = [dict(p_) for p_ in c['handed']]; c['handed'][0]['same'] = False
        c['id'] = 'canary-handed'; can.append(c)
        want += ['canary-reread', 'canary-reread-whole', 'canary-handed']
        tl = [e for e in rds if e['told'] and e['told'][0]['a']]
        if tl:
            d = dict(tl[0]); d['told'] = [dict(p_) for p_ in d['told']]
            d['told'][0]['b'] = [list(x) for x in d['told'][0]['b']]; d['told'][0]['b'][-1][0] += 7
            d['id'] = 'canary-told'; can.append(d)
            want.append('canary-told')
        elif not allbad:
            raise Machinery('no reads event with a told temperature available for the canaries')
        # a layer deeper than a table's deepest node handed the temperature of the table's TOP end
        tb = [(e, j, k) for e in rds for j, t in enumerate(e.get('tables', [])) for k, x in enumerate(t['layers'])
              if x['l'] > t['nodes'][0]['l'] + 2 and abs(t['nodes'][0]['T'] - t['nodes'][-1]['T']) > 10 and x['T'] >= 0]
        if tb:
            e0, j, k = tb[len(tb) // 2]
            d = dict(e0); d['tables'] = [dict(t, layers=[dict(x) for x in t['layers']]) for t in e0['tables']]
            d['tables'][j]['layers'][k]['T'] = d['tables'][j]['nodes'][-1]['T']
            d['id'] = 'canary-table-far-end'; can.append(d)
            want.append('canary-table-far-end')
            if e0['id'] not in allbad:
                g = dict(e0); g['id'] = 'canary-table-good'; can.append(g)
        elif not allbad:
            raise Machinery('no reads event with a layer below a temperature table available for the canaries')
        if rds[0]['id'] not in allbad:
            g = dict(rds[0]); g['id'] = 'canary-reads-good'; can.append(g)
    elif not allbad:
        raise Machinery('no reads event available for the canaries')
    if not can:
        return
    ok, bad, res = validate_trace('Trace_Atmosphere', 'Trace_Atmosphere.cfg', can)
    got = sorted(x['id'] for x in bad)
    if got != sorted(want):
        raise Machinery('canary: expected the corrupted events %r to be rejected, TLC rejected %r' % (sorted(want), got))


# --------------------------------------------------------------------------- binding C: history walks
def structure(model, C):
    """The full vertical structure as exposed after (re-)initialisation."""
    gen = model.generate_profiles()
    return dict(levels=np.array(model.pressure.pressure_profile_levels), layers=np.array(model.pressureProfile),     # (copies)
                z=np.asarray(model.altitude_boundaries), zl=np.asarray(model.altitudeProfile), dz=np.asarray(model.deltaz),
                g=np.asarray(model.gravity_profile), H=np.asarray(model.scaleheight_profile),
                rho=np.asarray(model.densityProfile), T=np.asarray(model.temperatureProfile),
                mu=np.asarray(model.chemistry.muProfile), g0=float(model.planet.gravity),
                layers_reread=np.array(model.pressureProfile), levels_reread=np.array(model.pressure.pressure_profile_levels),
                stored={k: np.asarray(v) for k, v in gen.items() if k in LAYER_KEYS})


def history_scenarios(X, ctx=None):
    from .. import history
    C = X['C']

    class OneModel(history.Scenario):
        """ONE long-lived forward model; settings through model[<fitting parameter>].  An object
        whose settings were changed through the API, or that has been observed before, is
        EVALUATED (model(), model_contrib(), ... in turn) before its structure is read, without any
        re-initialisation by the harness in between; a freshly built object (the reference of every
        evaluation of the walk) is only initialised, never evaluated.  So every observation states:
        the structure exposed after evaluation = the structure of a fresh, un-evaluated model."""

        def __init__(self, name, params, dims, n, base, mkind='transmission-old-path', contributions=('absorption', 'rayleigh'),
                     temp='isothermal', gas='constant'):
            self.name, self.params, self.dims, self.n, self.base = name, params, dims, n, base
            self.mkind, self.contributions = mkind, list(contributions)
            self.temp, self.gas = temp, gas         # the TYPE of the temperature component / of the H2O profile

        def temperature(self, c):
            from taurex.data.profiles.temperature import Guillot2010, NPoint, Rodgers2000
            if self.temp == 'guillot':
                return Guillot2010(T_irr=c['T_irr'], kappa_irr=0.01, kappa_v1=0.005, kappa_v2=0.003, alpha=0.4, T_int=100.0)
            if self.temp == 'npoint':
                return NPoint(T_surface=c['T_surface'], T_top=600.0, temperature_points=[1100.0], pressure_points=[1.0e3], smoothing_window=10)
            if self.temp == 'rodgers':
                return Rodgers2000(temperature_layers=[float(t) for t in np.linspace(c['T'], 0.4 * c['T'], self.n)], correlation_length=3.0)
            return X['Isothermal'](T=c['T'])

        def chemistry(self):
            from taurex.data.profiles.chemistry import TwoLayerGas, PowerGas
            from taurex.data.profiles.chemistry.gas.twopointgas import TwoPointGas
            chem = X['TaurexChemistry'](fill_gases=['H2', 'He'], ratio=0.17)
            if self.gas == 'twolayer':
                chem.addGas(TwoLayerGas('H2O', mix_ratio_surface=1e-3, mix_ratio_top=1e-5, mix_ratio_P=1e3, mix_ratio_smoothing=10))
            elif self.gas == 'power':
                chem.addGas(PowerGas('H2O', mix_ratio_surface=1e-3))
            elif self.gas == 'twopoint':
                chem.addGas(X['ConstantGas']('H2O', mix_ratio=1e-3))
                chem.addGas(TwoPointGas('CH4', mix_ratio_surface=1e-4, mix_ratio_top=1e-7))
            else:
                chem.addGas(X['ConstantGas']('H2O', mix_ratio=1e-3))
            return chem

        def fresh(self, v):
            c = dict(self.base)
            c.update(dict(zip(self.params, v)))
            common = dict(planet=X['Planet'](planet_mass=c['planet_mass'], planet_radius=c['planet_radius']),
                          star=X['BlackbodyStar'](), temperature_profile=self.temperature(c),
                          chemistry=self.chemistry(), nlayers=self.n, atm_min_pressure=c['atm_min_pressure'],
                          atm_max_pressure=c['atm_max_pressure'])
            if self.mkind == 'emission':
                m = X['EmissionModel'](ngauss=4, **common)
            else:
                m = X['TransmissionModel'](new_path_method=(self.mkind == 'transmission-new-path'), **common)
            add_contributions(m, self.contributions, 1e2)
            m._c11_changed, m._c11_observed, m._c11_err = False, 0, None
            try:
                m.build()
            except Exception as e:
                # building a model whose settings are inside the quantifier raised: a verdict (not a failure of the
                # machinery); the object stays in the walk, its observations are digested as the exception
                m._c11_err = e
                if ctx is not None:
                    ctx.verdict('implementation_raised', False, cls='%s@history:%s:build' % (type(e).__name__, self.name),
                                detail='%s: %s (settings %r)' % (type(e).__name__, e, c), vector=dict(history=self.name, init=list(v), trail=[]))
            return m

        def set(self, m, d, value, values):
            m[self.params[d]] = value
            m._c11_changed = True

        def observe(self, m):
            if m._c11_err is not None and not m._c11_changed:
                raise m._c11_err
            if m._c11_changed or m._c11_observed:
                evaluate(m, EVAL_OPS[(m._c11_observed + self.n) % len(EVAL_OPS)])
            else:
                m.initialize_profiles()
            m._c11_observed += 1
            return structure(m, C)

    base = dict(planet_mass=1.0, planet_radius=1.0, T=1200.0, atm_min_pressure=1e-1, atm_max_pressure=1e6)
    # third round: the long-lived models are assembled from components of several built-in types (the temperature
    # components read the layer-pressure array the model shares with them; T_irr / T_surface are their own fitting
    # parameters), one scenario keeps the default components
    return [OneModel('planet', ['planet_radius', 'planet_mass', 'T_irr'], [[0.7, 1.0, 1.35], [0.6, 1.0, 2.2], [900.0, 1500.0, 2100.0]], 9, base,
                     mkind='transmission-new-path', contributions=('absorption', 'rayleigh', 'clouds'), temp='guillot', gas='twolayer'),
            OneModel('grid', ['atm_max_pressure', 'atm_min_pressure', 'planet_radius'],
                     [[1e4, 1e5, 1e7], [1e-3, 1e-1, 5.0], [0.8, 1.0, 1.2]], 6, base, mkind='transmission-old-path', temp='rodgers', gas='twopoint'),
            OneModel('one-layer', ['atm_max_pressure', 'planet_radius', 'planet_mass'],
                     [[1e3, 1e5, 1e6], [0.9, 1.0, 1.5], [0.5, 1.0, 1.6]], 1, base, mkind='transmission-new-path',
                     contributions=('rayleigh', 'absorption')),
            OneModel('emission', ['T_surface', 'planet_mass', 'atm_min_pressure'],
                     [[1300.0, 1700.0, 2400.0], [0.6, 1.0, 2.2], [1e-2, 1e-1, 1.0]], 7, base, mkind='emission', temp='npoint', gas='power')]


def replay_history(ctx, v, X):
    from ..history import digest
    vec = v['vector']
    sc = next((s for s in history_scenarios(X) if s.name == vec['history']), None)
    if sc is None:
        raise Machinery('replay: unknown history scenario %r' % vec['history'])
    vals = list(vec['init'])
    obj = sc.fresh(list(vals))
    ok = True
    for step in vec['trail']:
        if step.startswith('set'):
            d, val = step[3:].split('=', 1)
            vals[int(d)] = float(val)
            sc.set(obj, int(d), float(val), list(vals))
        elif step.startswith('eval'):
            ok = ok and digest(sc.observe(obj)) == digest(sc.observe(sc.fresh(list(vals))))
    ctx.verdict(v['clause'], ok, cls=v['cls'], detail='replay of the walk %r from %r' % (vec['trail'], vec['init']), vector=vec)


# --------------------------------------------------------------------------- entry points
def setup():
    X = _imports()
    clear_opacities()
    register_flat_opacity('H2O', [1000.0, 2000.0, 3000.0])
    return X


def run(ctx):
    q = ctx.tier == 'quick'
    ctx.bounds = dict(tier=ctx.tier,
                      exhaustive='n<=3 layers, integer log10 level exponents (spacing 2 or 4), T in {1,2,3}, mu in {1,2}, rad 8, GM in {64,128} (exact rationals)',
                      vectors='every exported grid through SimplePressureProfile and (n>=2) Array/FilePressureProfile in the spec\'s input options (surface first; top first + reverse), two unit maps; the temperature component rotates through the kinds the spec exports for the vector (%s)' % ', '.join(TOLD_KINDS),
                      traces='n in 1..200, random planets (H0/R 1e-4..~0.03), pressure ranges 1e-6..1e7 Pa, random T (200..3000 K); composition from ChemistryFile tables (2..6 gases, square tables included) or TaurexChemistry with ArrayGas/ConstantGas; second route Planet.calculate_scale_properties in %s; models observed as built, after a settings history, or after evaluation (%s); temperature component of every built-in type (%s), gases of every type (%s); every exposed array read twice, arrays handed to public calls compared with private copies' % ('/'.join(UNITS), ', '.join(MODEL_KINDS), ', '.join(TEMP_KINDS), ', '.join(GAS_TYPES)))
    ctx.assumptions = ['ln(P_i/P_{i+1}) is evaluated by the harness (math.log) from the exposed levels',
                       'physical constants (k_B, G, amu) are those of taurex.constants; planet mass/radius are read in SI from the Planet object',
                       'TLC + CommunityModules Json/IOUtils; spec/Dec.tla decimal arithmetic',
                       'FixedMuChemistry double supplies exact small mu values in binding A; binding B uses the real TaurexChemistry',
                       'array / file pressure profiles: layer pressures decreasing in the declared orientation with neighbouring log steps within a factor 1.8, n>=2; the two options that expose the layers top first are outside the quantifier',
                       'history walks: settings changed through model[<fitting parameter>]; the long-lived model is evaluated (model / model_contrib / model_full_contrib in turn) before its structure is read; reference = freshly built, un-evaluated model after initialize_profiles()',
                       'molecular masses are those of taurex.util.get_molecular_weight (how mu is computed is C10); binding A states the masses of the spec vector to the real ChemistryFile',
                       'metres per length unit: IAU nominal values, cross-checked against astropy',
                       'the declared chemistry tables have pairwise distinct entries (checked by TLC on every chem event); ArrayGas arrays have one entry per layer',
                       'second-route and chem events of grids longer than 12 / 60 layers log a fixed sample of layers (the obligations are local)',
                       'reads events: whole-array identity of the two reads (shape and every entry, NaN = NaN) is decided by numpy and logged as a flag; TLC compares the flag and a fixed sample of six entries exactly',
                       'component settings are drawn so that temperatures stay within about 200..3000 K (Guillot2010: surface optical depth below 1e4); NPoint nodes lie strictly inside the pressure range, none besides surface and top when the range is changed afterwards; TwoPointGas needs two layers; mixing ratios sum to less than 1',
                       'binding A: a temperature component that is TOLD the per-layer temperatures must expose them (1e-9): pressure nodes are the layer pressures the vector declares, or (table_<cover>) the nodes of the spec\'s table for that position of the grid relative to the table',
                       'tabulated T(P) in binding B: positions are round(log10 P * 1e5), temperatures mK; a layer within 2e-5 dex of a node / an end is accepted on either side; between two nodes only the bracket is required (the statement fixes no interpolation rule); tables are given surface first (top first only together with reverse=True of TemperatureArray)']
    tier = ctx.tier
    t0 = time.time()
    # the design-level TLC runs are independent processes: run them side by side while taurex is imported
    with ThreadPoolExecutor(max_workers=8) as ex:
        jobs = [ex.submit(ctx.check_spec, 'exhaustive', 'MC_Atmosphere', 'MC_Atmosphere_%s.cfg' % tier,
                          need_actions=('Levels', 'Chemistry', 'Step', 'Profiles', 'Evaluate', 'Read'), workers=6),
                ex.submit(ctx.check_spec, 'export', 'MC_Atmosphere', 'EX_Atmosphere_quick.cfg' if q else 'EX_Atmosphere.cfg', workers=1)]
        # non-vacuity: each modelled defect (top layer dropped; square table kept un-transposed; unit
        # conversion inside the recurrence; in-place z += dz/2 during evaluation) is refuted by TLC
        for label, cfg, inv in (('droplast-refuted', 'MC_Atmosphere_droplast.cfg', 'OneEntryPerLayer'),
                                ('transposed-refuted', 'MC_Atmosphere_transposed.cfg', 'MixAlignedWithLayers'),
                                ('unitloop-refuted', 'MC_Atmosphere_unitloop.cfg', 'StepRelationAnyUnit'),
                                ('inplace-refuted', 'MC_Atmosphere_inplace.cfg', 'EvaluationKeepsStructure'),
                                # a component that writes into the arrays the model shares with it: the temperature
                                # profile scaling the layer pressures whenever it is evaluated; a read that scales T
                                ('sharedwrite-refuted', 'MC_Atmosphere_sharedwrite.cfg', 'LayerIsGeometricMean'),
                                ('sharedread-refuted', 'MC_Atmosphere_sharedread.cfg', 'ReadsAreRepeatable'),
                                # a tabulated T(P) whose out-of-range layers take the FAR end of the table
                                ('tableends-refuted', 'MC_Atmosphere_tableends.cfg', 'TabulatedTemperatureAligned'),
                                # work arrays for g and H that inherit an integer element type from the temperature input
                                ('elemtype-refuted', 'MC_Atmosphere_elemtype.cfg', 'StructureIndependentOfElementType')):
            jobs.append(ex.submit(ctx.expect_refuted, label, 'MC_Atmosphere', cfg, inv, workers=1))
        X = setup()
        if not units_consistent():
            raise Machinery('the harness table of length units disagrees with astropy')
        results = [j.result() for j in jobs]
    ctx.exhaustive = True
    t1 = time.time()
    res = results[1]
    vecs = res.tagged('VEC')
    if q:
        rng = random.Random(ctx.seed)
        keep = [v for v in vecs if v['n'] == 3]
        rest = [v for v in vecs if v['n'] < 3]
        rng.shuffle(keep)
        vecs = rest[::2] + keep[:120]
    try:
        run_vectors(ctx, vecs, X)
        ctx.note('binding A: %d exported vectors replayed' % len(vecs))
        t2 = time.time()
        run_traces(ctx, X)
        t3 = time.time()
    finally:
        cleanup_tmp()
    from .. import history
    nh = history.run_history(ctx, history_scenarios(X, ctx), 8 if q else 60)
    ctx.note('wall: design-level TLC + import %.0f s, vectors %.0f s, traces %.0f s, history %.0f s' % (t1 - t0, t2 - t1, t3 - t2, time.time() - t3))
    ctx.note('binding C: %d history walks on long-lived models (planet: Guillot2010 + TwoLayerGas / grid: Rodgers2000 + TwoPointGas / one-layer: default components / emission: NPoint + PowerGas), every model evaluated before its structure is read' % nh)


def replay(ctx, violations):
    """Re-drive the real code: rebuild the model of each stored vector / random recipe, project it
    again and judge the fresh event (one TLC run for all trace events)."""
    X = setup()
    try:
        _replay(ctx, violations, X)
    finally:
        cleanup_tmp()


def _replay(ctx, violations, X):
    models, items, raised = {}, [], {}
    for v in violations:
        vec = v['vector']
        if vec.get('history'):
            replay_history(ctx, v, X)
            continue
        if not vec.get('trace'):
            judge_vector_safely(ctx, {k: vec[k] for k in vec if k not in ('units', 'pkind', 'tkind', 'etype')}, vec['units'], vec['pkind'], X,
                                vec.get('tkind', 'array'), vec.get('etype'))
            continue
        key = (vec['sub'], vec['n'], vec['pkind'])
        if vec.get('build'):
            try:
                model, declared, _ = random_model(random.Random(vec['sub']), vec['n'], vec['pkind'], X, vec.get('force'))
                events_of(model, vec['mid'], vec['pkind'], declared, X)
                ok, what = True, 'built and read'
            except Exception as e:
                ok, what = False, '%s: %s' % (type(e).__name__, e)
            ctx.verdict(v['clause'], ok, cls=v['cls'], detail='replay: %s' % what, vector=vec)
            continue
        if key not in models:
            model, declared, _ = random_model(random.Random(vec['sub']), vec['n'], vec['pkind'], X, vec.get('force'))
            ev, floats = events_of(model, vec['mid'], vec['pkind'], declared, X)
            fl = dict(zip([e['id'] for e in ev if e['ev'] == 'step'], floats))
            models[key] = ({e['id']: e for e in ev}, fl)
            raised[key] = declared.get('raised')
        evs, fl = models[key]
        if v['clause'] == 'implementation_raised':
            ctx.verdict(v['clause'], not raised.get(key), cls=v['cls'], detail='replay: %s' % (raised.get(key) or 'evaluation completed'), vector=vec)
            continue
        e = evs.get(vec['event']['id'])
        if e is None:
            raise Machinery('replay: event %s not produced again' % vec['event']['id'])
        if v['clause'] == 'step_relations_float_1e-9':
            ctx.verdict(v['clause'], float_step_ok(fl[e['id']], e['route']), cls=v['cls'], detail='raw floats %r' % (fl[e['id']],), vector=vec)
        else:
            items.append((v, e))
    if items:
        uniq = {e['id']: e for _, e in items}
        ok, bad, _ = validate_trace('Trace_Atmosphere', 'Trace_Atmosphere.cfg', list(uniq.values()))
        badids = {b['id']: set(b['why']) for b in bad}
        for v, e in items:
            why = badids.get(e['id'], set())
            ctx.verdict(v['clause'], v['clause'] not in why, cls=v['cls'], detail='replay %s: TLC says %s' % (e['id'], sorted(why)),
                        vector=v['vector'])
