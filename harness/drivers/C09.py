"""C09 -- posterior summaries are the weighted statistics of the stored samples.

Spec: spec/Posterior.tla (quantile rule of quantile_corner as a set-valued operator, weighted mean, MAP set),
      spec/MC_Posterior.tla (exhaustive + export), spec/Trace_Posterior.tla.
Binding A : every exported (trace column, weights) with its exact admissible (q16,q50,q84) set, mean and MAP set
            is handed to the real NestleOptimizer (recording double of nestle.sample returns exactly these
            samples/weights) and MultiNestOptimizer (double writes MultiNest's output files) over a real
            TransmissionModel; get_solution()/get_samples()/get_weights() and, for a subset, the full
            fit() solution dictionary (fit_params, tracedata, weights, Spectra at the MAP, Profiles at the
            median, derived traces) are compared with the spec's summary and with a second model instance.
Binding B : random larger sample sets (non-integer values, ties, zero weights) through fit(); every fitted and
            derived trace summary is validated by TLC with the same operators (+ canary).
Binding C : spec/PosteriorSession.tla -- the LIFE of one optimizer in a job of np processes: TLC generates
            behaviours (built with / without an observation, set_observed, fitted / derived selections switched,
            fits of n samples); harness/fx_c09session.py replays each on ONE long-lived optimizer -- for np > 1 in
            np simulated MPI ranks (harness/fx_mpi.py) -- and every reported solution is judged against what the
            behaviour says it belongs to (observation the spectrum is binned to, summarised parameters, one derived
            entry per sample in sample order with the sample's own weight: summaries validated by TLC with binding
            B's operators); the solution reported by the previous fit must stay what it was.
Form of MultiNest's output : spec/NestOutput.tla -- run configuration (mode separation, importance sampling, file
            prefix) x number of modes (1 .. two-digit numbers, the constructor allows 100) x source of the per-mode
            statistics (analyser's per-mode tables / the global tables of <prefix>stats.dat the wrapper parses itself
            when the analyser reports no modes) x ML sample apart from / among the samples of greatest weight.  TLC
            exports the scenarios (tag SCN, harness/fx_c09nest.py); binding A's sample sets fill the modes.
PolyChord : the layout of PolyChord's .stats / clusters files could not be established offline; its summary part
            is not covered (its callbacks are covered by C06).
"""
import json
import math
import os
import random
import shutil
import tempfile
from fractions import Fraction

import numpy as np

from ..core import Machinery, frac, close, validate_trace
from .. import fx_retrieval as fx
from .. import fx_c09session as ses
from .. import fx_c09nest as nest

REL = 1e-9
CENTRES = [1100.0, 1300.0, 1500.0, 1700.0, 1900.0]
WIDTHS = [100.0, 120.0, 80.0, 150.0, 100.0]
# unit map  spec value v -> parameter (in the space of its prior)
UNIT = {'planet_radius': (0.9, 0.05), 'T': (800.0, 200.0), 'log_H2O': (-6.0, 1.0)}
DERIVED = ['mu', 'avg_T', 'logg']
PROFILE_KEYS = ['temp_profile', 'active_mix_profile', 'inactive_mix_profile', 'density_profile',
                'altitude_profile', 'pressure_profile', 'mu_profile']


class World(object):
    """Optimizer over a real transmission model + an oracle twin."""

    def __init__(self, sampler, dims, tmpdir, multimodes=True, ins=False, route='modes', pfx='1-'):
        """multimodes / ins / pfx: constructor keywords search_multi_modes / importance_sampling / multinest_prefix;
        route: where the statistics of the run come from (spec/NestOutput.tla: "modes" | "global")."""
        N, M, P = fx.load_optimizers()
        self.sampler = sampler
        self.model = fx.make_transmission('isothermal')
        self.twin = fx.make_transmission('isothermal')
        g, s, _, _ = self.twin.model()
        from taurex.binning import FluxBinner
        ref = FluxBinner(np.array(CENTRES), np.array(WIDTHS)).bindown(g, s)[1]
        err = [1e-4, 2e-4, 1e-4, 5e-5, 1e-4]
        self.obs = fx.make_array_obs(CENTRES, WIDTHS, ref, err)
        self.twin_obs = fx.make_array_obs(CENTRES, WIDTHS, ref, err)
        self.twin_binner = self.twin_obs.create_binner()
        self.dir = tempfile.mkdtemp(prefix='mn_', dir=tmpdir)
        if sampler == 'nestle':
            self.opt = N(observed=self.obs, model=self.model, num_live_points=5, sigma_fraction=1.0)
        else:
            kw = {}
            if ins:
                kw['importance_sampling'] = True
            if pfx != '1-':
                kw['multinest_prefix'] = pfx
            self.opt = M(multi_nest_path=self.dir, observed=self.obs, model=self.model, num_live_points=5,
                         sigma_fraction=1.0, search_multi_modes=multimodes, **kw)
        self.multimodes = multimodes
        self.ins, self.route, self.pfx = ins, route, pfx
        self.cfgkey = (bool(multimodes), bool(ins), route, pfx)
        want = {2: ['T', 'H2O'], 3: ['planet_radius', 'T', 'H2O'], 1: ['T']}[dims]
        for name, par in list(self.model.fittingParameters.items()):
            if par[5] and name not in want:
                self.opt.disable_fit(name)
        for n in want:
            self.opt.enable_fit(n)
        self.opt.set_boundary('T', [300.0, 3000.0])
        self.opt.set_boundary('H2O', [1e-9, 1e-1])
        self.opt.set_boundary('planet_radius', [0.5, 1.5])
        for d in DERIVED:
            self.opt.enable_derived(d)
        self.opt.compile_params()
        self.names = list(self.opt.fit_names)
        self.payload = None
        self.basename = os.path.join(self.dir, pfx)

    # ---- running the sampler double
    def _nestle_hook(self, loglike, prior, ndim, **kw):
        samples, weights = self.payload
        return fx.FakeNestleResult(samples, weights)

    def _mn_hook(self, call):
        import pymultinest
        modes = self.payload
        # the files are written where the wrapper told the sampler to write them; it must read those back
        pymultinest.write_outputs(call['outputfiles_basename'], modes, logz=(-20.5, 0.25),
                                  multimodal=call['multimodal'])
        if self.route == 'global':
            if len(modes) != 1:
                raise Machinery('a run without mode separation has one mode')
            nest.write_global_stats(call['outputfiles_basename'], modes[0], call['importance_nested_sampling'], logz=(-20.5, 0.25))

    def run(self, payload, full):
        import pymultinest
        self.payload = payload
        if self.sampler == 'nestle':
            with fx.NestlePatch(self._nestle_hook), fx.quiet_stdout():
                if full:
                    return self.opt.fit()
                self.opt.compute_fit()
        else:
            pymultinest.HOOK = self._mn_hook
            try:
                with fx.quiet_stdout():
                    if full:
                        return self.opt.fit()
                    self.opt.compute_fit()
            finally:
                pymultinest.HOOK = None
        return None

    # ---- oracle
    def set_twin(self, vec):
        for n, v in zip(self.names, vec):
            if n.startswith('log_'):
                self.twin[n[4:]] = 10.0 ** float(v)
            else:
                self.twin[n] = float(v)

    def twin_spectrum(self, vec):
        self.set_twin(vec)
        g, s, _, _ = self.twin.model()
        return s, self.twin_binner.bindown(g, s)[1]

    def twin_profiles(self, vec):
        self.set_twin(vec)
        self.twin.model()
        p = self.twin.generate_profiles()
        return {k: np.array(p[k], dtype=float) for k in PROFILE_KEYS}

    def twin_derived(self, vec):
        self.set_twin(vec)
        self.twin.initialize_profiles()
        return {d: float(self.twin.derivedParameters[d][2]()) for d in DERIVED}


def arr_close(a, b, rel=REL):
    a = np.asarray(a, dtype=float)
    b = np.asarray(b, dtype=float)
    if a.shape != b.shape:
        return False
    return bool(np.all(np.abs(a - b) <= rel * np.maximum(1e-300, np.maximum(np.abs(a), np.abs(b)))))


def unit_map(name, v):
    b, s = UNIT[name]
    return b + s * float(v)


def triple_ok(name, rep, trips):
    """rep = (value, sigma_m, sigma_p) reported; trips = exact admissible (q16,q50,q84) in spec units."""
    b, s = UNIT[name]
    for t in trips:
        q16, q50, q84 = (frac(v) for v in t)
        exp = (b + s * float(q50), s * float(q50 - q16), s * float(q84 - q50))
        if all(close(r, e, rel=REL, abs_=1e-9 * abs(s)) for r, e in zip(rep, exp)):
            return True
    return False


def total_tag(tot):
    """input class of the total of the weight vector the sampler hands over ([n, d]; [0, 1] = raw integers)."""
    if tot[0] == 0:
        return 'total=raw'
    t = Fraction(tot[0], tot[1])
    return 'total=1' if t == 1 else ('total<1' if t < 1 else 'total>1')


def cls_of(sampler, vecs, extra=''):
    w = vecs[0]['w']
    tags = [total_tag(vecs[0]['tot'])]
    if 0 in w:
        tags.append('zero-weights')
    if len(set(w)) < len(w):
        tags.append('tied-weights')
    if any(len(set(v['x'])) < len(v['x']) for v in vecs):
        tags.append('tied-values')
    return '%s:n=%d:%s%s' % (sampler, len(w), '+'.join(tags) or 'generic', extra)


def check_summary(ctx, world, vecs, fitp, samples, weights, got_samples, got_weights, cls, vector, map_vec=None):
    """fitp: dict name -> reported summary dict.  vecs: one exported vector per fitted dimension (same weights)."""
    ok = np.array_equal(np.asarray(got_samples), samples) if world.sampler == 'nestle' else arr_close(got_samples, samples, 1e-14)
    ctx.verdict('tracedata_unchanged', ok, cls=cls, detail='stored samples differ from the sampler\'s', vector=vector)
    wexp = weights
    ok = np.array_equal(np.asarray(got_weights), wexp) if world.sampler == 'nestle' else arr_close(got_weights, wexp, 1e-14)
    ctx.verdict('weights_unchanged', ok, cls=cls, detail='stored weights %r expected %r' % (got_weights, wexp), vector=vector)
    for d, (name, vec) in enumerate(zip(world.names, vecs)):
        p = fitp[name]
        ctx.verdict('trace_column', arr_close(p['trace'], samples[:, d], 1e-14), cls=cls,
                    detail='%s trace %r expected column %r' % (name, p['trace'], samples[:, d]), vector=vector)
        rep = (float(p['value']), float(p['sigma_m']), float(p['sigma_p']))
        ctx.verdict('quantiles', triple_ok(name, rep, vec['trip']), cls=cls,
                    detail='%s x=%r w=%r reported (value,sigma_m,sigma_p)=%r admissible (q16,q50,q84)=%r in units %r' %
                    (name, vec['x'], vec['w'], rep, vec['trip'], UNIT[name]), vector=vector)
        mean = float(p['mean'])
        exp = unit_map(name, float(frac(vec['mean'])))
        ctx.verdict('weighted_mean', close(mean, exp, rel=REL, abs_=1e-12), cls=cls,
                    detail='%s mean %r expected %r' % (name, mean, exp), vector=vector)
    # MAP: one sample of greatest weight, the same sample for every coordinate
    key = 'map' if world.sampler == 'nestle' else 'nest_map'
    mapv = [float(np.ravel(fitp[n][key])[0]) for n in world.names]
    cands = [i - 1 for i in vecs[0]['mapidx']]
    if map_vec is not None:
        cands = [i for i in cands if all(close(samples[i, d], map_vec[d], rel=1e-14) for d in range(samples.shape[1]))] \
            if world.sampler == 'nestle' else cands
    hit = [i for i in cands if all(close(mapv[d], samples[i, d], rel=1e-14, abs_=1e-300) for d in range(len(mapv)))]
    ctx.verdict('map_is_max_weight_sample', bool(hit), cls=cls,
                detail='MAP %r is not one of the samples of greatest weight %r' % (mapv, [list(samples[i]) for i in cands]),
                vector=vector)
    return mapv


def build_samples(world, vecs):
    cols = [[unit_map(n, v) for v in vec['x']] for n, vec in zip(world.names, vecs)]
    samples = np.array(cols, dtype=float).T.copy()
    # the weight vector exactly as the specification hands it over (rationals of arbitrary positive total)
    w = np.array([float(frac(v)) for v in vecs[0]['wr']], dtype=float)
    return samples, w


def mn_modes(samples, weights, rng_seed, apart=True):
    """One MultiNest mode holding all samples; loglike distinct; stats: mean = weighted mean, MAP = first sample of
    greatest weight, maximum likelihood = another sample wherever the mode has one of smaller weight (apart), sigma
    distinct per dimension."""
    return [nest.mode_dict(samples, weights, apart=apart, k=rng_seed)]


def one_case(ctx, world, vecs, full, vector, apart=True):
    samples, weights = build_samples(world, vecs)
    cls = cls_of(world.sampler, vecs, ':fit' if full else '')
    if world.sampler != 'nestle':
        cls += ':' + nest.config_tag(world.cfgkey)
    payload = (samples, weights) if world.sampler == 'nestle' else mn_modes(samples, weights, len(samples), apart=apart)
    try:
        sol = world.run(payload, full)
        got = list(world.opt.get_solution())
    except Exception as e:   # noqa
        ctx.verdict('summary_produced', False, cls=cls, detail='fit raised %r' % e, vector=vector)
        return
    if len(got) != 1:
        ctx.verdict('summary_produced', False, cls=cls, detail='%d solutions for one mode' % len(got), vector=vector)
        return
    idx, opt_map, opt_median, extras = got[0]
    extras = dict(extras)
    fitp = extras['fit_params']
    mapv = check_summary(ctx, world, vecs, fitp, samples, weights, world.opt.get_samples(idx),
                         world.opt.get_weights(idx), cls, vector)
    ctx.verdict('map_vector', all(close(a, b, rel=1e-14, abs_=1e-300) for a, b in zip(opt_map, mapv)), cls=cls,
                detail='get_solution MAP %r vs fit_params %r' % (list(opt_map), mapv), vector=vector)
    med = [float(fitp[n]['value']) for n in world.names]
    ctx.verdict('median_vector', all(close(a, b, rel=1e-14, abs_=1e-300) for a, b in zip(opt_median, med)), cls=cls,
                detail='get_solution median %r vs fit_params %r' % (list(opt_median), med), vector=vector)
    if not full:
        return
    check_full(ctx, world, sol, samples, weights, mapv, med, cls, vector)


def check_full(ctx, world, sol, samples, weights, mapv, med, cls, vector, events=None, key='solution0'):
    s0 = sol.get(key) if isinstance(sol, dict) else None
    if not isinstance(s0, dict) or any(k not in s0 for k in ('tracedata', 'weights', 'Spectra', 'Profiles')):
        ctx.verdict('solution_dict_traces', False, cls=cls, detail='the solution dictionary has no (complete) entry %r: %r' %
                    (key, sorted(sol) if isinstance(sol, dict) else type(sol)), vector=vector)
        return
    ok = arr_close(s0['tracedata'], samples, 1e-14) and arr_close(s0['weights'], weights, 1e-14)
    ctx.verdict('solution_dict_traces', ok, cls=cls, detail='solution tracedata/weights differ', vector=vector)
    nat, binned = world.twin_spectrum(mapv)
    ctx.verdict('spectrum_at_map', arr_close(s0['Spectra']['native_spectrum'], nat) and
                arr_close(s0['Spectra']['binned_spectrum'], binned), cls=cls,
                detail='stored spectrum is not model(MAP=%r) binned; stored %r expected %r' %
                (mapv, np.asarray(s0['Spectra']['binned_spectrum'])[:3], binned[:3]), vector=vector)
    prof = world.twin_profiles(med)
    bad = [k for k in PROFILE_KEYS if not arr_close(s0['Profiles'][k], prof[k])]
    ctx.verdict('profiles_at_median', not bad, cls=cls,
                detail='profiles %r are not those of the median solution %r' % (bad, med), vector=vector)
    dp = s0.get('derived_params', {})
    exp = [world.twin_derived(samples[i]) for i in range(len(samples))]
    for d in DERIVED:
        rec = dp.get(d + '_derived')
        if rec is None:
            ctx.verdict('derived_trace', False, cls=cls, detail='no derived trace for %s' % d, vector=vector)
            continue
        tr = np.asarray(rec['trace'], dtype=float)
        e = np.array([x[d] for x in exp])
        ctx.verdict('derived_trace', arr_close(tr, e), cls=cls,
                    detail='%s trace %r expected (sample order) %r' % (d, tr, e), vector=vector)
        if events is not None:
            events.append(trace_event(len(events), e, vector['w'], float(rec['value']), float(rec['sigma_m']),
                                      float(rec['sigma_p']), float(rec['mean']), cls + ':derived:' + d, vector))


def multimode_case(ctx, world, cases, vector, scn=None):
    """Several MultiNest modes with different sample counts in one output: one solution per mode, numbered as the
    specification says (scn['yields'] of spec/NestOutput.tla), each holding its own mode's samples and statistics."""
    parts = [build_samples(world, c) for c in cases]
    apart = scn['apart'] if scn else [True] * len(cases)
    want = sorted(scn['yields']) if scn else list(range(len(cases)))
    modes = []
    for k, (smp, wts) in enumerate(parts):
        modes += mn_modes(smp, wts, k + 1, apart=bool(apart[k]))
    nm = len(cases)
    cls = 'multinest:modes=%s:n=%s:fit' % (nm if nm < 5 else ('5-10' if nm <= 10 else 'more-than-10'),
                                            '/'.join(str(len(c[0]['w'])) for c in cases) if nm < 5 else 'mixed')
    if world.cfgkey[3] != '1-':
        cls += ':prefix=' + world.cfgkey[3]
    try:
        sol = world.run(modes, True)
        got = []
        for idx, opt_map, opt_median, extras in world.opt.get_solution():
            got.append((idx, list(opt_map), list(opt_median), dict(extras)))
    except Exception as e:   # noqa
        ctx.verdict('summary_produced', False, cls=cls, detail='fit raised %r' % e, vector=vector)
        return
    keys = sorted((k for k in sol if str(k).startswith('solution')), key=lambda k: (len(k), k)) if isinstance(sol, dict) else None
    ctx.verdict('one_solution_per_mode', sorted(g[0] for g in got) == want and keys == ['solution%d' % i for i in want], cls=cls,
                detail='get_solution yields the numbers %r, the solution dictionary has %r, for %d modes (expected numbers %r)' %
                ([g[0] for g in got], keys, nm, want), vector=vector)
    for idx, opt_map, opt_median, extras in got:
        if not isinstance(idx, int) or idx < 0 or idx >= nm:
            continue
        smp, wts = parts[idx]
        fitp = extras.get('fit_params')
        try:
            gs, gw = world.opt.get_samples(idx), world.opt.get_weights(idx)
            mapv = check_summary(ctx, world, cases[idx], fitp, smp, wts, gs, gw, cls, vector)
            med = [float(fitp[n]['value']) for n in world.names]
        except (KeyError, IndexError, TypeError, ValueError) as e:
            ctx.verdict('summary_produced', False, cls=cls, detail='solution %r is not readable: %r' % (idx, e), vector=vector)
            continue
        ctx.verdict('map_vector', all(close(a, b, rel=1e-14, abs_=1e-300) for a, b in zip(opt_map, mapv)), cls=cls,
                    detail='get_solution MAP %r of solution %d vs fit_params %r' % (opt_map, idx, mapv), vector=vector)
        ctx.verdict('median_vector', all(close(a, b, rel=1e-14, abs_=1e-300) for a, b in zip(opt_median, med)), cls=cls,
                    detail='get_solution median %r of solution %d vs fit_params %r' % (opt_median, idx, med), vector=vector)
        check_full(ctx, world, sol, smp, wts, mapv, med, cls, dict(vector, w=cases[idx][0]['w']), key='solution%d' % idx)


# ----------------------------------------------------------------------------------------------
# binding A
# ----------------------------------------------------------------------------------------------

class NestWorlds(object):
    """MultiNest optimizers, one per (fitted dimensions, run configuration of spec/NestOutput.tla), built on demand."""

    def __init__(self, tmpdir):
        self.tmpdir = tmpdir
        self.worlds = {}

    def get(self, dims, cfgkey):
        cfgkey = tuple(cfgkey)
        if (dims, cfgkey) not in self.worlds:
            smm, ins, route, pfx = cfgkey
            self.worlds[(dims, cfgkey)] = World('multinest', dims, self.tmpdir, multimodes=smm, ins=ins, route=route, pfx=pfx)
        return self.worlds[(dims, cfgkey)]


def default_scenarios():
    """the configurations of the check before spec/NestOutput.tla (used by --replay of old vectors only)"""
    return [dict(smm=True, ins=False, route='modes', pfx='1-', modes=1, sizes=[2], apart=[True], yields=[0]),
            dict(smm=False, ins=False, route='modes', pfx='1-', modes=1, sizes=[2], apart=[True], yields=[0])]


def pick_mode_counts(scns, nmulti, rng):
    """mode counts of the multi-modal outputs: always the greatest count of the model and another of more than ten
    modes (solution numbers of two decimal digits), otherwise mostly 2-4 modes"""
    counts = sorted({s['modes'] for s in scns if s['modes'] >= 2})
    if not counts:
        return []
    big = [c for c in counts if c > 10]
    mid = [c for c in counts if 5 <= c <= 10]
    small = [c for c in counts if c < 5]
    out = []
    if big:
        out.append(max(big))
        out.append(rng.choice(big))
    if mid:
        out.append(rng.choice(mid))
    while len(out) < nmulti:
        out.append(rng.choice(small or counts))
    return out[:max(nmulti, 3)]


def run_vectors(ctx, vecs, nfull, rng, nmulti=30, scns=None):
    given = bool(scns)
    scns = scns or default_scenarios()
    groups = {}
    for v in vecs:
        groups.setdefault((tuple(v['w']), tuple(v['tot'])), []).append(v)
    tmpdir = tempfile.mkdtemp(prefix='c09_')
    try:
        worlds = {('nestle', 2): World('nestle', 2, tmpdir), ('nestle', 3): World('nestle', 3, tmpdir)}
        nworlds = NestWorlds(tmpdir)
        # runs of ONE mode: every configuration of the specification in turn (mode separation on / off, importance
        # sampling, statistics from the analyser's per-mode tables / from the global tables, file prefix)
        single = sorted((s for s in scns if s['modes'] == 1), key=lambda s: json.dumps(s, sort_keys=True))
        rng.shuffle(single)
        byconf = {}
        for sc in single:
            byconf.setdefault(nest.config_key(sc), []).append(sc)
        confs = sorted(byconf)
        if not confs:
            raise Machinery('the specification exported no single-mode scenario')
        ctx.note('MultiNest run configurations (search_multi_modes, importance_sampling, statistics, prefix): %s' %
                 '; '.join(nest.config_tag(c) for c in confs))
        cases = []
        for w, cols in sorted(groups.items()):
            cols = list(cols)
            rng.shuffle(cols)
            dims = 2 + (len(cases) % 2)
            while len(cols) % dims:
                cols.append(rng.choice(cols))
            for k in range(0, len(cols), dims):
                cases.append(cols[k:k + dims])
        fullset = set(rng.sample(range(len(cases)), min(nfull, len(cases))))
        nmn = 0
        for ci, case in enumerate(cases):
            dims = len(case)
            full = ci in fullset
            for sampler in ('nestle', 'multinest'):
                if sampler == 'multinest' and not full and ci % 3:
                    continue
                if sampler == 'nestle':
                    world = worlds[(sampler, dims)]
                    vector = dict(kind='vector', sampler=sampler, cols=case, full=full, w=case[0]['w'])
                    one_case(ctx, world, case, full, vector)
                    continue
                conf = confs[nmn % len(confs)]
                sc = byconf[conf][(nmn // len(confs)) % len(byconf[conf])]
                nmn += 1
                world = nworlds.get(dims, conf)
                vector = dict(kind='vector', sampler=sampler, cols=case, full=full, w=case[0]['w'], cfg=list(conf),
                              apart=bool(sc['apart'][0]))
                one_case(ctx, world, case, full, vector, apart=bool(sc['apart'][0]))
        # multi-modal MultiNest output: the numbers of modes and the sample count of every mode are the specification's
        two = [c for c in cases if len(c) == 2]
        byn = {}
        for c in two:
            byn.setdefault(len(c[0]['w']), []).append(c)
        multi = {}
        for sc in sorted((s for s in scns if s['modes'] >= 2), key=lambda s: json.dumps(s, sort_keys=True)):
            if all(n in byn for n in sc['sizes']):
                multi.setdefault(sc['modes'], []).append(sc)
        nmm, biggest = 0, 0
        for m in pick_mode_counts([s for ss in multi.values() for s in ss], nmulti, rng):
            sc = rng.choice(multi[m])
            group = [rng.choice(byn[n]) for n in sc['sizes']]
            multimode_case(ctx, nworlds.get(2, nest.config_key(sc)), group,
                           dict(kind='multimode', sampler='multinest', cases=group, scn=sc), scn=sc)
            nmm += 1
            biggest = max(biggest, m)
        if given and nmulti and biggest <= 10 and any(s['modes'] > 10 for s in scns):
            raise Machinery('no multi-modal output of more than ten modes was exercised')
        ctx.note('%d multi-modal MultiNest outputs (up to %d modes)' % (nmm, biggest))
        return len(cases)
    finally:
        shutil.rmtree(tmpdir, ignore_errors=True)


# ----------------------------------------------------------------------------------------------
# binding B
# ----------------------------------------------------------------------------------------------

def trace_event(eid, x, w, value, sigma_m, sigma_p, mean, cls, vector):
    # w: the relative integer weights; the optimizer was handed w * tot / sum(w) (vector['tot']); the summaries do not
    # depend on the total (invariant TotalFree of MC_Posterior), so TLC evaluates the operators on w
    x = [float(v) for v in x]
    x0 = min(x)
    rng_ = max(x) - x0
    Sc = 1.0
    if rng_ > 0:
        Sc = 10.0 ** math.floor(math.log10(2e5 / rng_))
    # a non-finite reported summary becomes a value no quantile can equal, so that TLC rejects the event
    sc = lambda v: int(round((v - x0) * Sc)) if math.isfinite(v) else -10 ** 6
    return dict(id=eid, x=[sc(v) for v in x], w=[int(v) for v in w], tot=[int(v) for v in vector.get('tot', [1, 1])],
                q=[sc(value - sigma_m), sc(value), sc(value + sigma_p)], mean=sc(mean), tol=3,
                _cls=cls, _vector=vector, _detail='trace %r weights %r reported value=%r -%r +%r mean=%r' %
                (x, w, value, sigma_m, sigma_p, mean))


def random_case(rng, dims, n=None):
    if n is None:
        n = rng.randint(4, 24)
    style = rng.random()
    wmax = 3 if style < 0.5 else 9
    w = [rng.randint(0, wmax) for _ in range(n)]
    if style > 0.85:
        w = [rng.choice([0, 0, 1]) for _ in range(n)]
    if sum(w) == 0:
        w[rng.randrange(n)] = 2
    while sum(w) > 40:
        w[max(range(n), key=lambda i: w[i])] -= 1
    cols = []
    for d in range(dims):
        col = rng.sample(range(0, 3001), n)                               # distinct values ...
        for _ in range(rng.choice([0, 1, 2])):                            # ... with at most two tie groups of <= 3
            g = rng.sample(range(n), rng.choice([2, 3]))
            for i in g[1:]:
                col[i] = col[g[0]]
        cols.append([v / 1000.0 for v in col])
    return cols, w


def random_total(rng, w):
    """Total of the weight vector handed to the optimizer, as [n, d]: 1 (normalised), the raw sum, or k/8."""
    r = rng.random()
    if r < 0.25:
        return [1, 1]
    if r < 0.4:
        return [sum(w), 1]
    return [rng.randint(1, 200), 8]


def run_random(ctx, ncases, rng, events=None, scns=None):
    """events: summaries already logged (session fits, harness/fx_c09session.py); validated by the same TLC run.
    scns: scenarios of spec/NestOutput.tla (the MultiNest fits alternate between the analyser's per-mode statistics and
    a run without mode separation whose global statistics the wrapper parses itself)."""
    tmpdir = tempfile.mkdtemp(prefix='c09_')
    events = [] if events is None else events
    try:
        worlds = {2: World('nestle', 2, tmpdir), 3: World('nestle', 3, tmpdir)}
        glob = sorted({nest.config_key(s) for s in (scns or []) if s['route'] == 'global'})
        mworlds = [World('multinest', 2, tmpdir, multimodes=True)]
        if glob and ncases:
            smm, ins, route, pfx = glob[rng.randrange(len(glob))]
            mworlds.append(World('multinest', 2, tmpdir, multimodes=smm, ins=ins, route=route, pfx=pfx))
        for ci in range(ncases):
            dims = 2 + ci % 2
            world = worlds[dims] if ci % 4 else mworlds[(ci // 4) % len(mworlds)]
            dims = len(world.names)
            cols, w = random_case(rng, dims)
            samples = np.array([[unit_map(n, v) for v in col] for n, col in zip(world.names, cols)]).T.copy()
            tot = random_total(rng, w)
            weights = np.array([float(Fraction(v * tot[0], sum(w) * tot[1])) for v in w], dtype=float)
            vector = dict(kind='random', seed=ctx.seed, case=ci, w=w, tot=tot, ncases=ncases, tier=ctx.tier)
            cls = '%s:random:n=%d:%s' % (world.sampler, len(w), total_tag(tot))
            if world.sampler != 'nestle' and world.route != 'modes':
                cls += ':' + nest.config_tag(world.cfgkey)
            payload = (samples, weights) if world.sampler == 'nestle' else mn_modes(samples, weights, ci)
            try:
                sol = world.run(payload, True)
                idx, opt_map, opt_median, extras = list(world.opt.get_solution())[0]
            except Exception as e:   # noqa
                ctx.verdict('summary_produced', False, cls=cls, detail='fit raised %r' % e, vector=vector)
                continue
            fitp = dict(extras)['fit_params']
            for d, n in enumerate(world.names):
                p = fitp[n]
                mean = float(p['mean'])
                events.append(trace_event(len(events), samples[:, d], w, float(p['value']), float(p['sigma_m']),
                                          float(p['sigma_p']), mean, cls + ':fitted', vector))
            key = 'map' if world.sampler == 'nestle' else 'nest_map'
            mapv = [float(np.ravel(fitp[n][key])[0]) for n in world.names]
            wmax = max(w)
            hit = [i for i in range(len(w)) if w[i] == wmax and all(close(mapv[d], samples[i, d], rel=1e-14, abs_=1e-300)
                                                                    for d in range(dims))]
            ctx.verdict('map_is_max_weight_sample', bool(hit), cls=cls, detail='MAP %r weights %r' % (mapv, w), vector=vector)
            med = [float(fitp[n]['value']) for n in world.names]
            check_full(ctx, world, sol, samples, weights, mapv, med, cls, vector, events)
    finally:
        shutil.rmtree(tmpdir, ignore_errors=True)
    slim = [{k: v for k, v in e.items() if not k.startswith('_')} for e in events]
    accepted, bad, res = validate_trace('Trace_Posterior', 'Trace_Posterior.cfg', slim, timeout=300)
    ctx.add_tlc('trace', res, counts=False)
    if res.postcondition_false and not bad:
        raise Machinery('trace spec did not consume the whole trace:\n' + res.out[-1500:])
    badids = {b['id'] for b in bad}
    for e in events:
        ctx.verdict('trace_summary', e['id'] not in badids, cls=e['_cls'], detail='TLC rejected: ' + e['_detail'],
                    vector=e['_vector'])
    ctx.traces += len(events)
    ctx.add_sample(dict(trace_event=slim[0]))
    good = [e for e in slim if e['id'] not in badids and max(e['x']) - min(e['x']) > 1000 and sum(1 for v in e['w'] if v) > 2]
    if not good:
        if any(c['bad'] for c in ctx.clauses.values()):
            return
        raise Machinery('no event available for the canary')
    c = dict(good[len(good) // 2])
    c['q'] = [c['q'][0], c['q'][1] + 40, c['q'][2]]
    ok2, bad2, _ = validate_trace('Trace_Posterior', 'Trace_Posterior.cfg', [c])
    if ok2 or not bad2:
        raise Machinery('canary accepted: trace validation is vacuous')
    c = dict(good[len(good) // 3])
    c['w'] = list(reversed(c['w'])) if list(reversed(c['w'])) != c['w'] else [v + 1 if i == 0 else v for i, v in enumerate(c['w'])]
    ok3, bad3, _ = validate_trace('Trace_Posterior', 'Trace_Posterior.cfg', [c])
    if ok3:
        ctx.note('canary 2 (weights reversed) happened to be admissible')


# ----------------------------------------------------------------------------------------------
# binding C: behaviours of spec/PosteriorSession.tla on ONE long-lived optimizer, in jobs of 1..P processes
# ----------------------------------------------------------------------------------------------

class SessionTwin(object):
    """Oracle of the session replays: a second model instance and binners made from independently built, equal
    observations.  Non-fitted parameters have the value the long-lived model had when fit() was called."""

    def __init__(self):
        self.model = fx.make_transmission('isothermal')
        self.obs = {o: ses.make_obs(o) for o in ses.OBS}
        self.binners = {o: self.obs[o].create_binner() for o in ses.OBS}

    def set(self, names, vec, fixed):
        vals = dict(fixed)
        for n, v in zip(names, vec):
            if n.startswith('log_'):
                vals[n[4:]] = 10.0 ** float(v)
            else:
                vals[n] = float(v)
        for k in ses.FIT_ALL:
            self.model[k] = vals[k]

    def spectrum(self, names, vec, fixed, o):
        self.set(names, vec, fixed)
        g, s, _, _ = self.model.model()
        return s, self.binners[o].bindown(g, s)[1]

    def profiles(self, names, vec, fixed):
        self.set(names, vec, fixed)
        self.model.model()
        p = self.model.generate_profiles()
        return {k: np.array(p[k], dtype=float) for k in PROFILE_KEYS}

    def derived(self, names, vec, fixed):
        self.set(names, vec, fixed)
        self.model.initialize_profiles()
        return {d: float(self.model.derivedParameters[d][2]()) for d in self.model.derivedParameters}


def session_walks(ctx, rng):
    """TLC-generated behaviours of MC_PosteriorSession, grouped by the number of processes of the job.  Every fit
    step carries what the specification says the reported solution belongs to: <<"fit", n, binned_to, fitted, derived>>."""
    from ..core import run_tlc
    q = ctx.tier == 'quick'
    res = run_tlc('MC_PosteriorSession', 'SIM_PosteriorSession_%s.cfg' % ctx.tier, workers=1,
                  simulate='num=%d' % (80 if q else 600), depth=(6 if q else 8) + 3, seed=ctx.seed + 17)
    ctx.add_tlc('simulate-sessions', res, counts=False)
    if res.violated:
        raise Machinery('PosteriorSession violates %s in simulation' % res.violated)
    walks = res.tagged('WALK')
    bynp = {}
    for w in walks:
        bynp.setdefault(w['init'][3], []).append(w)
    if not bynp or len(bynp) < 2:
        raise Machinery('TLC produced session walks for process counts %r only' % sorted(bynp))
    per = 4 if q else 30
    chosen = {}
    for npr, ws in sorted(bynp.items()):
        ws = sorted(ws, key=lambda w: json.dumps(w, sort_keys=True))
        rng.shuffle(ws)
        pick, seen = [], set()

        def between_fits(w, op):        # a change of that setting between two fits of the walk
            ops = [s[0] for s in w['walk']]
            return any(o == op and 'fit' in ops[:i] for i, o in enumerate(ops))
        for op in ('obs', 'sel', 'der'):
            for w in ws:
                key = json.dumps(w['walk'][:-1])
                if key not in seen and between_fits(w, op):
                    pick.append(w)
                    seen.add(key)
                    break
        for w in ws:
            if len(pick) >= per + (2 if npr == 1 else 0):
                break
            key = json.dumps(w['walk'][:-1])
            if key not in seen and sum(1 for s in w['walk'] if s[0] == 'fit') >= 2:
                pick.append(w)
                seen.add(key)
        chosen[npr] = pick
    flat = [w for ws in chosen.values() for w in ws]
    for op in ('obs', 'sel', 'der'):
        if not any(any(o[0] == op and any(p[0] == 'fit' for p in w['walk'][:i]) for i, o in enumerate(w['walk'])) for w in flat):
            raise Machinery('no generated session changes %r between two fits' % op)
    return chosen


def session_payloads(walk, rng, sampler):
    """The sample sets the sampler double returns in the fits of one walk (sizes and selections from the spec)."""
    fits = []
    for step in walk['walk']:
        if step[0] != 'fit':
            continue
        _, n, binned_to, fitted, derived = step
        names = ses.SEL_NAMES[fitted]
        cols, w = random_case(rng, len(names), n=n)
        samples = np.array([[unit_map(nm, v) for v in col] for nm, col in zip(names, cols)]).T.copy()
        tot = random_total(rng, w)
        weights = np.array([float(Fraction(v * tot[0], sum(w) * tot[1])) for v in w], dtype=float)
        f = dict(samples=samples.tolist(), weights=weights.tolist(), w=w, tot=tot,
                 exp=dict(n=n, binned_to=binned_to, fitted=fitted, derived=derived))
        if sampler == 'multinest':
            f['modes'] = mn_modes(samples, weights, len(fits) + n)
        fits.append(f)
    return fits


def judge_fit(ctx, twin, sampler, proj, fit, cls, vector, events):
    """One reported solution of a session against what the specification says it belongs to."""
    exp = fit['exp']
    if 'error' in proj:
        ctx.verdict('summary_produced', False, cls=cls, detail='fit raised ' + proj['error'], vector=vector)
        return
    names, dnames = ses.SEL_NAMES[exp['fitted']], ses.DERS[exp['derived']]
    ok = proj['nsol'] == 1 and proj['names'] == names and all(n in proj['fit_params'] for n in names)
    ctx.verdict('session_fitted_selection', ok, cls=cls,
                detail='%d solution(s), summarised parameters %r / %r, selected %r' % (proj['nsol'], proj['names'], proj['fit_keys'], names),
                vector=vector)
    if not ok:
        return
    samples, weights = np.array(fit['samples'], dtype=float), np.array(fit['weights'], dtype=float)
    exact = sampler == 'nestle'
    same = (lambda a, b: np.array_equal(np.asarray(a, dtype=float), b)) if exact else (lambda a, b: arr_close(a, b, 1e-14))
    sol = proj['sol']
    ctx.verdict('tracedata_unchanged', same(proj['samples'], samples), cls=cls, detail='stored samples differ from the sampler\'s', vector=vector)
    ctx.verdict('weights_unchanged', same(proj['weights'], weights), cls=cls,
                detail='stored weights %r expected %r' % (proj['weights'], weights), vector=vector)
    ctx.verdict('solution_dict_traces', arr_close(sol['tracedata'], samples, 1e-14) and arr_close(sol['weights'], weights, 1e-14),
                cls=cls, detail='solution tracedata/weights differ', vector=vector)
    ev_vec = dict(vector, w=fit['w'], tot=fit['tot'])
    for d, n in enumerate(names):
        p = proj['fit_params'][n]
        ctx.verdict('trace_column', arr_close(p['trace'], samples[:, d], 1e-14), cls=cls,
                    detail='%s trace %r expected column %r' % (n, p['trace'], samples[:, d]), vector=vector)
        events.append(trace_event(len(events), samples[:, d], fit['w'], p['value'], p['sigma_m'], p['sigma_p'], p['mean'],
                                  cls + ':fitted', ev_vec))
    mapv = [proj['fit_params'][n]['map'] for n in names]
    wmax = max(fit['w'])
    hit = [i for i in range(len(samples)) if fit['w'][i] == wmax and
           all(close(mapv[d], samples[i, d], rel=1e-14, abs_=1e-300) for d in range(len(names)))]
    ctx.verdict('map_is_max_weight_sample', bool(hit), cls=cls, detail='MAP %r weights %r' % (mapv, fit['w']), vector=vector)
    med = [proj['fit_params'][n]['value'] for n in names]
    ctx.verdict('map_vector', len(proj['opt_map']) == len(mapv) and all(close(a, b, rel=1e-14, abs_=1e-300) for a, b in zip(proj['opt_map'], mapv)),
                cls=cls, detail='get_solution MAP %r vs fit_params %r' % (proj['opt_map'], mapv), vector=vector)
    ctx.verdict('median_vector', len(proj['opt_median']) == len(med) and all(close(a, b, rel=1e-14, abs_=1e-300) for a, b in zip(proj['opt_median'], med)),
                cls=cls, detail='get_solution median %r vs fit_params %r' % (proj['opt_median'], med), vector=vector)
    fixed = proj['fixed']
    o = exp['binned_to']
    nat, binned = twin.spectrum(names, mapv, fixed, o)
    sp = sol['spectra']
    ok = arr_close(sp.get('native_spectrum', []), nat) and arr_close(sp.get('binned_spectrum', []), binned)
    if 'binned_wngrid' in sp:
        ok = ok and arr_close(sp['binned_wngrid'], twin.obs[o].wavenumberGrid, 1e-12)
    ctx.verdict('spectrum_at_map', ok, cls=cls,
                detail='stored spectrum is not model(MAP=%r) binned to observation %d (the one in force at fit()); stored %r on %r expected %r on %r' %
                (mapv, o, sp.get('binned_spectrum', [])[:3], sp.get('binned_wngrid', [])[:3], binned[:3], twin.obs[o].wavenumberGrid[:3]),
                vector=vector)
    prof = twin.profiles(names, med, fixed)
    bad = [k for k in PROFILE_KEYS if not arr_close(sol['profiles'].get(k, []), prof[k])]
    ctx.verdict('profiles_at_median', not bad, cls=cls, detail='profiles %r are not those of the median solution %r' % (bad, med), vector=vector)
    want = sorted(d + '_derived' for d in dnames)
    ctx.verdict('session_derived_selection', sorted(sol['derived']) == want and proj['derived_names'] == dnames, cls=cls,
                detail='derived traces %r (derived_names %r), selected %r' % (sorted(sol['derived']), proj['derived_names'], dnames), vector=vector)
    expd = [twin.derived(names, samples[i], fixed) for i in range(len(samples))]
    for d in dnames:
        rec = sol['derived'].get(d + '_derived')
        if rec is None:
            ctx.verdict('derived_trace', False, cls=cls, detail='no derived trace for %s' % d, vector=vector)
            continue
        e = np.array([x[d] for x in expd])
        ctx.verdict('derived_trace', arr_close(rec['trace'], e), cls=cls,
                    detail='%s trace %r expected (one entry per sample, sample order) %r' % (d, rec['trace'], e), vector=vector)
        events.append(trace_event(len(events), e, fit['w'], rec['value'], rec['sigma_m'], rec['sigma_p'], rec['mean'],
                                  cls + ':derived:' + d, ev_vec))
    if proj.get('prev_changed') is not None:
        ctx.verdict('earlier_solution_untouched', not proj['prev_changed'], cls=cls,
                    detail='the solution reported by the previous fit changed at %r during this fit' % (proj['prev_changed'],), vector=vector)


def rank_replays(nproc, walks):
    """Replay the walks in a simulated job of nproc processes -> per walk ('ok', [per-rank list of projections]) or
    ('failed', text).  A batch that breaks (a rank raised / left the others waiting) is redone walk by walk."""
    from .. import fx_mpi

    def start():
        try:
            return fx_mpi.RankGroup(nproc, ses.worker_main)
        except fx_mpi.GroupFailure as e:
            raise Machinery('cannot start %d simulated ranks: %s' % (nproc, e))
    results = [None] * len(walks)
    g = start()
    try:
        try:
            per_rank = g.run(walks)
            for k in range(len(walks)):
                rs = [pr[k] if pr is not None and k < len(pr) else None for pr in per_rank]
                if all(r is not None for r in rs):
                    results[k] = ('ok', rs)
        except fx_mpi.GroupFailure:
            pass
        for k in range(len(walks)):
            if results[k] is not None:
                continue
            if g.dead:
                g = start()
            try:
                per_rank = g.run([walks[k]])
                results[k] = ('ok', [pr[0] if pr else [dict(error='rank returned nothing', fixed={})] for pr in per_rank])
            except fx_mpi.GroupFailure as e:
                results[k] = ('failed', str(e))
    finally:
        g.close()
    return results


def same_report(a, b, fit):
    """two processes report exactly the same solution (and held the same values of the non-fitted parameters)"""
    free = [k for k in ses.FIT_ALL if k not in ses.SELS[fit['exp']['fitted']]]
    if any(a.get('fixed', {}).get(k) != b.get('fixed', {}).get(k) for k in free):
        return False
    return not ses.diff_projection({k: v for k, v in a.items() if k != 'fixed'}, {k: v for k, v in b.items() if k != 'fixed'})


def step_classes(walk):
    """for every fit of the walk: what changed since the previous fit (first / refit / obs / sel / der, joined by +)."""
    out, since, first = [], [], True
    for s in walk['walk']:
        if s[0] == 'fit':
            out.append('first' if first else ('+'.join(sorted(set(since))) or 'refit'))
            since, first = [], False
        else:
            since.append(s[0])
    return out


def run_sessions(ctx, rng, events):
    chosen = session_walks(ctx, rng)
    twin = SessionTwin()
    tmpdir = tempfile.mkdtemp(prefix='c09s_')
    nfit = 0
    try:
        for nproc, walks in sorted(chosen.items()):
            jobs = []
            for k, w in enumerate(walks):
                sampler = 'multinest' if (nproc == 1 and k % 3 == 2) else 'nestle'
                fits = session_payloads(w, rng, sampler)
                jobs.append(dict(init=w['init'], steps=w['walk'], fits=fits, sampler=sampler))
            if nproc == 1:
                results = []
                for j in jobs:
                    try:
                        r = ses.replay(lambda init, j=j: ses.Session(j['sampler'], init, tmpdir, multimodes=True), j)
                    except Exception as e:   # noqa -- a settings change raised
                        r = [dict(error='setting change raised %s: %s' % (type(e).__name__, e), fixed={})]
                    results.append(('ok', [r]))
            else:
                slim = [dict(init=j['init'], steps=j['steps'],
                             fits=[dict(samples=f['samples'], weights=f['weights']) for f in j['fits']]) for j in jobs]
                results = rank_replays(nproc, slim)
            for j, (status, per_rank) in zip(jobs, results):
                classes = step_classes(dict(walk=j['steps']))
                vector = dict(kind='session', seed=ctx.seed, init=j['init'], steps=j['steps'], sampler=j['sampler'])
                base = 'session:%s:ranks=%d' % (j['sampler'], nproc)
                if status != 'ok':
                    ctx.verdict('summary_produced', False, cls=base, detail='the job of %d processes did not complete: %s' % (nproc, per_rank[-600:]),
                                vector=vector)
                    continue
                for rank, projs in enumerate(per_rank):
                    for fi, fit in enumerate(j['fits']):
                        if fi >= len(projs):
                            break           # the walk ended at a fit that raised (already reported)
                        cls = '%s:after-%s%s' % (base, classes[fi], '' if j['init'][0] else ':built-without-observation')
                        nfit += 1
                        if rank and fi < len(per_rank[0]) and 'error' not in projs[fi] and same_report(per_rank[0][fi], projs[fi], fit):
                            # this process reports exactly what process 0 reports (judged above)
                            ctx.verdict('ranks_report_the_same', True, cls=cls, vector=dict(vector, rank=rank, fit=fi))
                            continue
                        judge_fit(ctx, twin, j['sampler'], projs[fi], fit, cls, dict(vector, rank=rank, fit=fi), events)
    finally:
        shutil.rmtree(tmpdir, ignore_errors=True)
        try:
            from .. import fx_mpi
            fx_mpi.close_all()
        except Exception:   # noqa
            pass
    ctx.note('%d reported solutions of %d session walks (process counts %s) judged' %
             (nfit, sum(len(v) for v in chosen.values()), sorted(chosen)))
    return nfit


# ----------------------------------------------------------------------------------------------

def run(ctx):
    q = ctx.tier == 'quick'
    fx.load_optimizers()
    fx.register_opacities()
    rng = random.Random(ctx.seed * 9001 + 9)
    ctx.bounds = dict(
        tier=ctx.tier,
        exhaustive='1-D: all sample sets of <= %d samples over 3-4 values x weights {0,1,2} (ties, zeros); 2-D: <= 3 samples'
                   % (4 if q else 5),
        vectors='all 1-D columns of <= %d samples x weights, stacked into 2- and 3-parameter fits (T, log H2O, planet_radius)'
                % (3 if q else 4),
        traces='random sample sets of 4-24 samples, integer weights 0..9 (sum <= 40), values with ties, 2-3 fitted + 3 derived',
        sessions='TLC-generated lives of ONE optimizer (spec/PosteriorSession.tla): built with / without an observation, '
                 'set_observed among 4 observations (three with the same number of bins on different grids, one with more bins), '
                 'fitted selection {T, H2O} / {planet_radius, T, H2O}, derived selection {logg, avg_T, mu} / {avg_T, mu}, %s; '
                 'jobs of %s processes (one forked process per rank, collectives pickled through a hub; nestle double), '
                 'MultiNest double in some one-process lives' %
                 (('<= 6 steps, fits of 4/5/7 samples', '1, 2, 3') if q else ('<= 8 steps, fits of 4..12 samples', '1..4')),
        nest_output='form of MultiNest\'s output (spec/NestOutput.tla): search_multi_modes on / off x importance_sampling on / off x '
                    'multinest_prefix "1-" / "r2_" x statistics from the analyser\'s per-mode tables / from the global tables of '
                    '<prefix>stats.dat parsed by the wrapper (analyser reports no modes); %s modes of 1..%d samples in one output '
                    '(solution numbers of two decimal digits); sample of greatest likelihood apart from / among the samples of '
                    'greatest weight' % (('1..12', 3) if q else ('1..12, 20, 21, 57, 99, 100', 4)),
        weight_totals='the weight vector handed over by the sampler double has total 1, 37/100, the raw integer sum%s '
                      '(vectors) / 1, raw or k/8 with k in 1..200 (traces)' % ('' if q else ', 5/2'))
    ctx.assumptions = [
        'TLC + CommunityModules Json/IOUtils',
        'quantile rule = taurex.util.util.quantile_corner as documented in DESIGN (zero-weight samples take part in the '
        'interpolation); equal values / coinciding cumulative weights admit a set of values',
        'recording double of nestle.sample; pymultinest double writes 1-.txt / 1-post_separate.dat / 1-stats.dat in the '
        'layout read back by the wrapper and by a transcription of PyMultiNest\'s Analyzer (real MultiNest not installed)',
        'MultiNest: mean / MAP are the sampler\'s own statistics (pass-through by index is what is checked); the double writes '
        'mean = weighted mean, MAP = first sample of greatest weight, maximum-likelihood point = another sample where the '
        'specification says so',
        'layout of <prefix>stats.dat of a run without mode separation = what store_nest_solutions parses when the analyser '
        'reports no modes (two evidence lines, then the tables mean/sigma, maximum likelihood, MAP separated by blank lines; '
        'harness/fx_c09nest.py)',
        'PolyChord summary part not covered (file layout not reproducible offline)',
        'oracle for spectra / profiles / derived traces: a second model instance driven through model[param] = value',
        'sessions: a parameter taken out of the fit is fixed at a definite value through model[param] = value (left alone it '
        'keeps whatever sample the last post-processing step of that process evaluated, which differs from rank to rank); '
        'the observation a stored spectrum belongs to, the summarised parameters and the sample order are those of the '
        'TLC-generated behaviour; simulated MPI = harness/fx_mpi.py + the mpi4py double (allreduce of lists = concatenation '
        'in rank order)']
    ctx.check_spec('exhaustive-1d', 'MC_Posterior', 'MC_Posterior_1d_%s.cfg' % ctx.tier, workers=8 if q else 16)
    ctx.check_spec('exhaustive-2d', 'MC_Posterior', 'MC_Posterior_2d_%s.cfg' % ctx.tier, need_actions=('Summarise',))
    ctx.exhaustive = True
    ctx.expect_refuted('median-is-not-a-sample', 'MC_Posterior', 'MC_Posterior_refute.cfg', 'MedianIsASample')
    ctx.expect_refuted('weights-need-not-sum-to-one', 'MC_Posterior', 'MC_Posterior_refute_total.cfg', 'WeightsSumToOne')
    res = ctx.check_spec('export', 'MC_Posterior', 'EX_Posterior_%s.cfg' % ctx.tier, workers=1)
    vecs = res.tagged('VEC')
    if len(vecs) < 1000:
        raise Machinery('only %d vectors exported' % len(vecs))
    if not q:
        res2 = ctx.check_spec('export-small', 'MC_Posterior', 'EX_Posterior_quick.cfg', workers=1)
        vecs += res2.tagged('VEC')
    # the form of MultiNest's output: configurations x number of modes x source of the statistics
    nres = ctx.check_spec('nest-output', 'NestOutput', 'MC_NestOutput_%s.cfg' % ctx.tier, workers=1,
                          need_actions=('Run', 'Store', 'Report'))
    scns = nres.tagged('SCN')
    if not any(s['modes'] > 10 for s in scns) or not any(s['route'] == 'global' for s in scns):
        raise Machinery('NestOutput exported no scenario of more than ten modes / of the global-statistics route')
    ctx.expect_refuted('map-read-from-the-maximum-likelihood-table', 'NestOutput', 'MC_NestOutput_refute_maxlike.cfg',
                       'MapIsGreatestWeight', workers=1)
    ctx.expect_refuted('solution-number-read-from-one-digit-of-the-key', 'NestOutput', 'MC_NestOutput_refute_firstdigit.cfg',
                       'OneSolutionPerMode', workers=1)
    if not q:
        ctx.expect_refuted('every-mode-gets-the-statistics-of-the-first', 'NestOutput', 'MC_NestOutput_refute_firstmode.cfg',
                           'MapIsGreatestWeight', workers=1)
    n = run_vectors(ctx, vecs, 120 if q else 1500, rng, 30 if q else 200, scns=scns)
    ctx.note('%d exported columns stacked into %d fits' % (len(vecs), n))
    # the life of one optimizer in a job of np processes
    ctx.check_spec('session-exhaustive', 'PosteriorSession', 'MC_PosteriorSession_%s.cfg' % ctx.tier, workers=2)
    ctx.expect_refuted('binner-kept-from-the-first-observation', 'PosteriorSession', 'MC_PosteriorSession_refute_lazybinner.cfg',
                       'BinnedToFittedObservation', workers=1)
    ctx.expect_refuted('weights-reordered-once-per-derived-parameter', 'PosteriorSession', 'MC_PosteriorSession_refute_weightsonce.cfg',
                       'DerivedWeightsAligned', workers=1)
    if not q:
        ctx.expect_refuted('gathered-lists-left-in-process-order', 'PosteriorSession', 'MC_PosteriorSession_refute_rankorder.cfg',
                           'DerivedInSampleOrder', workers=1)
        ctx.check_spec('session-summary-rule', 'PosteriorSession', 'MC_PosteriorSession_rule.cfg', workers=2)
    events = []
    run_sessions(ctx, random.Random(ctx.seed * 9001 + 11), events)
    run_random(ctx, 60 if q else 600, random.Random(ctx.seed * 9001 + 10), events, scns=scns)


def replay(ctx, violations):
    fx.load_optimizers()
    fx.register_opacities()
    seen = set()
    tmpdir = tempfile.mkdtemp(prefix='c09_')
    try:
        for v in violations:
            vec = v.get('vector') or {}
            if vec.get('kind') == 'vector':
                key = repr(vec)
                if key in seen:
                    continue
                seen.add(key)
                dims = len(vec['cols'])
                smm, ins, route, pfx = vec.get('cfg') or [dims == 2, False, 'modes', '1-']
                world = World(vec['sampler'], dims, tmpdir, multimodes=smm, ins=ins, route=route, pfx=pfx)
                one_case(ctx, world, vec['cols'], vec['full'], vec, apart=vec.get('apart', True))
            elif vec.get('kind') == 'multimode':
                key = repr(vec)
                if key in seen:
                    continue
                seen.add(key)
                sc = vec.get('scn')
                pfx = sc['pfx'] if sc else '1-'
                multimode_case(ctx, World('multinest', 2, tmpdir, multimodes=True, pfx=pfx), vec['cases'], vec, scn=sc)
            elif vec.get('kind') == 'session':
                key = ('session', vec['seed'])
                if key in seen:
                    continue
                seen.add(key)
                ctx.seed = vec['seed']
                events = []
                run_sessions(ctx, random.Random(ctx.seed * 9001 + 11), events)
                run_random(ctx, 0, random.Random(ctx.seed * 9001 + 10), events)
            elif vec.get('kind') == 'random':
                key = ('random', vec['seed'])
                if key in seen:
                    continue
                seen.add(key)
                ctx.seed = vec['seed']
                rng = random.Random(ctx.seed * 9001 + 10)
                from ..core import run_tlc
                scns = run_tlc('NestOutput', 'MC_NestOutput_%s.cfg' % vec.get('tier', 'quick'), workers=1).tagged('SCN')
                run_random(ctx, vec.get('ncases', 60), rng, scns=scns)
    finally:
        shutil.rmtree(tmpdir, ignore_errors=True)
