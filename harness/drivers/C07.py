"""C07 -- retrieval set-up depends only on current settings; updates touch only fitted.

Spec:  spec/Optimizer.tla (one action per public method of taurex.optimizer.Optimizer, Unknown-name
       variants, Compile, UpdateModel, WriteBack), spec/MC_Optimizer.tla (the fixture's constants,
       exhaustive / export / simulation configs), spec/Trace_Optimizer.tla.
Design level: TLC proves HistoryIndependent, SpacesAgree, RoundTrip, OnlyFittedTouched, UnknownIsError ...
       for the repaired mechanism on the bounded config, and must REFUTE them for the as-built
       mechanisms (PriorTable = "persist_all", ViewSpace = "param_mode", DerivedLookup = "fitting").
Binding C: TLC behaviours (every history of length 3 over a reduced alphabet + random simulation
       over the full alphabet) replayed on a real NestleOptimizer over a real TransmissionModel and an
       ArraySpectrum with a fitting parameter; the projected state is compared after every call.
       "Preset" histories: every subset of the parameters made the fitted set (only the observation's
       parameter, none, all ...) x one optional setter / set_prior x compile x update / write-back / compile.
Rejected calls: update_model with a vector shorter / longer than the fitted set and set_mode with a string that is
       neither mode are calls of the specification (UpdateWrong, BadMode: an error, nothing changes, the history goes
       on); the mode argument is a pair (mode, letters written in upper case).  TLC must refute ErrorsChangeNothing
       for UpdateGuard = "while_writing" and HistoryIndependent for ModeStore = "raw".
Boundaries with a zero / negative edge (legal for a parameter fitted in linear space; codes Zero / Neg(e) of the
       specification) are in every alphabet; "order" histories: two setting calls of different kinds on the same fitted
       parameter in either order (boundaries then mode, mode then boundaries ..), then compile.  TLC must refute
       HistoryIndependent for BoundaryGuard = "positive_in_log" (boundaries dropped while the parameter is in log mode).
Arguments: every sequence handed to a call (boundary / factor pair, vector) is a list, a tuple or a float64 ndarray whose
       contents are compared with a private copy afterwards; the array of the last update_model is state of the
       specification (arg: it still holds what the caller wrote, after every later call too) and UpdateSame hands the
       same array object to update_model again.  TLC must refute ArgumentKept for UpdateArg = "transformed".
Binding B: seeded random call sequences (wider argument domains) recorded from the real object and
       validated call by call by Trace_Optimizer.tla; canary.
"""
import copy
import random

from ..core import Machinery, run_tlc, validate_trace
from .. import fx_optimizer as fx
from .. import fx_paramframe

CLAUSES = ('unknown_is_error', 'known_is_accepted', 'views_readable', 'fit_names', 'fit_values',
           'fit_boundaries', 'fit_priors', 'derived_names', 'values', 'other_parameters_untouched', 'argument_untouched')
FULL = ('compile_params', 'update_model', 'update_same', 'write_back', 'fit')     # calls after which the whole set-up is compared
UPDATES = ('update_model', 'update_same')
OBS_PARAMS = ('offset',)     # the observation's fitting parameters (MC_Optimizer.tla: MCObsParams)
COMPILES = ('compile_params', 'fit')      # the two public entries into the compilation (Optimizer.tla: Compiles)
NEED = ('SetPrior', 'EnableDerived', 'DisableDerived', 'CompileAs', 'File', 'WriteBack', 'Unknown', 'UpdateCall',
        'UpdateWrongCall', 'BadMode', 'UpdateSame')
MODES = ('linear', 'log')


def history_class(hist, k):
    """Input class of step k of a history: the call, and what preceded it since the last compile."""
    op = call_kind(hist[k])
    compiled_before = any(h['op'] in COMPILES for h in hist[:k])
    since, since_kinds = [], []
    for h in reversed(hist[:k]):
        if h['op'] in COMPILES:
            break
        since.append(h['op'])
        since_kinds.append(call_kind(h))
    tags = sorted(set(since) & {'set_boundary', 'set_factor_boundary', 'set_mode', 'set_prior', 'file'}) \
        if hist[k]['op'] in FULL and compiled_before else []
    if hist[k]['op'] in FULL and 'set_mode[mixed-case]' in since_kinds:
        tags = [t for t in tags if t != 'set_mode'] + ['set_mode[mixed-case]']     # a mode spelled with upper-case letters
    if hist[k]['op'] in FULL and 'set_boundary[non-positive]' in since_kinds:
        tags = [t for t in tags if t != 'set_boundary'] + ['set_boundary[non-positive]']     # a zero / negative edge
    if hist[k]['op'] in FULL and boundary_then_mode(hist[:k]):
        tags.append('boundary-then-mode')
    if k and call_kind(hist[k - 1]) in ('update_model<shorter', 'update_model>longer', 'set_mode[no-mode]'):
        tags.append('after-refused-call')          # the call before this one was refused
    if hist[k]['op'] in UPDATES:       # the sequence type of the vector (update_same: of the vector handed over before)
        c = [h.get('c') for h in hist[:k + 1] if h['op'] == 'update_model' and h.get('c')]
        op += '(%s)' % (c[-1] if c else 'list')
    cls = '%s:%s:%s' % (op, 'recompile' if compiled_before else 'first', '+'.join(tags) or '-')
    pre = [h for h in hist[:k + 1] if h['op'] == 'preset']
    if pre:
        cls += ':fitted=%s:%s' % (fitted_kind(pre[-1]['on']),
                                  'user-prior' if any(h['op'] == 'set_prior' for h in hist[:k + 1]) else 'no-user-prior')
    return cls


def boundary_then_mode(before):
    """Since the last compile a parameter's boundaries were set and its mode afterwards (the order of an input file)."""
    bounded = set()
    for h in before:
        if h['op'] in COMPILES:
            bounded = set()
        elif h['op'] in ('set_boundary', 'set_factor_boundary'):
            bounded.add(h.get('p'))
        elif h['op'] == 'set_mode' and h.get('p') in bounded and h.get('m') in MODES:
            return True
    return False


def call_kind(ev):
    """The call of an event, with the class of its argument where the specification distinguishes one: a vector
    shorter / longer than the fitted set, a mode written with upper-case letters, a string that is no mode."""
    op = ev['op']
    if op == 'update_model':
        # the fitted set of the last compile (update_model does not change it): the specification's in binding C,
        # the number of compiled parameters read before the call in binding B
        nfit = ev['nfit'] if 'nfit' in ev else len(ev['post']['fit'])
        n = len(ev['x'])
        if n == nfit:      # co: an entry handed to a log prior is numerically the parameter's current value
            return op + ('[entry=current-value]' if ev.get('co') else '')
        return op + ('<shorter' if n < nfit else '>longer')
    if op == 'file':       # the route: what the input file asks for
        fs = ev.get('fs', [])
        keys = sorted({k for e in fs for k, w in (('mode', 'm'), ('bounds', 'b'), ('factor', 'f')) if e.get(w)} |
                      {'prior' for e in fs if (e.get('pr') or {}).get('kind', 'None') != 'None'} |
                      {'on' if e['fit'] else 'off' for e in fs} | ({'derive'} if ev.get('ds') else set()))
        return 'file[%s]' % '+'.join(keys)
    if op == 'update_same':
        return 'update_model[same-array-again]'
    if op == 'set_boundary' and ev.get('p') in fx.PARAMS and min(ev.get('x', [0])) <= fx.ZERO:
        return 'set_boundary[non-positive]'
    if op == 'set_mode' and ev.get('p') in fx.PARAMS:
        if ev.get('m') not in MODES:
            return 'set_mode[no-mode]'
        if fx.spell(ev['m'], ev.get('cs')) != ev['m']:
            return 'set_mode[mixed-case]'
    return op


def fitted_kind(on):
    """Class of a fitted set: none / observation parameters only / model parameters only / both."""
    obs = [p for p in on if p in OBS_PARAMS]
    if not on:
        return 'none'
    if len(obs) == len(on):
        return 'observation-only'
    return 'model+observation' if obs else 'model-only'


def replay_behaviour(ctx, hist, source, store=True, n=0):
    """Binding C: step the real object through one spec behaviour; stop at the first divergence.
    n: number of the behaviour; it decides in which sequence type a vector / pair is handed over where the
    event does not say (the specification ignores the type): mostly float64 ndarrays for vectors."""
    real = fx.build()
    prev = dict(fit=[])
    hist = [dict(h) for h in hist]
    for k, ev in enumerate(hist):
        if 'c' not in ev and ev['op'] == 'update_model':
            ev['c'] = ('array', 'list', 'array', 'tuple')[(n + k) % 4]
        if 'c' not in ev and ev['op'] in ('set_boundary', 'set_factor_boundary'):
            ev['c'] = ('tuple', 'array', 'list')[(n + k) % 3]
        if 'ko' not in ev and ev['op'] == 'file':      # spelling of the booleans / order of the keys in the file
            ev['ko'] = (n + k) % 6
        exp = ev['post']
        psp = [f['psp'] for f in prev['fit']]
        if ev['op'] == 'preset':       # macro step: enable_fit / disable_fit for every parameter
            raised = any([real.apply(dict(op='enable_fit' if p in ev['on'] else 'disable_fit', p=p)) for p in fx.PARAMS])
        else:
            raised = real.apply(ev, psp=psp)
        got = real.project(raised)
        bad, detail = fx.compare(exp, got, full=ev['op'] in FULL)
        cls = history_class(hist, k)
        if bad is None and ev['op'] == 'fit':
            # .. and what the sampler was handed when fit() entered it is that same set-up
            bad, detail = fx.compare(exp, dict(real.sampler, err=got['err']), full=True)
            detail = 'seen by the sampler: ' + detail
        if bad is None:
            ctx.verdict(clause_for(ev, 'ok'), True, cls=cls)
        else:
            vec = dict(kind='behaviour', source=source, step=k, hist=[{a: b for a, b in h.items()} for h in hist[:k + 1]])
            ctx.verdict(clause_for(ev, bad), False, cls=cls + ':' + bad, vector=vec if store else None,
                        detail='step %d %s(%s): %s' % (k, ev['op'], ev.get('p', ev.get('x', '')), detail))
            return False
        prev = exp
    return True


def clause_for(ev, bad):
    """Name of the property clause a step exercises (passing) or violates."""
    op = ev['op']
    kind = call_kind(ev) if ('nfit' in ev or 'fit' in ev.get('post', {})) else op
    rejected = {'update_model<shorter': 'refused_vector', 'update_model>longer': 'refused_vector',
                'set_mode[no-mode]': 'refused_mode'}.get(kind)
    if rejected and bad in ('ok', 'unknown_is_error', 'values', 'fit_values'):
        # a refused call raises and writes nothing (neither the model's values nor, hence, the reported ones)
        return rejected + ('_is_error' if bad == 'unknown_is_error' else '_changes_nothing')
    if bad == 'ok':
        if ev['post']['err']:
            return 'unknown_is_error'
        return {'compile_params': 'compile_history_independent', 'fit': 'compile_history_independent',
                'update_model': 'update_touches_only_fitted', 'update_same': 'update_touches_only_fitted',
                'write_back': 'write_back_round_trip'}.get(op, 'setters_change_settings_only')
    if bad == 'values':
        return {'update_model': 'update_touches_only_fitted', 'update_same': 'update_touches_only_fitted',
                'write_back': 'write_back_round_trip'}.get(op, 'values')
    return bad


# ------------------------------------------------------------------ binding B
def random_prior(rng):
    k = rng.choice(['Uniform', 'LogUniform', 'Gaussian', 'LogGaussian'])
    a, b = rng.randint(-8, 8), rng.randint(-8, 8)
    if k in ('Uniform', 'LogUniform'):
        a, b = min(a, b), max(a, b)
        if a == b:
            b += 1
    return dict(kind=k, a=a, b=b)


def coincident(real, x):
    """Class label only (binding B): an entry handed to a log prior equals the parameter's current value."""
    from taurex.core.priors import PriorMode
    try:
        return any(q.priorMode is PriorMode.LOG and float(k) == float(par[2]())
                   for k, par, q in zip(x, real.opt.fitting_parameters, real.opt.fitting_priors))
    except Exception:
        return False


class Shadow:
    """What the calls made so far imply for the settings (kept by the generator, never read from the implementation):
    it decides which calls are inside the domain of the specification -- compile_params is defined unless a fitted
    parameter with a log-space prior has a zero / negative boundary (Optimizer.tla: CompileDefined), update_same when
    the numbers of the last vector still mean the same (SameDefined)."""

    def __init__(self):
        self.s = {p: dict(fit=v[0], mode=v[1], nonpos=False, up=None) for p, v in fx.INIT_SETTING.items()}
        self.compiled = []       # prior spaces of the fitted parameters at the last compile
        self.arg = None          # spaces in which the entries of the last vector were handed over

    def space(self, p):
        return self.s[p]['up'] or self.s[p]['mode']

    def offending(self):
        return [p for p in fx.PARAMS if self.s[p]['fit'] and self.s[p]['nonpos'] and self.space(p) == 'log']

    def same_defined(self):
        return bool(self.arg) and self.arg == self.compiled       # (not for the empty vector: nothing to write)

    def apply(self, ev):
        op, p = ev['op'], ev.get('p')
        if op == 'compile_params':
            self.compiled = [self.space(q) for q in fx.PARAMS if self.s[q]['fit']]
        elif op == 'update_model':
            self.arg = [self.compiled[i] if i < len(self.compiled) else 'linear' for i in range(len(ev['x']))]
        elif p in self.s:
            if op in ('enable_fit', 'disable_fit'):
                self.s[p]['fit'] = op == 'enable_fit'
            elif op == 'set_mode' and ev.get('m') in MODES:
                self.s[p]['mode'] = ev['m']
            elif op == 'set_boundary':
                self.s[p]['nonpos'] = min(ev['x']) <= fx.ZERO
            elif op == 'set_factor_boundary':
                self.s[p]['nonpos'] = False
            elif op == 'set_prior':
                self.s[p]['up'] = 'log' if ev['pr']['kind'].startswith('Log') else 'linear'


def random_bounds(rng):
    """A pair of boundary exponents in either order; three in ten have a zero / negative edge (codes Zero, Neg(e))."""
    x = [rng.randint(-9, 9), rng.randint(-9, 9)]
    if rng.random() < 0.3:
        x[rng.randint(0, 1)] = rng.choice([fx.ZERO, fx.ZERO, fx.NEG - rng.randint(-3, 3)])
        if rng.random() < 0.2:
            x = [fx.NEG - rng.randint(-3, 3), fx.ZERO]
            rng.shuffle(x)
    return x


def random_trace(rng, tid, length):
    """Drive a fresh real optimizer with a random call sequence; log one event per call."""
    real = fx.build()
    events = [dict(tid=tid, step=-1, op='init')]
    shadow = Shadow()
    nfit = 0
    # flavour of the trace: one in three starts by making a random subset the fitted set (often only the
    # observation's parameter, or nothing) and half of those never call set_prior
    pre = []
    no_prior = False
    if rng.random() < 0.34:
        on = rng.choice([['offset'], ['offset'], [], [p for p in fx.PARAMS if rng.random() < 0.5]])
        pre = [dict(op='enable_fit' if p in on else 'disable_fit', p=p) for p in fx.PARAMS] + [dict(op='compile_params')]
        no_prior = rng.random() < 0.5
    for step in range(length):
        r = rng.random()
        p = rng.choice(fx.PARAMS)
        ev = None
        if pre:
            ev = pre.pop(0)
        elif no_prior and 0.42 <= r < 0.52:
            ev = dict(op='compile_params')
        elif r < 0.10:
            ev = dict(op='enable_fit', p=p)
        elif r < 0.16:
            ev = dict(op='disable_fit', p=p)
        elif r < 0.26:
            # the mode in any spelling: half of the calls write some letters in upper case (LOG, Log, lOg, Linear ..)
            m = rng.choice(['linear', 'log', 'log'])
            r2 = rng.random()
            cs = [] if r2 < 0.5 else list(range(1, len(m) + 1)) if r2 < 0.65 else [1] if r2 < 0.8 else \
                sorted(rng.sample(range(1, len(m) + 1), rng.randint(1, len(m))))
            ev = dict(op='set_mode', p=p, m=m, cs=cs)
        elif r < 0.36:
            ev = dict(op='set_boundary', p=p, x=random_bounds(rng), c=rng.choice(['tuple', 'list', 'array']))
        elif r < 0.42:
            ev = dict(op='set_factor_boundary', p=p, x=[rng.randint(-3, 3), rng.randint(-3, 3)], c=rng.choice(['tuple', 'list', 'array']))
        elif r < 0.52:
            ev = dict(op='set_prior', p=p, pr=random_prior(rng))
        elif r < 0.57:
            ev = dict(op='enable_derived', p=rng.choice(fx.DERIVED))
        elif r < 0.62:
            ev = dict(op='disable_derived', p=rng.choice(fx.DERIVED))
        elif r < 0.80:
            ev = dict(op='compile_params')
        elif r < 0.88:
            # one vector in three has the wrong length (shorter but not empty, or longer): it must be refused and
            # write nothing; the calls that follow see the object as it was
            n = nfit
            if rng.random() < 0.34:
                n = rng.randint(1, nfit - 1) if nfit >= 2 and rng.random() < 0.5 else nfit + rng.randint(1, 2)
            # exponent 0 is frequent, and a parameter that is 10^0 = 1 under a log prior is usually handed the entry 1:
            # numerically the current value, it must still be written (the parameter becomes 10)
            x = [0 if rng.random() < 0.25 else rng.randint(-6, 3) for _ in range(n)]
            if n == nfit:
                x = [1 if coincident(real, [1] * i + [1]) and not coincident(real, [1] * i) and rng.random() < 0.7 else k
                     for i, k in enumerate(x)]
            ev = dict(op='update_model', x=x, nfit=nfit, c=rng.choice(['list', 'tuple', 'array', 'array']))
            if n == nfit:
                ev['co'] = coincident(real, x)
            if shadow.same_defined() and rng.random() < 0.3:
                # the array object of the previous update_model is written again (a second sweep over a sampler's trace)
                ev = dict(op='update_same', nfit=nfit)
        elif r < 0.93:
            ev = dict(op='write_back')
        else:
            op = rng.choice(['enable_fit', 'disable_fit', 'set_mode', 'set_boundary', 'set_factor_boundary',
                             'set_prior', 'enable_derived', 'disable_derived'])
            bad = rng.choice(['nope', 'H2O']) if op.endswith('derived') else rng.choice(['nope', 'mu', 'log_H2O'])
            ev = dict(op=op, p=bad)
            if op == 'set_mode':
                ev['m'], ev['cs'] = 'log', []
                if rng.random() < 0.5:      # a known parameter, a string that is neither mode
                    ev['p'], ev['m'] = p, rng.choice(['logarithmic', 'lin', '', 'log10', 'LN', 'linear '])
            if op in ('set_boundary', 'set_factor_boundary'):
                ev['x'] = [0, 1]
            if op == 'set_prior':
                ev['pr'] = dict(kind='Uniform', a=0, b=1)
        bad = shadow.offending()
        if ev['op'] == 'compile_params' and bad:
            # outside the domain (log10 of a zero / negative boundary): the caller changes the settings first -- the mode
            # after the boundaries, as an input file does, or a prior / boundaries that fit
            q = rng.choice(bad)
            ev = dict(op='set_prior', p=q, pr=dict(kind='Uniform', a=-2, b=2)) if shadow.s[q]['up'] == 'log' else \
                dict(op='set_mode', p=q, m='linear', cs=[]) if rng.random() < 0.7 else \
                dict(op='set_boundary', p=q, x=[rng.randint(-9, 9), rng.randint(-9, 9)], c='tuple')
        shadow.apply(ev)
        raised = real.apply(ev)
        post = real.project(raised)
        nfit = len(real.opt.fitting_parameters)
        e = dict(ev, tid=tid, step=step, post=fx.encode(post))
        events.append(e)
        if not post['others_same']:
            e['post']['ok'] = False
    return events


def run_traces(ctx, ntraces, length):
    rng = random.Random(ctx.seed * 104729 + 7)
    events, per_tid = [], {}
    for tid in range(ntraces):
        ev = random_trace(rng, tid, length)
        per_tid[tid] = ev
        events += ev
    accepted, bad, res = validate_trace('Trace_Optimizer', 'Trace_Optimizer.cfg', events)
    ctx.add_tlc('trace', res, counts=False)
    if res.postcondition_false or res.violated:
        raise Machinery('trace spec did not consume the whole trace:\n' + res.out[-1500:])
    badtid = {b['tid']: b for b in bad}
    ctx.traces += ntraces
    for tid in range(ntraces):
        b = badtid.get(tid)
        if b is None:
            ctx.verdict('trace_accepted', True, cls='trace')
        else:
            evs = per_tid[tid]
            hist = [e for e in evs if e['step'] >= 0 and e['step'] <= b['step']]
            cls = history_class(hist, len(hist) - 1) + ':' + b['why']
            ctx.verdict(clause_for(hist[-1], b['why']), False, cls=cls,
                        detail='TLC rejected call %d (%s) of recorded trace %d: %s; logged projection %s'
                               % (b['step'], b['op'], tid, b['why'], str(hist[-1]['post'])[:400]),
                        vector=dict(kind='trace', events=[{k: v for k, v in e.items() if k != 'post'} for e in hist]))
    ctx.add_sample(dict(trace_event=events[min(5, len(events) - 1)]))
    kinds = {}
    for e in events:
        if e['op'] in ('update_model', 'update_same', 'set_mode', 'set_boundary'):
            kd = call_kind(e)
            kinds[kd] = kinds.get(kd, 0) + 1
    for tid in range(ntraces):       # compiles / updates reached with a parameter's mode set after its boundaries
        hist = [e for e in per_tid[tid] if e['step'] >= 0]
        n = sum(1 for k, e in enumerate(hist) if e['op'] in FULL and boundary_then_mode(hist[:k]))
        kinds['boundary-then-mode'] = kinds.get('boundary-then-mode', 0) + n
    need = ('update_model', 'update_model<shorter', 'update_model>longer', 'update_model[entry=current-value]',
            'set_mode', 'set_mode[mixed-case]', 'set_mode[no-mode]', 'set_boundary[non-positive]',
            'update_model[same-array-again]', 'boundary-then-mode')
    if any(kinds.get(kd, 0) < max(2, ntraces // 50) for kd in need):
        raise Machinery('recorded traces do not cover the classes of update_model / set_mode arguments: %r' % kinds)
    ctx.note('binding B: %d recorded traces, %d calls, %d rejected; %r' % (ntraces, len(events) - ntraces, len(bad), kinds))
    # canary: corrupt one logged field of an accepted trace; TLC must reject exactly that trace
    good = [t for t in range(ntraces) if t not in badtid]
    if not good:
        return
    for field in ('val', 'prior', 'err'):
        evs = copy.deepcopy(per_tid[good[len(good) // 2]])
        target = None
        for e in evs[1:]:
            if field == 'prior' and e['post']['fit']:
                e['post']['fit'][0]['pa'] = dict(i=77, p=77)
                target = e
                break
            if field == 'val' and e['step'] >= 2:
                e['post']['val']['T'] = dict(i=fx.NONUM, p=-7)
                target = e
                break
            if field == 'err' and e['step'] >= 1:
                e['post']['err'] = not e['post']['err']
                target = e
                break
        if target is None:
            if field == 'prior':
                continue
            raise Machinery('no event available for the canary')
        ok2, bad2, _ = validate_trace('Trace_Optimizer', 'Trace_Optimizer.cfg', evs)
        if ok2 or not bad2 or bad2[0]['step'] != target['step']:
            raise Machinery('canary (%s) accepted: trace validation is vacuous' % field)


def replay_trace_events(ctx, events):
    """--replay of a recorded trace: re-execute the calls on the real object and re-validate."""
    real = fx.build()
    out = [dict(tid=0, step=-1, op='init')]
    for k, ev in enumerate(events):
        ev = {a: b for a, b in ev.items() if a not in ('post', 'tid', 'step')}
        raised = real.apply(ev)
        out.append(dict(ev, tid=0, step=k, post=fx.encode(real.project(raised))))
    ok, bad, res = validate_trace('Trace_Optimizer', 'Trace_Optimizer.cfg', out)
    hist = out[1:]
    if bad:
        b = bad[0]
        ctx.verdict(clause_for(hist[b['step']], b['why']), False,
                    cls=history_class(hist, b['step']) + ':' + b['why'], detail='TLC rejected call %d: %s' % (b['step'], b['why']),
                    vector=dict(kind='trace', events=events))
    else:
        ctx.verdict('trace_accepted', True, cls='trace')


# ------------------------------------------------------------------------ run
def run(ctx):
    q = ctx.tier == 'quick'
    ctx.bounds = dict(
        tier=ctx.tier,
        fixture='TransmissionModel(planet_radius, T, H2O[log]) + ArraySpectrum subclass (offset); derived logg, mu',
        exhaustive=('2 model + 1 observation parameters, 2 bound pairs (one reversed with a negative edge), 1 factor pair, '
                    '3 priors, 2 update exponents, histories of <= 4 calls') if q else
                   ('3 model + 1 observation parameters, 3 bound pairs (one reversed, one with a zero edge), 2 factor pairs, '
                    '4 priors, 2 update exponents, histories of <= 5 calls'),
        behaviours='all histories of 3 calls over a reduced alphabet + 2403 preset histories (all 16 fitted subsets; modes in '
                   'three spellings; boundaries also with a zero edge; last call also a vector one shorter / one longer than '
                   'the fitted set; an accepted update_model is followed by a second write of the same array object) + 688 '
                   'order histories (two setting calls of different kinds on one fitted parameter in either order, then '
                   'compile) + %d simulated behaviours of 14 calls over the full alphabet' % (300 if q else 3000),
        boundaries='positive in either order, with a zero edge, with a negative edge (reversed), both edges non-positive: '
                   'legal where the prior is linear; compile_params with a log-space prior over such boundaries is outside '
                   'the domain (never generated)',
        arguments='boundary / factor pairs as tuple, list, float64 ndarray; vectors as list, tuple, float64 ndarray; contents '
                  'compared exactly with a private copy after the call; the array of the last update_model re-read after every later call',
        traces='%d recorded call sequences of %d calls' % ((150, 25) if q else (1500, 30)),
        rejected_calls='unknown names; update_model with a vector of every wrong non-zero length up to one more than the '
                       'fitted set (exhaustive: all values of K; presets: one shorter / one longer for every fitted subset; '
                       'traces: up to two longer, as list / tuple / ndarray); set_mode with a string that is neither mode',
        mode_spellings='linear, log, LOG' + ('' if q else ', Log, LINEAR') +
                       ' (exhaustive); all seven in the simulation; random upper/lower case in the recorded traces')
    ctx.assumptions = [
        'all linear quantities are powers of ten (exponents in the spec); float log10/10** are exact to 1e-12 on them',
        'prior parameters are read through the public params() text and boundaries(); order of a boundary pair is not compared',
        'TLC + CommunityModules Json/IOUtils; the harness projection harness/fx_optimizer.py',
        'before the first compile_params() nothing is derived (Optimizer has no derived_parameters attribute yet)',
        'compile_params over a fitted parameter whose prior is in log space while a boundary is zero / negative is outside '
        'the domain (log10 of the boundary does not exist); factors of set_factor_boundary are positive']
    # ---- binding C: exhaustive short histories (exported first, alone: the export is on the critical path)
    res = run_tlc('MC_Optimizer', 'EX_Optimizer_%s.cfg' % ctx.tier, workers=1)
    ctx.add_tlc('export-histories', res, counts=False)
    if res.violated:
        raise Machinery('export config violated %s' % res.violated)
    behs = res.tagged('BEH')
    if len(behs) < 1000:
        raise Machinery('only %d histories exported' % len(behs))
    # ---- design level (TLC runs in background threads while the behaviours are replayed; joined before finishing)
    from concurrent.futures import ThreadPoolExecutor
    pool = ThreadPoolExecutor(max_workers=3)
    nsim = 300 if q else 3000
    # the other exports of binding C are prepared meanwhile
    later = [pool.submit(run_tlc, 'MC_Optimizer', 'EX_Optimizer_preset.cfg', workers=1),
             pool.submit(run_tlc, 'MC_Optimizer', 'EX_Optimizer_order.cfg', workers=1),
             pool.submit(run_tlc, 'MC_Optimizer', 'EX_Optimizer_route.cfg', workers=1),
             pool.submit(run_tlc, 'MC_Optimizer', 'SIM_Optimizer.cfg', simulate='num=%d' % nsim, depth=16, workers=1,
                         seed=ctx.seed + 1)]
    design = [pool.submit(ctx.check_spec, 'coverage', 'MC_Optimizer', 'MC_Optimizer_cov.cfg', need_actions=NEED),   # vacuity: every action taken
              pool.submit(ctx.check_spec, 'exhaustive', 'MC_Optimizer', 'MC_Optimizer_%s.cfg' % ctx.tier, workers=8)]
    ctx.exhaustive = True
    # i: fit() re-uses an earlier non-empty compile; j: `p:fit = False` in an input file does not switch a fitted parameter off
    # e: set_mode stores the spelling it was given (compile reads "LOG" as not "log"); f: update_model notices the
    # wrong length only when the shorter of vector / fitted set runs out, after the leading setters were called;
    # g: set_boundary drops a zero / negative edge while the parameter is in log mode (the order of set_boundary and
    # set_mode decides the set-up); h: update_model writes the prior transform into the caller's array
    for cfg, inv in (('a', 'HistoryIndependent'), ('a2', 'DefaultsFollowSettings'), ('b', 'SpacesAgree'),
                     ('b2', 'RoundTrip'), ('c', 'KnownIsAccepted'), ('e', 'HistoryIndependent'),
                     ('f', 'ErrorsChangeNothing'), ('g', 'HistoryIndependent'), ('h', 'ArgumentKept'),
                     ('i', 'HistoryIndependent'), ('j', 'HistoryIndependent')):
        design.append(pool.submit(ctx.expect_refuted, 'as-built-%s' % cfg, 'MC_Optimizer', 'MC_Optimizer_asbuilt_%s.cfg' % cfg, inv, workers=4))
    # priors of the observation's parameters reaching the table only when the model pass left something in it
    design.append(pool.submit(ctx.expect_refuted, 'obs-priors-lost', 'MC_Optimizer', 'MC_Optimizer_asbuilt_d.cfg', 'ViewsReadable', workers=4))
    ctx._design_futures = design
    nsame = 0
    for n, b in enumerate(behs):
        replay_behaviour(ctx, b['h'], 'export', n=n)
        nsame += any(h['op'] == 'update_same' for h in b['h'])
    nb = len(behs)
    # ---- binding C: preset histories (every fitted subset, incl. observation parameters only / none)
    res = later[0].result()
    ctx.add_tlc('export-preset-histories', res, counts=False)
    if res.violated:
        raise Machinery('preset export config violated %s' % res.violated)
    pres = res.tagged('BEH')
    kinds = {}
    for n, b in enumerate(pres):
        h = b['h']
        replay_behaviour(ctx, h, 'preset', n=n)
        last = h[3]         # (an accepted update_model is followed by update_model with the same array)
        key = (fitted_kind(h[0]['on']), any(x['op'] == 'set_prior' for x in h), last['op'])
        kinds[key] = kinds.get(key, 0) + 1
        key = (fitted_kind(h[0]['on']), call_kind(last), call_kind(h[1]))
        kinds[key] = kinds.get(key, 0) + 1
        kinds[call_kind(last)] = kinds.get(call_kind(last), 0) + 1
        if len(h) == 5:
            # the same array written twice where a log-space prior reads it (the transform is not the identity there)
            key = ('same', fitted_kind(h[0]['on']), any(f['psp'] == 'log' for f in h[4]['post']['fit']))
            kinds[key] = kinds.get(key, 0) + 1
        elif call_kind(last) in ('update_model', 'update_model[entry=current-value]'):
            raise Machinery('a preset history ends in an accepted update_model without the second write of the same array')
    for fk in ('none', 'observation-only', 'model-only', 'model+observation'):
        for last in ('update_model', 'write_back', 'compile_params'):
            if not kinds.get((fk, False, last)) or not kinds.get((fk, True, last)):
                raise Machinery('preset histories do not cover fitted=%s x set_prior yes/no x %s' % (fk, last))
        # a refused vector for every kind of fitted set (longer; shorter where a shorter non-empty one exists), also
        # right after a mode written in upper case
        for last in ('update_model>longer', 'update_model<shorter'):
            if last.endswith('shorter') and fk in ('none', 'observation-only'):
                continue
            for second in ('compile_params', 'set_mode[mixed-case]'):
                if not kinds.get((fk, last, second)):
                    raise Machinery('preset histories do not cover fitted=%s x %s x %s' % (fk, second, last))
        if fk != 'none' and not kinds.get(('same', fk, True)):
            raise Machinery('preset histories do not write the same array twice through a log-space prior for fitted=%s' % fk)
        if not kinds.get((fk, 'compile_params', 'set_boundary[non-positive]')):
            raise Machinery('preset histories do not set a zero / negative boundary for fitted=%s' % fk)
    if kinds.get('update_model[entry=current-value]', 0) < 8:
        raise Machinery('preset histories do not hand a log prior an entry equal to the current value of its parameter')
    nb += len(pres)
    ctx.note('binding C: %d preset histories (fitted subset x setter/set_prior/compile x compile x update/write-back/compile; '
             'an accepted update is followed by a second write of the same array)' % len(pres))
    # ---- binding C: order histories (two setting calls of different kinds on one fitted parameter, either order)
    res = later[1].result()
    ctx.add_tlc('export-order-histories', res, counts=False)
    if res.violated:
        raise Machinery('order export config violated %s' % res.violated)
    orders = res.tagged('BEH')
    okinds = {}
    for n, b in enumerate(orders):
        h = b['h']
        replay_behaviour(ctx, h, 'order', n=n)
        key = (call_kind(h[1]), call_kind(h[2]), h[1]['p'] in OBS_PARAMS)
        okinds[key] = okinds.get(key, 0) + 1
    for obs in (False, True):
        for a, b in (('set_boundary[non-positive]', 'set_mode'), ('set_mode', 'set_boundary[non-positive]'),
                     ('set_boundary', 'set_mode'), ('set_mode', 'set_boundary'),
                     ('set_factor_boundary', 'set_mode'), ('set_mode', 'set_factor_boundary'),
                     ('set_factor_boundary', 'set_boundary[non-positive]'), ('set_boundary[non-positive]', 'set_factor_boundary')):
            if not okinds.get((a, b, obs)):
                raise Machinery('order histories do not cover %s then %s on %s parameter' % (a, b, 'an observation' if obs else 'a model'))
    nb += len(orders)
    ctx.note('binding C: %d order histories (fitted subset x two setting calls of different kinds on one fitted parameter, '
             'either order x compile)' % len(orders))
    # ---- binding C: route histories (a compiled set-up, one change by the API or by an input file, then fit() / compile)
    res = later[2].result()
    ctx.add_tlc('export-route-histories', res, counts=False)
    if res.violated:
        raise Machinery('route export config violated %s' % res.violated)
    routes = res.tagged('BEH')
    rkinds = {}
    for n, b in enumerate(routes):
        h = b['h']
        replay_behaviour(ctx, h, 'route', n=n)
        for key in ((h[1]['op'], h[2]['op'], h[3]['op']), (call_kind(h[2]), h[3]['op']),
                    ('changes-set-up', h[2]['op'], h[3]['op'], h[3]['post']['fit'] != h[1]['post']['fit'])):
            rkinds[key] = rkinds.get(key, 0) + 1
    for first in COMPILES:
        for change in ('enable_fit', 'disable_fit', 'set_mode', 'set_boundary', 'set_factor_boundary', 'set_prior',
                       'enable_derived', 'disable_derived', 'file'):
            if not rkinds.get((first, change, 'fit')):
                raise Machinery('route histories do not cover %s, %s, fit' % (first, change))
        if not rkinds.get((first, 'file', 'compile_params')):
            raise Machinery('route histories do not cover %s, file, compile_params' % first)
    for last in COMPILES:
        for kd in ('file[off]', 'file[on]', 'file[mode+off]', 'file[mode+on]', 'file[bounds+on]', 'file[factor+on]',
                   'file[on+prior]', 'file[off+on]', 'file[derive]', 'file[bounds+derive+mode+on+prior]'):
            if not rkinds.get((kd, last)):
                raise Machinery('route histories do not cover %s then %s' % (kd, last))
        if not rkinds.get(('changes-set-up', 'file', last, True)):
            raise Machinery('no input file changes the set-up seen by %s' % last)
    nb += len(routes)
    ctx.note('binding C: %d route histories (fitted subset x compile / fit x one change by the API or by an input file x '
             'fit / compile)' % len(routes))
    # ---- binding C: simulation
    res = later[3].result()
    ctx.add_tlc('simulate', res, counts=False)
    if res.violated:
        raise Machinery('simulation violated %s\n%s' % (res.violated, res.error_trace))
    sims = res.tagged('BEH')
    if len(sims) < nsim // 2:
        raise Machinery('only %d simulated behaviours printed' % len(sims))
    ops = set()
    ncompile2 = 0
    nrefused = {}
    for n, b in enumerate(sims):
        replay_behaviour(ctx, b['h'], 'simulate', n=n)
        ops |= {h['op'] for h in b['h']}
        ncompile2 += sum(1 for h in b['h'] if h['op'] == 'compile_params') >= 2
        kinds = [call_kind(h) for h in b['h']]
        for kd in ('update_model<shorter', 'update_model>longer', 'set_mode[no-mode]', 'set_mode[mixed-case]',
                   'set_boundary[non-positive]', 'update_model[same-array-again]'):
            # .. followed by an accepted update_model / write-back / compile on the same object
            if kd in kinds and any(h['op'] in FULL and not h['post']['err'] for h in b['h'][kinds.index(kd) + 1:]):
                nrefused[kd] = nrefused.get(kd, 0) + 1
    if len(ops) < 15 or ncompile2 < nsim // 4:
        raise Machinery('simulation does not cover the calls: %r, %d behaviours with two compiles' % (sorted(ops), ncompile2))
    if len(nrefused) < 6 or min(nrefused.values()) < max(3, nsim // 60):
        raise Machinery('simulation does not cover refused vectors / modes / upper-case modes followed by an accepted '
                        'compile, update or write-back: %r' % nrefused)
    ctx.traces += nb + len(sims)
    ctx.add_sample(dict(behaviour=[{k: v for k, v in h.items() if k != 'post'} for h in sims[0]['h']]))
    ctx.note('binding C: %d exported histories (3 calls), %d simulated behaviours (14 calls), %d with >= 2 compiles; '
             'followed by an accepted compile/update/write-back: %r' % (nb, len(sims), ncompile2, nrefused))
    # ---- binding B
    if q:
        run_traces(ctx, 150, 25)
    else:
        run_traces(ctx, 1500, 30)
    for f in ctx._design_futures:       # design-level TLC runs: a failure there is a machinery failure
        f.result()
    pool.shutdown()
    # ---- the frame rule on the registries of models built from every component family (spec/ParamFrame.tla)
    n = fx_paramframe.run_paramframe(ctx, 3 if q else 12)
    ctx.note('registry walks (ParamFrame): %d traces over %d scenarios' % (n, len(fx_paramframe.scenarios(ctx.tier))))


def replay(ctx, violations):
    for v in violations:
        vec = v.get('vector') or {}
        if vec.get('kind') == 'behaviour':
            replay_behaviour(ctx, vec['hist'], 'replay')
        elif vec.get('kind') == 'trace':
            replay_trace_events(ctx, vec['events'])
        elif 'paramframe' in vec:
            fx_paramframe.replay_vector(ctx, v)
