"""C05 -- spectral binning is an overlap-weighted mean of the native spectrum.

Spec: spec/Binning.tla (definition + FluxBinner algorithm with variants + histogram),
      spec/MC_Binning.tla (exhaustive + export), spec/Trace_Binning.tla.
Design level: TLC checks that the sorted/searchsorted-window algorithm refines the overlap-weighted
      definition for every order of native and target points, the consequences stated in the
      property (constant, bounds, linear, weights, quadrature errors), and that the realistic slips
      (variants) are refuted.
Binding A: TLC-exported (native bins, target bins, spectrum, exact expected values) vectors replayed
      into FluxBinner / SimpleBinner / NativeBinner in every native order, 1-D and 2-D, with errors,
      with explicit widths and (uniform grids) derived widths / bin_model.
Binding B: seeded random linear / logarithmic / constant-R grids snapped to a dyadic lattice, random
      target grids (gaps, overlaps, wider, narrower, outside), every target bin of every real call
      validated by TLC against the same operators + canary.
Presentation (spec/Binning.tla part 4, spec/MC_BinPres.tla): the same bins handed over in every legal presentation --
      integer / float storage of each array, widths as array / ONE scalar / omitted -- with TLC's exact values, the
      slips "widthlike" / "outlike" refuted and a witness presentation per exposed slip always replayed.
Call histories (spec/BinCalls.tla, spec/MC_BinCalls.tla, harness/fx_bincalls.py): ONE set of caller arrays and ONE
      long-lived binner per TLC-generated sequence of calls; after every call the result is the statement's for the
      values SUPPLIED, every array handed over is unchanged, and what earlier calls returned is unchanged; four design
      mutants refuted, canary on the harness's own mutants of the real binners.
Routes (spec/BinRoutes.tla, spec/MC_BinRoutes.tla, harness/fx_binroutes.py): the model output carried to the binner by EVERY public
      route -- bindown without widths / with the widths of the documented recipe / 2-D, bin_model, the output writer's
      binned_spectrum and binned_tau in every output size, taurex.util.bindown, binners built positionally / by keyword / by an
      observation's create_binner -- on uniform AND non-uniform native points, with TLC's exact values for the native bins derived
      from the mid-points (both readings of the derived bin), four slips of one route refuted, canary on the harness's own mutants;
      binding B re-derives the value of the derived-width routes exactly on realistic constant-R / logarithmic / jittered grids.
"""
import itertools
import math
import random

import numpy as np

from concurrent.futures import ThreadPoolExecutor

from ..core import Machinery, frac, close, validate_trace, run_tlc
from .. import fx_bincalls as BC
from .. import fx_binroutes as BR

REL = 1e-12
LATTICES = [(100.0, 0.25), (7.0, 0.5), (2048.0, 4.0)]
LIM = 2 ** 30


def _binners():
    from taurex.binning import FluxBinner, SimpleBinner, NativeBinner
    return FluxBinner, SimpleBinner, NativeBinner


def to_real(nat, lat):
    x0, u = lat
    c = np.array([x0 + u * (lo + hi) / 2.0 for lo, hi in nat])
    w = np.array([u * (hi - lo) for lo, hi in nat], dtype=float)
    return c, w


def uniform_contiguous(nat):
    if len(nat) < 2:
        return False
    d = nat[0][1] - nat[0][0]
    return all(b[1] - b[0] == d for b in nat) and all(nat[i][1] == nat[i + 1][0] for i in range(len(nat) - 1))


def finite(x):
    return x == x and abs(x) != float('inf')


# ----------------------------------------------------------------------------
# binding A
# ----------------------------------------------------------------------------

def flux_call(vec, lat, perm, mode):
    """Run the real FluxBinner on one vector.  Returns per-sorted-target dicts of observed values."""
    FluxBinner = _binners()[0]
    c, w = to_real(vec['nat'], lat)
    tc, tw = to_real(vec['tgt'], lat)
    f = np.array(vec['f'], dtype=float)
    e = np.array(vec['e'], dtype=float)
    p = np.array(perm)
    fb = FluxBinner(tc, tw)
    if mode == '1d':
        wn, sp, err, wid = fb.bindown(c[p], f[p], grid_width=w[p], error=e[p])
        rows = None
    elif mode == '2d':
        stack = np.vstack([f, e, 2 * f + 3 * e])
        wn, sp2, err, wid = fb.bindown(c[p], stack[:, p], grid_width=w[p])
        sp, rows = sp2[0], sp2
    elif mode == 'derived':
        wn, sp, err, wid = fb.bindown(c[p], f[p], error=e[p])
        rows = None
    elif mode == 'bin_model':
        wn, sp, err, wid = fb.bin_model((c[p], f[p], None, None))
        rows = None
    else:
        raise Machinery('mode ' + mode)
    order = np.argsort(tc)
    grid_ok = np.array_equal(np.asarray(wn), tc[order]) and np.array_equal(np.asarray(wid), tw[order])
    return dict(sp=np.asarray(sp, dtype=float), err=None if err is None else np.asarray(err, dtype=float),
                rows=rows, grid_ok=grid_ok)


def judge_flux(ctx, vec, lat, perm, mode):
    n = len(vec['nat'])
    shuffled = list(perm) != list(range(n))
    cls = 'flux:%s:%s:%s' % ('explicit' if mode in ('1d', '2d') else 'derived-uniform',
                             'shuffled' if shuffled else 'sorted', mode)
    meta = dict(vec, lat=list(lat), perm=list(perm), mode=mode)
    try:
        got = flux_call(vec, lat, perm, mode)
    except Exception as ex:   # the quantifier covers these inputs: a crash is a violation
        ctx.verdict('overlap_weighted_mean', False, cls=cls, detail='exception %r' % ex, vector=meta)
        return
    compare_flux(ctx, vec, got, cls, meta)


def compare_flux(ctx, vec, got, cls, meta):
    """every clause of the statement for one real call against TLC's exact values (one entry per sorted target bin)"""
    ctx.verdict('target_grid_sorted_with_widths', got['grid_ok'], cls=cls, detail='returned grid/widths', vector=meta)
    if len(got['sp']) != len(vec['exp']) or (got['err'] is not None and np.shape(got['err']) != (len(vec['exp']),)):
        ctx.verdict('overlap_weighted_mean', False, cls=cls, detail='returned shapes %r / %r for %d target bins'
                    % (np.shape(got['sp']), None if got['err'] is None else np.shape(got['err']), len(vec['exp'])), vector=meta)
        return
    const = len(set(vec['f'])) == 1
    for k, ex in enumerate(vec['exp']):
        g = float(got['sp'][k])
        if ex['ov']:
            v = float(frac(ex['v']))
            ok = finite(g) and close(g, v, rel=REL)
            ctx.verdict('overlap_weighted_mean', ok, cls=cls, detail='target %r got %r expected %r' % (ex['tb'], g, v), vector=meta)
            tol = REL * max(abs(ex['hi']), 1.0)
            ctx.verdict('between_min_max_of_overlapping', finite(g) and ex['lo'] - tol <= g <= ex['hi'] + tol, cls=cls,
                        detail='target %r got %r hull [%r,%r]' % (ex['tb'], g, ex['lo'], ex['hi']), vector=meta)
            if const:
                ctx.verdict('constant_preserved', finite(g) and close(g, float(vec['f'][0]), rel=REL), cls=cls,
                            detail='got %r' % g, vector=meta)
            if got['err'] is not None:
                ge = float(got['err'][k])
                e2 = float(frac(ex['e2']))
                ctx.verdict('error_quadrature', finite(ge) and close(ge * ge, e2, rel=1e-11), cls=cls,
                            detail='target %r err %r expected sqrt(%r)' % (ex['tb'], ge, e2), vector=meta)
            if got['rows'] is not None:
                r = got['rows']
                ctx.verdict('linear', all(finite(float(x)) for x in r[:, k]) and
                            close(float(r[2, k]), 2 * float(r[0, k]) + 3 * float(r[1, k]), rel=1e-11), cls=cls,
                            detail='rows %r' % (r[:, k].tolist(),), vector=meta)
        elif ex['touch']:
            # zero-length contact: the statement does not decide; "no data" (0 or NaN) accepted
            ctx.verdict('no_overlap_untouched', g == 0.0 or g != g, cls=cls, detail='touching target %r got %r' % (ex['tb'], g), vector=meta)
        else:
            ctx.verdict('no_overlap_untouched', g == 0.0 or g != g, cls=cls, detail='disjoint target %r got %r' % (ex['tb'], g), vector=meta)


def perms_of(n, rng, cap):
    allp = list(itertools.permutations(range(n)))
    if len(allp) <= cap:
        return allp
    ident = allp[0]
    rest = allp[1:]
    rng.shuffle(rest)
    return [ident] + rest[:cap - 1]


def run_flux_vectors(ctx, vecs, rng, perm_cap):
    for i, vec in enumerate(vecs):
        n = len(vec['nat'])
        lat = LATTICES[i % len(LATTICES)]
        for perm in perms_of(n, rng, perm_cap):
            judge_flux(ctx, vec, lat, perm, '1d')
        ps = perms_of(n, rng, 2)
        for perm in ps[:2]:
            judge_flux(ctx, vec, lat, perm, '2d')
        if uniform_contiguous(vec['nat']):
            for perm in ps[:2]:
                judge_flux(ctx, vec, lat, perm, 'derived')
            judge_flux(ctx, vec, lat, ps[-1], 'bin_model')


def judge_simple(ctx, vec, lat, perm, twod):
    SimpleBinner = _binners()[1]
    c, _ = to_real(vec['nat'], lat)
    tc, tw = to_real(vec['tgt'], lat)
    f = np.array(vec['f'], dtype=float)
    p = np.array(perm)
    cls = 'simple:%s:%s' % ('2d' if twod else '1d', 'shuffled' if list(perm) != sorted(perm) else 'sorted')
    meta = dict(vec, lat=list(lat), perm=list(perm), mode='2d' if twod else '1d')
    try:
        sb = SimpleBinner(tc, tw)
        with np.errstate(all='ignore'):
            if twod:
                out = np.asarray(sb.bindown(c[p], np.vstack([f, 2 * f + 1])[:, p])[1], dtype=float)
                sp, sp2 = out[0], out[1]
            else:
                sp, sp2 = np.asarray(sb.bindown(c[p], f[p])[1], dtype=float), None
    except Exception as ex:
        ctx.verdict('histogram_mean', False, cls=cls, detail='exception %r' % ex, vector=meta)
        return
    for k, ex in enumerate(vec['exp']):
        if ex['empty']:
            continue      # nothing stated for a bin without native points
        v = float(frac(ex['v']))
        g = float(sp[k])
        ok = finite(g) and close(g, v, rel=REL)
        if ok and sp2 is not None:
            ok = close(float(sp2[k]), 2 * v + 1, rel=REL)
        ctx.verdict('histogram_mean', ok, cls=cls, detail='bin %d got %r expected %r (members %r)' % (k, g, v, ex['members']), vector=meta)


def judge_native(ctx, vec, lat):
    NativeBinner = _binners()[2]
    c, w = to_real(vec['nat'], lat)
    f = np.array(vec['f'], dtype=float)
    e = np.array(vec['e'], dtype=float)
    rng = random.Random(len(vec['f']) * 31 + int(f.sum()))
    p = list(range(len(f)))
    rng.shuffle(p)
    p = np.array(p)
    meta = dict(vec, lat=list(lat), perm=p.tolist())
    out = NativeBinner().bindown(c[p], f[p], grid_width=w[p], error=e[p])
    exp = [float(frac(x['v'])) for x in vec['exp']]
    ok = (np.array_equal(out[0], c[p]) and np.array_equal(out[1], np.array(exp)[p]) and
          np.array_equal(out[2], e[p]) and np.array_equal(out[3], w[p]))
    ctx.verdict('native_identity', ok, cls='native', detail='returned %r' % (out,), vector=meta)
    f2 = np.vstack([f, f + 1])
    out2 = NativeBinner().bin_model((c, f2, None, None))
    ctx.verdict('native_identity', np.array_equal(out2[0], c) and np.array_equal(out2[1], f2), cls='native:2d', detail='bin_model', vector=meta)


def run_multi_vectors(ctx, vecs, rng):
    seen_native = set()
    for i, vec in enumerate(vecs):
        lat = LATTICES[i % len(LATTICES)]
        n = len(vec['nat'])
        if vec['kind'] == 'flux':
            for perm in perms_of(n, rng, 3):
                judge_flux(ctx, vec, lat, perm, '1d')
            judge_flux(ctx, vec, lat, perms_of(n, rng, 2)[-1], '2d')
        elif vec['kind'] == 'simple':
            if vec['onedge']:
                continue   # a native point exactly on a histogram edge: either side is a valid reading
            for perm in perms_of(n, rng, 2):
                judge_simple(ctx, vec, lat, perm, False)
                judge_simple(ctx, vec, lat, perm, True)
        elif vec['kind'] == 'native':
            key = repr((vec['nat'], vec['f']))
            if key not in seen_native:
                seen_native.add(key)
                judge_native(ctx, vec, lat)


# ----------------------------------------------------------------------------
# presentation of the grids (spec/Binning.tla part 4, spec/MC_BinPres.tla)
# ----------------------------------------------------------------------------
PLAIN = dict(ck='float', wf='array', wk='float')
PRES_X0 = (0.0, 96.0, 1000.0)          # whole numbers of storage units: integer centres stay integer
VALKINDS = (('float', 'float'), ('int', 'float'), ('float', 'int'), ('int', 'int'))


def _stored(values, kind, alt):
    """the values in an array of the storage type the presentation names (TLC says when integer storage is legal);
    alt: 32-bit integers, and the array is a column of a table (a strided view, as np.loadtxt(...)[:, k] is)"""
    if kind == 'float':
        a = np.array(values, dtype=float)
    else:
        iv = [int(round(x)) for x in values]
        if any(float(a) != float(b) for a, b in zip(iv, values)):
            raise Machinery('presentation: integer storage requested for %r' % (values,))
        a = np.array(iv, dtype=np.int32 if alt else np.int64)
    if alt:
        table = np.zeros((len(a), 3), dtype=a.dtype)
        table[:, 1] = a
        a = table[:, 1]
    return a


def pres_side(bins, U, x0, side, alt):
    """(centres, widths argument, widths as floats) of one side in the presentation `side`"""
    c = [x0 + (lo + hi) / (2.0 * U) for lo, hi in bins]
    w = [(hi - lo) / float(U) for lo, hi in bins]
    centres = _stored(c, side['ck'], alt)
    if side['wf'] == 'omitted':
        wa = None
    elif side['wf'] == 'scalar':
        if len(set(w)) != 1:
            raise Machinery('presentation: scalar width requested for %r' % (w,))
        if side['wk'] == 'int':
            wa = int(_stored(w[:1], 'int', alt)[0]) if alt else _stored(w[:1], 'int', alt)[0]
        else:
            wa = float(w[0]) if alt else np.float64(w[0])
    else:
        wa = _stored(w, side['wk'], alt)
    return centres, wa, np.array(w, dtype=float)


def pres_call(vec, x0, pn, pt, fk, ek, perm, alt, cls_of=None):
    FluxBinner = cls_of or _binners()[0]
    U = vec['U']
    c, w, _ = pres_side(vec['nat'], U, x0, pn, alt)
    tc, tw, twf = pres_side(vec['tgt'], U, x0, pt, alt)
    p = np.array(perm)
    f = _stored(vec['f'], fk, alt)[p]
    e = _stored(vec['e'], ek, alt)[p]
    if w is not None and hasattr(w, '__len__'):
        w = w[p]
    wn, sp, err, wid = FluxBinner(tc, tw).bindown(c[p], f, grid_width=w, error=e)
    order = np.argsort(np.asarray(tc, dtype=float))
    grid_ok = (np.shape(wn) == np.shape(tc) and np.shape(wid) == np.shape(tc) and
               np.array_equal(np.asarray(wn, dtype=float), np.asarray(tc, dtype=float)[order]) and
               np.array_equal(np.asarray(wid, dtype=float), twf[order]))
    return dict(sp=np.atleast_1d(np.asarray(sp, dtype=float)), err=None if err is None else np.atleast_1d(np.asarray(err, dtype=float)),
                rows=None, grid_ok=grid_ok)


def pres_cls(pn, pt, fk, ek, perm):
    return 'pres:t=%s/%s/%s:n=%s/%s/%s:f=%s:e=%s:%s' % (pt['ck'], pt['wf'], pt['wk'], pn['ck'], pn['wf'], pn['wk'], fk, ek,
                                                       'sorted' if list(perm) == sorted(perm) else 'shuffled')


def judge_pres(ctx, vec, x0, pn, pt, fk, ek, perm, alt):
    cls = pres_cls(pn, pt, fk, ek, perm)
    meta = dict(vec, x0=x0, pn=pn, pt=pt, fk=fk, ek=ek, perm=list(perm), alt=bool(alt))
    try:
        got = pres_call(vec, x0, pn, pt, fk, ek, perm, alt)
    except Machinery:
        raise
    except Exception as ex:   # a legal presentation of bins inside the quantifier: a crash is a violation
        ctx.verdict('overlap_weighted_mean', False, cls=cls, detail='exception %r' % ex, vector=meta)
        return
    compare_flux(ctx, vec, got, cls, meta)


def pres_combos(vec, rng):
    """the presentations replayed for one vector: every legal target side, every legal native side, TLC's witness of
    each slip the vector exposes, one random combination; storage of spectrum / noise cycles through all four"""
    out, k = [], rng.randrange(4)
    for pt in vec['lt']:
        out.append((PLAIN, pt, VALKINDS[k % 4]))
        k += 1
    for pn in vec['ln']:
        if pn != PLAIN:
            out.append((pn, PLAIN, VALKINDS[k % 4]))
            k += 1
    for slip in ('widthlike', 'outlike'):
        for wit in vec[slip]:
            out.append((wit['n'], wit['t'], (wit['fk'], wit['ek'])))
    if len(vec['ln']) > 1 and len(vec['lt']) > 1:
        out.append((rng.choice(vec['ln']), rng.choice(vec['lt']), rng.choice(VALKINDS)))
    return out


def pres_mutant(slip):
    """the slips of Binning.tla part 4 on top of the real FluxBinner (canary only)"""
    FluxBinner = _binners()[0]
    if slip == 'widthlike':
        class M(FluxBinner):
            def __init__(self, wngrid, wngrid_width=None):
                if wngrid_width is not None and not hasattr(wngrid_width, '__len__'):
                    wngrid_width = np.full_like(wngrid, wngrid_width)
                super().__init__(wngrid, wngrid_width)

            def bindown(self, wngrid, spectrum, grid_width=None, error=None):
                if grid_width is not None and not hasattr(grid_width, '__len__'):
                    grid_width = np.full_like(wngrid, grid_width)
                return super().bindown(wngrid, spectrum, grid_width=grid_width, error=error)
    else:
        class M(FluxBinner):
            def bindown(self, wngrid, spectrum, grid_width=None, error=None):
                wn, sp, err, wid = super().bindown(wngrid, spectrum, grid_width=grid_width, error=error)
                return wn, sp.astype(spectrum.dtype), None if err is None else err.astype(error.dtype), wid
    return M


class _Probe:
    """collects verdicts without reporting them (canary runs)"""
    def __init__(self):
        self.bad = 0

    def verdict(self, clause, ok, **kw):
        self.bad += 0 if ok else 1


def run_presentation(ctx, vecs, rng):
    wit = dict(widthlike=[], outlike=[])
    ncalls = 0
    for i, vec in enumerate(vecs):
        x0 = PRES_X0[i % len(PRES_X0)]
        n = len(vec['nat'])
        for j, (pn, pt, (fk, ek)) in enumerate(pres_combos(vec, rng)):
            perm = list(range(n))
            if (i + j) % 2:
                rng.shuffle(perm)
            judge_pres(ctx, vec, x0, pn, pt, fk, ek, perm, (i + j) % 3 == 0)
            ncalls += 1
        for slip in wit:
            if vec[slip]:
                wit[slip].append((vec, x0))
    for slip, ws in wit.items():      # non-vacuity 1: TLC finds inputs on which each slip shows (expected counterexamples)
        if not ws:
            raise Machinery('presentation: no exported vector exposes the slip %r' % slip)
    ctx.note('presentation: %d vectors, %d real calls; TLC exposes the slip "widthlike" on %d and "outlike" on %d of them'
             % (len(vecs), ncalls, len(wit['widthlike']), len(wit['outlike'])))
    ctx.add_sample(dict(presentation_vector=vecs[len(vecs) // 2]))
    if ctx.has_violations():
        return
    # non-vacuity 2 (canary): the binding reports each slip, implemented on top of the real FluxBinner, on TLC's witnesses
    for slip, ws in wit.items():
        M = pres_mutant(slip)
        for vec, x0 in ws[::max(1, len(ws) // 10)][:10]:
            w = vec[slip][0]
            probe = _Probe()
            try:
                got = pres_call(vec, x0, w['n'], w['t'], w['fk'], w['ek'], list(range(len(vec['nat']))), False, cls_of=M)
                compare_flux(probe, vec, got, '', None)
            except Machinery:
                raise
            except Exception:
                probe.bad += 1
            if not probe.bad:
                raise Machinery('canary accepted: the slip %r on top of the real FluxBinner passes TLC\'s witness %r' % (slip, w))


def one_vector(ctx, v):
    if v['kind'] == 'pres':
        judge_pres(ctx, v, v['x0'], v['pn'], v['pt'], v['fk'], v['ek'], v['perm'], v['alt'])
        return
    if v['kind'] == 'calls':
        replay_calls(ctx, v)
        return
    if v['kind'] == 'route':
        BR.replay_vector(ctx, v)
        return
    lat = tuple(v['lat'])
    if v['kind'] == 'flux':
        judge_flux(ctx, v, lat, v['perm'], v['mode'])
    elif v['kind'] == 'simple':
        judge_simple(ctx, v, lat, v['perm'], v['mode'] == '2d')
    else:
        judge_native(ctx, v, lat)


# ----------------------------------------------------------------------------
# binding B: random grids -> events
# ----------------------------------------------------------------------------
S_VAL, S_ERR = 1000, 100


def make_native(rng, derived):
    """Native grid on a lattice: list of integer (lo, hi), ordered, disjoint; returns (bins, style)."""
    style = rng.choice(['linear', 'log', 'constR'] if not derived else ['log', 'constR', 'jitter'])
    n = rng.randint(20, 400) if rng.random() < 0.3 else rng.randint(20, 80)
    if style == 'linear':
        d = rng.randint(2, 40)
        start = rng.randint(0, 5000)
        edges = [start + i * d for i in range(n + 1)]
    elif style == 'log':
        ratio = 1.0 + 1.0 / rng.randint(20, 120)
        x = float(rng.randint(300, 2000))
        edges = [int(round(x))]
        while len(edges) < n + 1:
            x *= ratio
            e = int(round(x))
            if e <= edges[-1] + 1:
                e = edges[-1] + 2
                x = float(e)
            edges.append(e)
    elif style == 'constR':
        from taurex.util.util import create_grid_res   # used as a generator of realistic grids only
        R = rng.randint(20, 100)
        lo = rng.uniform(0.5, 3.0)
        g = create_grid_res(R, lo, lo * rng.uniform(1.5, 4.0))
        unit = g[0, 1] / rng.randint(6, 24)           # lattice: first bin ~6-24 units wide
        raw = [int(round((cc - ww / 2) / unit)) for cc, ww in g] + [int(round((g[-1, 0] + g[-1, 1] / 2) / unit))]
        edges = [raw[0]]
        for e in raw[1:]:
            edges.append(max(e, edges[-1] + 2))
        edges = edges[:401]
    else:   # jitter: irregular spacing
        edges = [rng.randint(0, 2000)]
        for _ in range(n):
            edges.append(edges[-1] + rng.choice([2, 4, 6, 8, 10, 14, 20]))
    bins = [(edges[i], edges[i + 1]) for i in range(len(edges) - 1)]
    if not derived and rng.random() < 0.5:
        # gaps: drop some bins, shrink some others
        keep = []
        for b in bins:
            r = rng.random()
            if r < 0.1:
                continue
            if r < 0.2 and b[1] - b[0] >= 4:
                b = (b[0] + 1, b[1] - 1)
            keep.append(b)
        if len(keep) >= 3:
            bins = keep
            style += '+gaps'
    return bins, style


def make_targets(rng, bins, nmax=40):
    lo_all, hi_all = bins[0][0], bins[-1][1]
    med = sorted(b[1] - b[0] for b in bins)[len(bins) // 2]
    span = hi_all - lo_all
    tg, centres = [], set()
    k = rng.randint(2, nmax)
    mode = rng.choice(['random', 'contiguous', 'mixed'])
    cur = lo_all - rng.randint(0, 3 * med)
    for _ in range(k * 3):
        if len(tg) >= k:
            break
        r = rng.random()
        if mode == 'contiguous' or (mode == 'mixed' and r < 0.5):
            w = rng.randint(1, 8 * med)
            lo = cur
            cur = lo + w + (rng.randint(0, 2 * med) if rng.random() < 0.2 else 0)
        else:
            w = rng.randint(1, max(2, 10 * med)) if rng.random() < 0.7 else rng.randint(1, max(1, med // 2 + 1))
            lo = rng.randint(lo_all - 4 * med, hi_all + 3 * med)
            if rng.random() < 0.3:      # edges coinciding with native edges
                b = rng.choice(bins)
                lo = b[0] if rng.random() < 0.5 else b[1]
        hi = lo + w
        if (lo + hi) in centres or lo > hi_all + 6 * med:
            continue
        centres.add(lo + hi)
        tg.append((lo, hi))
    if len(tg) < 2:
        tg = [(lo_all, lo_all + med), (lo_all + 2 * med, lo_all + 5 * med)]
    rng.shuffle(tg)
    return tg


def lattice_for(rng, bins):
    u = rng.choice([0.125, 0.25, 0.5, 1.0, 2.0])
    x0 = float(rng.choice([0, 64, 1000])) - min(0, bins[0][0]) * u + (0 if bins[0][0] > 0 else 8)
    return x0, u


def window_val(bins, tb):
    """Indices of native bins meeting the (closed) target plus one neighbour on each side."""
    idx = [i for i, b in enumerate(bins) if b[1] >= tb[0] and b[0] <= tb[1]]
    if not idx:
        # nearest bins on each side, to let TLC see the target sits in a gap / outside
        left = [i for i, b in enumerate(bins) if b[1] < tb[0]]
        right = [i for i, b in enumerate(bins) if b[0] > tb[1]]
        idx = ([left[-1]] if left else []) + ([right[0]] if right else [])
        return idx, False, False, True
    a, z = idx[0], idx[-1]
    ml = a > 0
    mr = z < len(bins) - 1
    return list(range(a - (1 if ml else 0), z + (1 if mr else 0) + 1)), ml, mr, False


def val_events(rng, ncalls, events, calls):
    FluxBinner = _binners()[0]
    skipped = 0
    for _ in range(ncalls):
        bins, style = make_native(rng, derived=False)
        tg = make_targets(rng, bins)
        lat = lattice_for(rng, bins)
        c, w = to_real(bins, lat)
        tc, tw = to_real(tg, lat)
        n = len(bins)
        f = [rng.randint(0, 1000) for _ in range(n)]
        e = [rng.randint(1, 30) for _ in range(n)]
        p = list(range(n))
        shuffled = rng.random() < 0.6
        if shuffled:
            rng.shuffle(p)
        p = np.array(p)
        call = dict(kind='val', bins=bins, tg=tg, lat=list(lat), f=f, e=e, perm=p.tolist(), style=style)
        try:
            wn, sp, err, wid = FluxBinner(tc, tw).bindown(c[p], np.array(f, float)[p], grid_width=w[p], error=np.array(e, float)[p])
        except Exception as ex:
            sp, err = None, None
            call['exception'] = repr(ex)
        ci = len(calls)
        calls.append(call)
        stg = sorted(tg, key=lambda t: t[0] + t[1])
        for k, tb in enumerate(stg):
            ev = val_event(bins, tb, f, e, None if sp is None else float(sp[k]), None if err is None else float(err[k]))
            if ev is None:
                skipped += 1
                continue
            ev.update(id=len(events), call=ci, k=k, cls='flux:explicit:%s:%s' % ('shuffled' if shuffled else 'sorted', style))
            events.append(ev)
    return skipped


def val_event(bins, tb, f, e, g, ge):
    idx, ml, mr, gap = window_val(bins, tb)
    if len(idx) > 14 or not idx:
        return None
    off = tb[0]
    nat = [[bins[i][0] - off, bins[i][1] - off] for i in idx]
    ff = [f[i] for i in idx]
    ee = [e[i] for i in idx]
    tgt = [0, tb[1] - tb[0]]
    wts = [max(0, min(b[1], tgt[1]) - max(b[0], 0)) for b in nat]
    sw = sum(wts)
    if sw * 1000 * S_VAL >= LIM or sum(x * y for x, y in zip(wts, ff)) * S_VAL >= LIM:
        return None
    isnum = g is not None and finite(g)
    m = int(round(g * S_VAL)) if isnum and abs(g) < 1e5 else 0
    if isnum and abs(g) >= 1e5:
        m = LIM // (max(sw, 1) * 2)      # out of any hull: rejected by the bounds clause
    chkerr = False
    m2 = 0
    if sw > 0 and ge is not None and finite(ge):
        num = sum(x * x * y * y for x, y in zip(wts, ee))
        m2 = int(round(ge * ge * S_ERR)) if ge < 1e3 else LIM
        chkerr = (num * S_ERR < LIM) and (m2 * sw * sw < LIM) and (901 * S_ERR * sw * sw < LIM)
        if not chkerr:
            m2 = 0
    elif sw > 0 and ge is not None:
        chkerr, m2 = True, -1           # NaN error where a number is due
    return dict(kind='val', nat=nat, tgt=tgt, f=ff, e=ee, ml=bool(ml and not gap), mr=bool(mr and not gap),
                isnum=bool(isnum), m=m, S=S_VAL, tol=1, chkerr=bool(chkerr), m2=m2, S2=S_ERR, got=repr(g))


def union_bin4(cs, i, lend, rend):
    n = len(cs)
    L = cs[i - 1] if i > 0 else (2 * cs[0] - cs[1] if lend else cs[0])
    R = cs[i + 1] if i < n - 1 else (2 * cs[n - 1] - cs[n - 2] if rend else cs[n - 1])
    c = cs[i]
    return min(2 * (L + c), 4 * c - (R - L)), max(2 * (c + R), 4 * c + (R - L))


def rel_core(e):
    """Does the target overlap some native bin under both readings (mirror of CoreIdx, canary selection only)."""
    cs, n = e['cs'], len(e['cs'])
    for i in range(n):
        if (i == 0 and not e['lend']) or (i == n - 1 and not e['rend']):
            continue
        L = cs[i - 1] if i > 0 else 2 * cs[0] - cs[1]
        R = cs[i + 1] if i < n - 1 else 2 * cs[n - 1] - cs[n - 2]
        lo, hi = max(2 * (L + cs[i]), 4 * cs[i] - (R - L)), min(2 * (cs[i] + R), 4 * cs[i] + (R - L))
        if min(hi, 4 * e['tgt'][1]) - max(lo, 4 * e['tgt'][0]) > 0:
            return True
    return False


def rel_events(rng, ncalls, events, calls):
    FluxBinner = _binners()[0]
    skipped = 0
    for _ in range(ncalls):
        bins, style = make_native(rng, derived=True)
        cs = sorted(set(b[0] + b[1] for b in bins))        # centres on the half lattice, as integers
        tg = [(2 * a, 2 * b) for a, b in make_targets(rng, bins, nmax=25)]
        x0, u = lattice_for(rng, bins)
        u = u / 2
        n = len(cs)
        c = np.array([x0 + u * v for v in cs])
        tc, tw = to_real(tg, (x0, u))
        f = [rng.randint(0, 1000) for _ in range(n)]
        g = [rng.randint(0, 1000) for _ in range(n)]
        a, b = rng.randint(1, 3), rng.randint(1, 3)
        c0 = rng.randint(1, 900)
        p = list(range(n))
        rng.shuffle(p)
        p = np.array(p)
        fb = FluxBinner(tc, tw)
        fa, ga = np.array(f, float), np.array(g, float)
        ci = len(calls)
        call = dict(kind='rel', cs=cs, tg=tg, lat=[x0, u], f=f, g=g, a=a, b=b, c0=c0, perm=p.tolist(), style=style, ci=ci)
        calls.append(call)
        try:
            if n >= 3 and rng.random() < 0.6:
                # history: the same binner instance has served another native grid of the same length
                # (equal end points, different spacing) before.  Results must not depend on that.
                other = np.linspace(c.min(), c.max(), n)
                if not np.array_equal(other, np.sort(c)):
                    fb.bindown(other, np.zeros(n))
                    call['reused'] = True
            rc = fb.bindown(c, np.full(n, float(c0)))[1]
            rf = fb.bin_model((c, fa, None, None))[1]
            fresh = FluxBinner(tc, tw).bindown(c, fa)[1]
            call['history_ok'] = bool(np.array_equal(np.asarray(rf), np.asarray(fresh), equal_nan=True))
            call['history_detail'] = 'reused binner %r vs fresh binner %r' % (np.asarray(rf).tolist()[:6], np.asarray(fresh).tolist()[:6])
            rg = fb.bindown(c, ga)[1]
            rh = fb.bindown(c, a * fa + b * ga)[1]
            rp = fb.bindown(c[p], fa[p])[1]
            ro, rt = rel_routes(fb, c, fa, ga, ci)
        except Exception as ex:
            call['exception'] = repr(ex)
            rc = rf = rg = rh = rp = ro = rt = np.full(len(tg), np.nan)
        stg = sorted(tg, key=lambda t: t[0] + t[1])
        ordered = derived_ordered(cs)
        for k, tb in enumerate(stg):
            ev = rel_event(cs, tb, f, [float(x[k]) for x in (rc, rf, rg, rh, rp, ro, rt)], a, b, c0, ordered)
            if ev is None:
                skipped += 1
                continue
            ev.update(id=len(events), call=ci, k=k, cls='flux:derived:%s:out=%s' % (style, BR.SIZES[ci % 4]))
            events.append(ev)
    return skipped


def rel_routes(fb, c, fa, ga, ci):
    """the same values carried to the binner by the output writer: (binned_spectrum, the row of binned_tau that holds them); in an
    output without optical depths the 2-D route is taken through bindown"""
    tau = np.vstack([ga, fa])
    d = fb.generate_spectrum_output((c, fa, tau, None), **BR.size_arg(BR.SIZES[ci % 4]))
    ro = np.asarray(d['binned_spectrum'], dtype=float)
    rt = np.asarray(d['binned_tau'] if 'binned_tau' in d else fb.bindown(c, tau)[1], dtype=float)
    if ro.ndim != 1 or rt.ndim != 2 or rt.shape[0] != 2:
        raise ValueError('output route returned shapes %r / %r' % (ro.shape, rt.shape))
    return ro, rt[1]


def derived_ordered(cs):
    """are the native bins derived from the points (centre -/+ half the mid-point width) ordered: lower and upper edges ascending
    over the WHOLE grid (the quantifier's "ordered bins"; a jittered grid can fail this, and the binner's binary searches are
    only meaningful on ordered edges)"""
    n = len(cs)
    nl = [2 * cs[0] - cs[1]] + list(cs[:-1])
    nr = list(cs[1:]) + [2 * cs[-1] - cs[-2]]
    lo = [4 * cs[i] - (nr[i] - nl[i]) for i in range(n)]
    hi = [4 * cs[i] + (nr[i] - nl[i]) for i in range(n)]
    return all(lo[i] < lo[i + 1] and hi[i] < hi[i + 1] for i in range(n - 1))


def rel_event(cs, tb, f, res, a, b, c0, ordered=False):
    n = len(cs)
    t4 = (4 * tb[0], 4 * tb[1])
    hull = [i for i in range(n) if min(union_bin4(cs, i, True, True)[1], t4[1]) - max(union_bin4(cs, i, True, True)[0], t4[0]) > 0]
    if not hull:
        return None
    a0, z0 = max(0, hull[0] - 2), min(n - 1, hull[-1] + 2)
    lend, rend = a0 == 0, z0 == n - 1
    if z0 - a0 + 1 > 16 or z0 - a0 + 1 < 3:
        return None
    off = tb[0]
    isnum = all(finite(x) and abs(x) < 1e5 for x in res)
    ms = [int(round(x * S_VAL)) if isnum else 0 for x in res]
    # exact value of the derived-width routes: in 4x coordinates the overlap lengths sum to at most twice the target's length
    # (derived bins of neighbours may overlap); m * denominator and numerator * S must stay below 2^30 (SafeClose)
    chkx = ordered and isnum and 2 * 4 * (tb[1] - tb[0]) * 1000 * S_VAL < LIM
    return dict(kind='rel', cs=[cs[i] - off for i in range(a0, z0 + 1)], f=[f[i] for i in range(a0, z0 + 1)],
                tgt=[0, tb[1] - tb[0]], lend=lend, rend=rend, isnum=bool(isnum), chkx=bool(chkx),
                mc=ms[0], mf=ms[1], mg=ms[2], mh=ms[3], mp=ms[4], mo=ms[5], mt=ms[6], c=c0, a=a, b=b, S=S_VAL, tol=2, got=repr(res))


def hist_events(rng, ncalls, events, calls):
    SimpleBinner = _binners()[1]
    for _ in range(ncalls):
        nt = rng.randint(2, 10)
        tc = sorted(rng.sample(range(10, 400), nt))
        pts = rng.sample(range(0, 420), rng.randint(5, 60))
        e2 = set([3 * tc[0] - tc[1], 3 * tc[-1] - tc[-2]] + [tc[i] + tc[i + 1] for i in range(nt - 1)])
        pts = [x for x in pts if 2 * x not in e2]
        f = [rng.randint(0, 1000) for _ in pts]
        x0, u = float(rng.choice([8, 512])), rng.choice([0.25, 1.0, 2.0])
        twod = rng.random() < 0.5
        xs = np.array([x0 + u * x for x in pts])
        tcr = np.array([x0 + u * x for x in tc])
        fa = np.array(f, float)
        call = dict(kind='hist', tc=tc, xs=pts, f=f, lat=[x0, u], twod=twod)
        ci = len(calls)
        calls.append(call)
        try:
            with np.errstate(all='ignore'):
                if twod:
                    res = np.asarray(SimpleBinner(tcr).bindown(xs, np.vstack([fa, fa]))[1])[1]
                else:
                    res = np.asarray(SimpleBinner(tcr).bindown(xs, fa)[1])
        except Exception as ex:
            call['exception'] = repr(ex)
            res = np.full(nt, np.nan)
        for k in range(nt):
            g = float(res[k])
            isnum = finite(g) and abs(g) < 1e5
            events.append(dict(kind='hist', tc=tc, xs=pts, f=f, k=k + 1, isnum=bool(isnum), m=int(round(g * S_VAL)) if isnum else 0,
                               S=S_VAL, tol=1, id=len(events), call=ci, cls='simple:%s' % ('2d' if twod else '1d'), got=repr(g)))


def slim(e):
    return {k: v for k, v in e.items() if k not in ('got', 'call', 'cls') and not (k == 'k' and e['kind'] != 'hist')}


def validate(ctx, events, label):
    accepted, bad, res = validate_trace('Trace_Binning', 'Trace_Binning.cfg', [slim(e) for e in events])
    ctx.add_tlc(label, res, counts=False)
    if res.postcondition_false and not bad:
        raise Machinery('trace spec did not consume the whole trace:\n' + res.out[-1500:])
    if res.rc != 0 and not bad:
        raise Machinery('trace validation failed:\n' + res.out[-1500:])
    return {b['id']: b for b in bad}


def run_traces(ctx, nval, nrel, nhist):
    rng = random.Random(ctx.seed * 104729 + 5)
    events, calls = [], []
    sk1 = val_events(rng, nval, events, calls)
    sk2 = rel_events(rng, nrel, events, calls)
    hist_events(rng, nhist, events, calls)
    if len(events) < 50:
        raise Machinery('too few trace events')
    bad = {}
    CH = 6000
    for i in range(0, len(events), CH):
        bad.update(validate(ctx, events[i:i + CH], 'trace-%d' % (i // CH)))
    ctx.traces += len(calls)
    clause_of = dict(val='trace_overlap_weighted_mean', rel='trace_derived_width_clauses', hist='trace_histogram_mean')
    counts = {}
    for e in events:
        b = bad.get(e['id'])
        counts[e['kind']] = counts.get(e['kind'], 0) + 1
        ctx.verdict(clause_of[e['kind']], b is None, cls=e['cls'] + (':' + b['cls'] if b else ''),
                    detail='TLC rejected event: got %s' % e['got'],
                    vector=dict(trace=True, call=calls[e['call']], k=e.get('k'), event=slim(e)) if b else None)
    for c_ in calls:
        if c_.get('kind') == 'rel' and 'history_ok' in c_:
            ctx.verdict('binner_is_stateless', c_['history_ok'], cls='flux:derived:%s:%s' % (c_['style'], 'reused' if c_.get('reused') else 'fresh'),
                        detail=c_.get('history_detail', ''), vector=dict(trace=True, call=c_, k=None, event=None))
    ctx.add_sample(dict(trace_event=slim(events[0])))
    ctx.note('trace events %r from %d real calls; %d+%d target bins skipped (window larger than the 32-bit budget); '
             'derived-width routes (bin_model, shuffled bindown, output binned_spectrum / binned_tau) compared with the exact value in %d of the rel events'
             % (counts, len(calls), sk1, sk2, sum(1 for e in events if e['kind'] == 'rel' and e.get('chkx'))))
    # canary: corrupt one logged field of accepted events of each kind; TLC must reject exactly those
    can = []
    for kind, field in (('val', 'm'), ('rel', 'mp'), ('hist', 'm'), ('rel', 'mo'), ('rel', 'mt')):
        good = [e for e in events if e['kind'] == kind and e['id'] not in bad and e['isnum'] and e.get(field, 0) > 5
                and (field not in ('mo', 'mt') or e['chkx'])
                and (kind != 'val' or sum(max(0, min(b[1], e['tgt'][1]) - max(b[0], 0)) for b in e['nat']) > 0)]
        if kind == 'rel':
            good = [e for e in good if rel_core(e)]
        if not good:
            if any(e['kind'] == kind and e['id'] in bad for e in events):
                continue      # every candidate of this kind is already rejected: the run reports violations
            raise Machinery('no %s event available for the canary' % kind)
        c = dict(slim(good[len(good) // 2]))
        c[field] = c[field] + 7
        c['id'] = 900000 + len(can)
        can.append(c)
    if not can:
        return
    ok2, bad2, res2 = validate_trace('Trace_Binning', 'Trace_Binning.cfg', can)
    if ok2 or {b['id'] for b in bad2} != {c['id'] for c in can}:
        raise Machinery('canary accepted: trace validation is vacuous (%r)' % (bad2,))


# ----------------------------------------------------------------------------
# TLC runs of the presentation / call-history specs (started first, collected when needed)
# ----------------------------------------------------------------------------
PRES_SLIPS = ('widthlike', 'outlike')
ROUTE_SLIPS = ('otherunit', 'firstwidth', 'fluxfortau', 'unsortedwidth')
CALL_MUTANTS = (('sqinplace', 'RefuteSqInPlace'), ('sortargs', 'RefuteSortArgs'), ('sortctor', 'RefuteSortCtor'),
                ('outbuffer', 'RefuteOutBuffer'))


def start_background(ctx):
    q = ctx.tier == 'quick'
    pool = ThreadPoolExecutor(max_workers=2)
    jobs = {}

    def sub(label, module, cfg, **kw):
        jobs[label] = pool.submit(run_tlc, module, cfg, **kw)
    sub('presentation-export', 'MC_BinPres', 'EX_BinPres_%s.cfg' % ctx.tier, workers=1)
    sub('calls-pairs', 'MC_BinCalls', 'EX_BinCalls_pairs%s.cfg' % ('' if q else '_thorough'), workers=1)
    sub('routes-export', 'MC_BinRoutes', 'EX_BinRoutes_%s.cfg' % ctx.tier, workers=1)
    # expected counterexamples of the route dimension: the class of the slip behind the dimension in both tiers, the others in the
    # thorough tier (the quick tier takes them from the export run: TLC lists, per vector, the routes on which each slip shows)
    for v in (ROUTE_SLIPS[:1] if q else ROUTE_SLIPS):
        sub('refute-routes-' + v, 'MC_BinRoutes', 'MC_BinRoutes_ref_%s.cfg' % v, workers=1, allow_violation=True)
    if not q:
        # explicit expected counterexamples (the quick tier takes them from the export runs: TLC lists, per exported input /
        # sequence, the slips and design mutants it exposes, and the driver insists that each is exposed)
        for v in PRES_SLIPS:
            sub('refute-presentation-' + v, 'MC_BinPres', 'MC_BinPres_ref_%s.cfg' % v, workers=1, allow_violation=True)
        for m, _ in CALL_MUTANTS:
            sub('refute-calls-' + m, 'MC_BinCalls', 'MC_BinCalls_ref_%s.cfg' % m, workers=1, allow_violation=True)
        sub('calls-table', 'MC_BinCalls', 'EX_BinCalls_table.cfg', workers=1)      # operation tables of the walks' alphabet (3 grids)
        sub('calls-walks', 'MC_BinCalls', 'SIM_BinCalls.cfg', workers=1, simulate='num=600', depth=8, seed=ctx.seed + 5)
    pool.shutdown(wait=False)
    return jobs


def collect(ctx, bg, label, counts=True, refuted=None):
    res = bg[label].result()
    ctx.add_tlc(label, res, counts=counts and refuted is None)
    if refuted is not None:
        if res.violated != refuted:
            raise Machinery('expected TLC to refute %s in %s, got %r' % (refuted, label, res.violated))
    elif res.violated:
        raise Machinery('spec run %s violates %s\n%s' % (label, res.violated, res.error_trace))
    elif res.distinct == 0 and counts:
        raise Machinery('TLC reported 0 states for %s' % label)
    return res


def collect_presentation(ctx, bg):
    res = collect(ctx, bg, 'presentation-export')
    vecs = dedupe(res.tagged('PVEC'))
    if not vecs:
        raise Machinery('no presentation vectors exported')
    if ctx.tier != 'quick':
        for v in PRES_SLIPS:
            collect(ctx, bg, 'refute-presentation-' + v, refuted='PresRefinesDef')
    return vecs


def run_call_histories(ctx, bg):
    q = ctx.tier == 'quick'
    pairs = collect(ctx, bg, 'calls-pairs')
    walks = None
    if not q:
        for m, inv in CALL_MUTANTS:
            collect(ctx, bg, 'refute-calls-' + m, refuted=inv)
        walks = collect(ctx, bg, 'calls-walks', counts=False)
        if len(walks.tagged('CWALK')) < 300:
            raise Machinery('TLC produced only %d call sequences' % len(walks.tagged('CWALK')))
    alph, ws = BC.load(pairs, walks, ctx.seed, tables=None if q else collect(ctx, bg, 'calls-table', counts=False))
    exposing = BC.run_walks(ctx, alph, ws)
    BC.canary(ctx, alph, ws, exposing)
    ctx.note('call histories: %d sequences (%d exhaustive pairs) on %d kinds x stored orders; design mutants exposed by TLC: %s'
             % (len(ws), sum(1 for w in ws if w['src'] == 'pairs'), len(alph),
                ', '.join('%s/%s:%d' % (k[0], k[1], len(v)) for k, v in sorted(exposing.items()))))


def run_routes(ctx, bg):
    res = collect(ctx, bg, 'routes-export')
    vecs = dedupe(res.tagged('RVEC'))
    if not vecs:
        raise Machinery('no route vectors exported')
    for v in (ROUTE_SLIPS[:1] if ctx.tier == 'quick' else ROUTE_SLIPS):
        collect(ctx, bg, 'refute-routes-' + v, refuted='RouteRefinesDef')
    BR.canary(ctx, BR.run_vectors(ctx, vecs))


_CALLS_ALPH = {}


def replay_calls(ctx, vec):
    def alph_for(kind, ord_, lat):
        if 'rows' not in _CALLS_ALPH:
            res = run_tlc('MC_BinCalls', 'EX_BinCalls_table.cfg', workers=1)      # the operation tables only (no sequences)
            _CALLS_ALPH['rows'] = res.tagged('COPS')
        for r in _CALLS_ALPH['rows']:
            if r['kind'] == kind and r['ord'] == ord_:
                return BC.Alphabet(r, lat)
        raise Machinery('no operation table for %s/%s' % (kind, ord_))
    BC.replay_vector(ctx, vec, alph_for)


def dedupe(vecs):
    seen, out = set(), []
    for v in vecs:
        k = repr(v)
        if k not in seen:
            seen.add(k)
            out.append(v)
    return out


def run(ctx):
    q = ctx.tier == 'quick'
    t = ctx.tier
    ctx.bounds = dict(
        tier=t,
        exhaustive=('geo: <=3 native bins on 0..5, one target on -1..6, all native orders; val: same with values {0,1,3}; '
                    'multi: 2 targets, all three binners' if q else
                    'geo: <=4 native bins on 0..8, one target on -2..10; val: <=4 bins on 0..6, values {0,1,3}; multi: 2-3 targets'),
        vectors='all native permutations (<=6; 24 sampled to %d) x 3 dyadic lattices, 1-D+errors, 2-D, derived widths / bin_model on uniform grids' % (6 if q else 24),
        traces='linear / log / constant-R / jittered grids of 20-400 points, 2-40 target bins, windows <= 14 native bins',
        presentation=('2 native bins / 1-2 target bins on a lattice with 4 points per storage unit' if q else '2-3 native bins / 1-2 target bins, 4 lattice points per storage unit') +
                     '; every legal storage type (int / float) of centres, widths, spectrum, noise and every legal form of the widths (array / scalar / omitted)',
        call_histories=('every pair of calls sharing a native grid or the long-lived binner' if q else 'every pair of calls on 3 grids + 600 random sequences of 5 calls') +
                       '; flux / histogram / identity binner; caller arrays stored ascending / descending / mixed; arrays themselves or re-arranged copies; '
                       'long-lived or newly built binner; widths explicit / derived; noise; 1-D / 2-D',
        routes=('2-3 native points on 0..4 (uniform and non-uniform spacing), 1 target bin on -1..6 or 2 target bins (both orders), one generic model output'
                if q else '2-4 native points on 0..5, 1-2 target bins, constant and generic model output') +
               '; every public route (bindown without widths / with the recipe\'s widths / 2-D, bin_model, output binned_spectrum + binned_tau in the '
               'sizes lighter / light / heavy / default, taurex.util.bindown 1-D / 2-D, NativeBinner output), binner built positionally / by keyword / '
               'by an observation\'s create_binner, points handed over ascending / descending / mixed; 4 dyadic lattices')
    ctx.assumptions = [
        'numpy float64 arithmetic on dyadic lattice coordinates is exact for centres, widths and overlaps',
        'target bins have distinct centres and positive width; native bins ordered and non-overlapping (property quantifier)',
        'zero-length contact between a target bin and the native grid: 0 or NaN accepted (statement undecided)',
        'derived widths on non-uniform grids: only constant / bounds / linear / order clauses (two readings of the native bin)',
        'TLC + CommunityModules Json/IOUtils; harness window selection is re-checked by TLC (WindowComplete)',
        'a call does not write to the arrays it is handed and later calls see the values the caller supplied (the statement says what binning RETURNS for them)',
        'integer storage of a grid / spectrum is a presentation of the same numbers; float32 is not exercised',
        'routes that are not handed native widths: the native bin of a point is derived from the mid-points to its neighbours (end edges mirrored); '
        'both readings of the derived bin (centre -/+ half the mid-point width; mid-point to mid-point) are accepted, consistently over one call; '
        'the derived bins must be ordered (lower and upper edges ascending), as they are on constant-R, linear and logarithmic grids',
        'an output of size lighter holds no optical depths: nothing is judged for binned_tau when the key is absent']
    bg = start_background(ctx)       # TLC runs of the presentation / call-history specs, concurrent with the ones below
    for c in ('geo', 'val', 'multi'):
        ctx.check_spec('exhaustive-' + c, 'MC_Binning', 'MC_Binning_%s_%s.cfg' % (c, t))
    ctx.exhaustive = True
    for v in (('nowperm', 'nonorm') if q else ('nowperm', 'nonorm', 'minfull', 'stopexcl')):
        ctx.expect_refuted('refute-' + v, 'MC_Binning', 'MC_Binning_ref_%s.cfg' % v, 'AlgRefinesDef')
    if not q:
        ctx.check_spec('lemma-side-left-equivalent', 'MC_Binning', 'MC_Binning_lemma_left.cfg')
    rng = random.Random(ctx.seed * 31 + 5)
    sfx = '' if q else '_thorough'
    res = ctx.check_spec('export-flux3', 'MC_Binning', 'EX_Binning_flux3%s.cfg' % sfx, workers=1)
    v3 = dedupe(res.tagged('VEC'))
    res = ctx.check_spec('export-flux4', 'MC_Binning', 'EX_Binning_flux4%s.cfg' % sfx, workers=1)
    v4 = dedupe(res.tagged('VEC'))
    res = ctx.check_spec('export-multi', 'MC_Binning', 'EX_Binning_multi%s.cfg' % sfx, workers=1,
                         need_actions=('EvalFlux', 'EvalSimple', 'EvalNative'))
    vm = dedupe(res.tagged('VEC'))
    if not v3 or not v4 or not vm:
        raise Machinery('no vectors exported')
    if not q and len(v3) > 40000:
        rng.shuffle(v3)
        v3 = v3[:40000]
    run_flux_vectors(ctx, v3, rng, 6)
    run_flux_vectors(ctx, v4, rng, 6 if q else 24)
    run_multi_vectors(ctx, vm, rng)
    ctx.add_sample(dict(vector=v4[len(v4) // 2]))
    ctx.note('vectors: %d flux (<=3 bins), %d flux (4 bins), %d multi-target/simple/native' % (len(v3), len(v4), len(vm)))
    run_presentation(ctx, collect_presentation(ctx, bg), rng)
    run_call_histories(ctx, bg)
    run_routes(ctx, bg)
    if q:
        run_traces(ctx, 60, 40, 60)
    else:
        run_traces(ctx, 600, 400, 600)


def replay(ctx, violations):
    for v in violations:
        vec = v['vector']
        if not vec:
            continue
        if vec.get('trace'):
            replay_trace(ctx, vec)
        else:
            one_vector(ctx, vec)


def replay_trace(ctx, vec):
    call, k = vec['call'], vec['k']
    FluxBinner, SimpleBinner, _ = _binners()
    lat = tuple(call['lat'])
    if call['kind'] == 'val':
        bins = [tuple(b) for b in call['bins']]
        tg = [tuple(b) for b in call['tg']]
        c, w = to_real(bins, lat)
        tc, tw = to_real(tg, lat)
        p = np.array(call['perm'])
        wn, sp, err, wid = FluxBinner(tc, tw).bindown(c[p], np.array(call['f'], float)[p], grid_width=w[p],
                                                      error=np.array(call['e'], float)[p])
        tb = sorted(tg, key=lambda t: t[0] + t[1])[k]
        ev = val_event(bins, tb, call['f'], call['e'], float(sp[k]), float(err[k]))
        clause = 'trace_overlap_weighted_mean'
    elif call['kind'] == 'rel':
        cs, tg = call['cs'], [tuple(b) for b in call['tg']]
        x0, u = lat
        c = np.array([x0 + u * x for x in cs])
        tc, tw = to_real(tg, lat)
        fa, ga = np.array(call['f'], float), np.array(call['g'], float)
        p = np.array(call['perm'])
        fb = FluxBinner(tc, tw)
        r = [fb.bindown(c, np.full(len(cs), float(call['c0'])))[1], fb.bin_model((c, fa, None, None))[1], fb.bindown(c, ga)[1],
             fb.bindown(c, call['a'] * fa + call['b'] * ga)[1], fb.bindown(c[p], fa[p])[1]] + list(rel_routes(fb, c, fa, ga, call.get('ci', 0)))
        tb = sorted(tg, key=lambda t: t[0] + t[1])[k]
        ev = rel_event(cs, tb, call['f'], [float(x[k]) for x in r], call['a'], call['b'], call['c0'], derived_ordered(cs))
        clause = 'trace_derived_width_clauses'
    else:
        ev = dict(vec['event'])
        x0, u = lat
        xs = np.array([x0 + u * x for x in call['xs']])
        tcr = np.array([x0 + u * x for x in call['tc']])
        fa = np.array(call['f'], float)
        with np.errstate(all='ignore'):
            res = np.asarray(SimpleBinner(tcr).bindown(xs, np.vstack([fa, fa]) if call['twod'] else fa)[1])
        g = float(res[1][ev['k'] - 1] if call['twod'] else res[ev['k'] - 1])
        ev.update(isnum=bool(finite(g)), m=int(round(g * S_VAL)) if finite(g) else 0, got=repr(g))
        clause = 'trace_histogram_mean'
    ev['id'] = 0
    got = ev.get('got')
    ok, bad, _ = validate_trace('Trace_Binning', 'Trace_Binning.cfg', [slim(ev)])
    ctx.verdict(clause, not bad, cls='replay:' + call['kind'] + (':' + bad[0]['cls'] if bad else ''), detail='got %s' % got, vector=vec)
