"""C12 -- temperature profiles are finite, positive and bounded by their control values.

Spec: spec/Profiles.tla + spec/Temperature.tla (operators), spec/MC_Temperature.tla (exhaustive + export),
      spec/Trace_Temperature.tla.
Binding A: TLC-exported exact NPoint / array / Rodgers / isothermal vectors on integer log-pressure grids
           through the real profile classes (values, rejections).
Binding B: every profile class for every layer count 2..120 with random grids, nodes and smoothing windows
           (clauses validated by TLC), exact NPoint re-evaluation by TLC on logspace grids, Guillot: outcome
           classification + closed form against an independent evaluation (E2 by plain-Python quadrature);
           canaries.
Binding C: spec/Functional.tla walks on long-lived bare profile objects (harness/history.py, fx_profiles.py);
           spec/ProfileOwner.tla walks on forward models that OWN planet and grid of a shared profile object
           (harness/fx_c12owner.py): the models' fitting parameters, rebuilds, evaluations; every exposed profile
           against a freshly built model and the closed form / control range for the model's CURRENT settings,
           validated by Trace_ProfileOwner.tla.
"""
import math
import random
from fractions import Fraction

import numpy as np

from ..core import Machinery, frac, close, validate_trace

TS = 250.0        # Kelvin per temperature unit of the exhaustive configs
ST = 100          # scale of logged temperatures (range events)
SQ = 1024         # quantisation of the assembled Guillot relation
RTOL = 1e-9       # float evaluation of chains of <= ~100 additions (cumulative-sum moving average), DESIGN 2.4

JVM = {'JAVA_TOOL_OPTIONS': '-Xss64m'}     # deep (not wide) operator nesting on 100-layer profiles


def quiet():
    import logging
    from taurex.log.logger import root_logger
    root_logger.setLevel(logging.CRITICAL + 1)


# ----------------------------------------------------------------------------
# independent evaluation of Guillot's closed form
# ----------------------------------------------------------------------------

def _gauss_legendre(n):
    xs, ws = [], []
    for i in range(1, n + 1):
        x = math.cos(math.pi * (i - 0.25) / (n + 0.5))
        for _ in range(100):
            p0, p1 = 1.0, x
            for k in range(2, n + 1):
                p0, p1 = p1, ((2 * k - 1) * x * p1 - (k - 1) * p0) / k
            dp = n * (x * p1 - p0) / (x * x - 1.0)
            dx = p1 / dp
            x -= dx
            if abs(dx) < 1e-16:
                break
        xs.append(x)
        ws.append(2.0 / ((1.0 - x * x) * dp * dp))
    return xs, ws


_GL = _gauss_legendre(20)


def expint2(x):
    """E2(x) = int_1^inf exp(-x t)/t^2 dt = int_0^1 exp(-x/u) du, Gauss-Legendre on dyadic panels."""
    if x < 0 or x != x:
        return float('nan')
    if x == 0.0:
        return 1.0
    if x > 745.0:
        return 0.0
    lo = min(1.0, x / 60.0)          # exp(-x/u) < 1e-26 below
    total = 0.0
    a = lo
    xs, ws = _GL
    while a < 1.0:
        b = min(1.0, 2.0 * a)
        h, m = 0.5 * (b - a), 0.5 * (b + a)
        s = 0.0
        for xi, wi in zip(xs, ws):
            s += wi * math.exp(-x / (m + h * xi))
        total += h * s
        a = b
    return total


def _expint2_series(x):
    """E2 = exp(-x) - x E1(x), E1 by its power series (0 < x <= 2): cross-check of the quadrature."""
    g = 0.57721566490153286
    s, term = 0.0, 1.0
    for k in range(1, 80):
        term *= -x / k
        s -= term / k
    e1 = -g - math.log(x) + s
    return math.exp(-x) - x * e1


def selfcheck_e2():
    for x in (1e-9, 1e-4, 0.03, 0.5, 1.0, 2.0):
        a, b = expint2(x), _expint2_series(x)
        if abs(a - b) > 2e-13:
            raise Machinery('E2 quadrature disagrees with the series at %r: %r vs %r' % (x, a, b))
    if abs(expint2(1.0) - 0.14849550677592205) > 1e-13:
        raise Machinery('E2(1) wrong')


def eta_indep(g, tau):
    x = g * tau
    bracket = -math.expm1(-x) + 0.5 * x * math.exp(-x)       # 1 + (x/2 - 1) exp(-x), stable form
    return 2.0 / 3.0 + 2.0 / (3.0 * g) * bracket + 2.0 * g / 3.0 * (1.0 - tau * tau / 2.0) * expint2(x)


def guillot_indep(p, P, grav):
    """-> (T4 list, parts) from the published closed form; p physical (positive opacities)."""
    g1, g2 = p['kv1'] / p['kir'], p['kv2'] / p['kir']
    out, parts = [], []
    for Pl in P:
        tau = p['kir'] * float(Pl) / grav
        e1, e2 = eta_indep(g1, tau), eta_indep(g2, tau)
        a = 0.75 * p['tint'] ** 4 * (2.0 / 3.0 + tau)
        w = 0.75 * p['tirr'] ** 4
        out.append(a + w * ((1.0 - p['alpha']) * e1 + p['alpha'] * e2))
        parts.append((a, w, e1, e2))
    return out, parts


# ----------------------------------------------------------------------------
# real objects
# ----------------------------------------------------------------------------

def classes():
    from taurex.data.profiles.temperature.isothermal import Isothermal
    from taurex.data.profiles.temperature.npoint import NPoint
    from taurex.data.profiles.temperature.temparray import TemperatureArray
    from taurex.data.profiles.temperature.rodgers import Rodgers2000
    from taurex.data.profiles.temperature.guillot import Guillot2010
    from taurex.data.profiles.temperature.file import TemperatureFile
    return dict(iso=Isothermal, npoint=NPoint, array=TemperatureArray, rodgers=Rodgers2000, guillot=Guillot2010,
                file=TemperatureFile)


_PLANET = None


def planet():
    global _PLANET
    if _PLANET is None:
        from taurex.data.planet import Planet
        _PLANET = Planet()
    return _PLANET


ROUTES = ('ctor', 'fit', 'fit-after-use')


def npoint_by_fit(kwargs, n, P, used):
    """The same node set reaching NPoint through the OTHER public route: the object is built around valid
    placeholder nodes (evenly spaced in log P between the end nodes the profile will use) and every intermediate node
    is then written through its fitting parameter P_pointN / T_pointN (what a retrieval, or `model['P_point1'] = x`,
    does).  used: the profile is read once on the placeholders first (a sampler moves a node of a live object)."""
    C = classes()['npoint']
    tp, pp = list(kwargs['temperature_points']), list(kwargs['pressure_points'])
    k = len(pp)
    a = math.log10(kwargs['P_surface']) if kwargs.get('P_surface') else math.log10(float(P[0]))
    b = math.log10(kwargs['P_top']) if kwargs.get('P_top') else math.log10(float(P[-1]))
    if not a > b:
        a, b = math.log10(float(P[0])), math.log10(float(P[-1]))
    kw = dict(kwargs, temperature_points=[float(kwargs['T_surface'])] * k,
              pressure_points=[10.0 ** (a + (b - a) * (i + 1) / (k + 1)) for i in range(k)])
    obj = C(**kw)
    if used:
        try:
            obj.initialize_profile(planet(), n, np.asarray(P, dtype=float))
            obj.profile
        except Exception:
            pass
    params = obj.fitting_parameters()
    for i in range(k):
        params['T_point%d' % (i + 1)][3](tp[i])
        params['P_point%d' % (i + 1)][3](pp[i])
    return obj


def evaluate(kind, kwargs, n, P, route='ctor'):
    """-> (outcome, profile or None, detail); outcome in ok | invalid | error"""
    from taurex.exceptions import InvalidModelException
    try:
        if kind == 'npoint' and route != 'ctor' and len(kwargs.get('pressure_points', ())) > 0:
            obj = npoint_by_fit(kwargs, n, P, route == 'fit-after-use')
        else:
            obj = classes()[kind](**kwargs)
        obj.initialize_profile(planet(), n, np.asarray(P, dtype=float))
        prof = np.array(obj.profile, dtype=float)
        return 'ok', prof, ''
    except InvalidModelException as e:
        return 'invalid', None, 'InvalidModelException %s' % (str(e)[:60],)
    except Exception as e:
        return 'error', None, '%s: %s' % (type(e).__name__, str(e)[:90])


# ----------------------------------------------------------------------------
# binding A
# ----------------------------------------------------------------------------

def vector_call(v, route='ctor'):
    kind, n = v['kind'], v['n']
    if kind == 'rodgers':
        P = [2.0 ** (20 - k) for k in v['K']]
        return evaluate(kind, dict(temperature_layers=[TS * a for a in v['arr']], correlation_length=1.0 / v['hinv']), n, P)
    P = [10.0 ** k for k in v['lp']]
    if kind == 'iso':
        return evaluate(kind, dict(T=TS * v['arr'][0]), n, P)
    if kind == 'array':
        kw = dict(tp_array=[TS * a for a in v['arr']])
        if v['pmode'] == 'pp':
            kw['p_points'] = [10.0 ** k for k in v['pp']]
        return evaluate(kind, kw, n, P)
    tn, pn = v['tn'], v['pn']
    sg = v.get('sg') or [1] * len(pn)
    nodes = [float(s_) * 10.0 ** k for s_, k in zip(sg, pn)]       # zero and negative node pressures included
    kw = dict(T_surface=TS * tn[0], T_top=TS * tn[-1], temperature_points=[TS * t for t in tn[1:-1]],
              pressure_points=nodes[1:-1], smoothing_window=v['sw'], limit_slope=TS * v['lim'])
    if pn[0] != v['lp'][0]:
        kw['P_surface'] = nodes[0]
    if pn[-1] != v['lp'][-1]:
        kw['P_top'] = nodes[-1]
    return evaluate(kind, kw, n, P, route=route)


def node_signs(sg):
    """class name of the signs of the intermediate node pressures"""
    mid = sg[1:-1]
    if all(s_ == 1 for s_ in mid):
        return 'pos'
    return '+'.join(sorted({'neg' if s_ < 0 else 'zero' for s_ in mid if s_ != 1}))


def run_vector(ctx, v, stats, route=None):
    kind, n = v['kind'], v['n']
    if kind == 'npoint' and len(v['tn']) > 2:
        if route is None:
            # positive node sets: one route per vector, all three over the export; a node set with a zero or
            # negative node is replayed through every route by the caller
            route = ROUTES[(sum(v['tn']) + sum(v['pn']) + n + v['sw']) % len(ROUTES)]
    else:
        route = 'ctor'
    outcome, prof, detail = vector_call(v, route)
    if kind == 'npoint':
        sgn = node_signs(v.get('sg') or [1] * len(v['pn']))
        cls = 'npoint:k%d:sw%d:%s:%s%s' % (len(v['tn']) - 2, v['sw'], v['st'], route, '' if sgn == 'pos' else ':nodes-' + sgn)
    elif kind == 'array':
        cls = 'array:%s' % v['pmode']
    else:
        cls = kind
    vec = dict(v, kind_='vector', route=route)
    ok = lambda clause, cond, d='': ctx.verdict(clause, bool(cond), cls=cls, detail=d or detail, vector=vec)
    tie = False
    if kind == 'npoint':
        if v['strict']:
            if outcome == 'ok' and prof is not None:
                pr = np.asarray(prof, dtype=float).ravel()
                detail = 'returned a profile with %d of %d layers not finite, first layers %r' % (int((~np.isfinite(pr)).sum()), pr.size, pr[:4].tolist())
            ok('nonphysical_rejected', outcome == 'invalid',
               'nodes T %r log10|P| %r sign(P) %r limit %r (route %s) must be rejected, implementation: %s %s'
               % (v['tn'], v['pn'], v.get('sg'), v['lim'], route, outcome, detail))
            return
        tie = v['st'] == 'invalid'       # equal nodes / slope exactly at the limit: either outcome is accepted
        if not tie:
            ok('physical_not_rejected', outcome != 'invalid',
               'nodes T %r logP %r limit %r are valid, implementation: %s %s' % (v['tn'], v['pn'], v['lim'], outcome, detail))
        if outcome == 'invalid':
            return
    if not ok('one_value_per_layer', outcome == 'ok' and prof is not None and prof.shape == (n,),
              'n=%d sw=%s: %s %s' % (n, v['sw'], outcome, detail)):
        return
    ok('finite_positive', np.all(np.isfinite(prof)) and np.all(prof > 0), 'profile %r' % prof)
    lo, hi = TS * v['lo'], TS * v['hi']
    ok('within_control_range', np.all(prof >= lo * (1 - RTOL)) and np.all(prof <= hi * (1 + RTOL)),
       'controls [%r, %r] profile %r' % (lo, hi, prof))
    if v['lo'] == v['hi']:
        ok('constant_when_controls_equal', np.all(np.abs(prof - lo) <= RTOL * lo), 'profile %r' % prof)
    if tie:
        return
    exp = np.array([TS * float(frac(c)) for c in v['prof']])
    same = np.all(np.abs(prof - exp) <= RTOL * np.abs(exp))
    if kind == 'array' and v['pmode'] == 'none' and not same:
        # the statement does not fix the orientation of an array that is resampled: accept the mirror image
        rev = np.all(np.abs(prof - exp[::-1]) <= RTOL * np.abs(exp))
        stats['array_mirrored'] = stats.get('array_mirrored', 0) + int(bool(rev))
        same = rev
    ok('exact_value', same, 'n=%d got %r exact %r' % (n, prof, exp))


# ----------------------------------------------------------------------------
# binding A: file-based profile over its documented options (spec/MC_TempFile.tla)
# ----------------------------------------------------------------------------

# the harness's unit map: decades per pressure unit / Kelvin per temperature unit -> astropy unit names
PUNITS = {0: ['Pa'], 2: ['mbar', 'hPa'], 3: ['kPa'], 5: ['bar'], 6: ['MPa']}
TUNITS = {1: ['K'], 1000: ['kK']}
DELIMS = {'ws': (' ', None), 'comma': (',', ','), 'semicolon': (';', ';')}


def write_table(path, v):
    """the exported table as text: temperature cells T/tu (TS Kelvin per unit), pressure cells 10^k, filler elsewhere"""
    f = v['fmt']
    pcol, tcol, ncols = v['layout']
    sep = DELIMS[f['delim']][0]
    lines = [sep.join(['col%d' % c for c in range(ncols)]) for _ in range(f['skip'])]
    for row in v['table']:
        cells = []
        for c, cell in enumerate(row):
            q = frac(cell)
            if c == tcol:
                cells.append(repr(float(q * Fraction(TS))))
            elif c == pcol and v['pmode'] == 'pp':
                if q.denominator != 1:
                    raise Machinery('pressure cell is not an integer decade: %r' % (cell,))
                cells.append('1e%d' % int(q))
            else:
                cells.append(repr(float(q)))
        lines.append(sep.join(cells))
    with open(path, 'w') as fh:
        fh.write('\n'.join(lines) + '\n')


def run_file_vector(ctx, v, tmpdir, idx=0):
    import os
    f, n = v['fmt'], v['n']
    pcol, tcol, ncols = v['layout']
    path = os.path.join(tmpdir, 'tp_%d.dat' % idx)
    write_table(path, v)
    h = sum(v['arr']) + n + idx
    pun = PUNITS[f['pu']][h % len(PUNITS[f['pu']])]
    tun = TUNITS[f['tu']][h % len(TUNITS[f['tu']])]
    kw = dict(filename=path, temp_col=tcol)
    if f['skip']:
        kw['skiprows'] = f['skip']
    if tun != 'K' or h % 2:
        kw['temp_units'] = tun
    if v['pmode'] == 'pp':
        kw['press_col'] = pcol
        if pun != 'Pa' or h % 2:
            kw['press_units'] = pun
    if DELIMS[f['delim']][1] is not None:
        kw['delimiter'] = DELIMS[f['delim']][1]
    if f['order'] == 'toa':
        kw['reverse'] = True
    P = [10.0 ** k for k in v['lp']]
    outcome, prof, detail = evaluate('file', kw, n, P)
    cls = 'file:%s:p=%s:t=%s:%s:%s:cols%d%d/%d' % (v['pmode'], pun if v['pmode'] == 'pp' else '-', tun, f['delim'], f['order'], pcol, tcol, ncols)
    vec = dict(v, kind_='filevector', idx=idx)
    ok = lambda clause, cond, d='': ctx.verdict(clause, bool(cond), cls=cls, detail=d or detail, vector=vec)
    if not ok('one_value_per_layer', outcome == 'ok' and prof is not None and prof.shape == (n,),
              'n=%d options %r: %s %s' % (n, {k: w for k, w in kw.items() if k != 'filename'}, outcome, detail)):
        return
    ok('finite_positive', np.all(np.isfinite(prof)) and np.all(prof > 0), 'profile %r' % prof)
    lo, hi = TS * v['lo'], TS * v['hi']
    ok('within_control_range', np.all(prof >= lo * (1 - RTOL)) and np.all(prof <= hi * (1 + RTOL)),
       'file temperatures span [%r, %r] K, profile %r (options %r)' % (lo, hi, prof, {k: w for k, w in kw.items() if k != 'filename'}))
    if v['lo'] == v['hi']:
        ok('constant_when_controls_equal', np.all(np.abs(prof - lo) <= RTOL * lo), 'profile %r' % prof)
    exp = np.array([TS * float(frac(c)) for c in v['prof']])
    dev = np.abs(prof - exp) <= RTOL * np.abs(exp)
    if v['pmode'] == 'pp':
        if f['order'] == 'toa':
            # which end value is held beyond the file's pressure range is not fixed by the statement for a
            # top-first file: compare where the file covers the layer
            inside = np.array([v['pp'][-1] <= k <= v['pp'][0] for k in v['lp']])
            dev = dev | ~inside
        same = np.all(dev)
    else:
        # orientation of a table without pressures is not in the statement: accept the mirror image
        same = np.all(dev) or np.all(np.abs(prof - exp[::-1]) <= RTOL * np.abs(exp[::-1]))
    ok('exact_value', same, 'n=%d got %r exact %r (options %r)' % (n, prof, exp, {k: w for k, w in kw.items() if k != 'filename'}))


def run_file_vectors(ctx, vecs):
    import tempfile, shutil
    tmp = tempfile.mkdtemp(prefix='c12files_')
    try:
        for i, v in enumerate(vecs):
            run_file_vector(ctx, v, tmp, i)
    finally:
        shutil.rmtree(tmp, ignore_errors=True)


# ----------------------------------------------------------------------------
# history independence of long-lived profile objects (spec/Functional.tla, harness/history.py)
# ----------------------------------------------------------------------------

GRIDS = [(9, 6, -2), (9, 5, -1), (12, 6, -2)]          # same layer count / other pressure range / other layer count
GRIDS_SAME_N = [(6, 6, -2), (6, 5, 0), (6, 4, -4)]     # Rodgers: one control temperature per layer


def history_scenarios(tmpdir):
    """Every built-in temperature class as ONE long-lived object whose controls are written through their
    fitting parameters (and public property setters) and which is re-initialised on other grids; values
    include validity-changing node moves (inverted pressure node, excessive slope, zero opacity, negative
    temperature): the digest of such a state is the exception type."""
    import os
    from ..fx_profiles import ProfileScenario, pgrid
    C = classes()

    def init(obj, g):
        n, P, _ = pgrid(g)
        obj.initialize_profile(planet(), n, P)

    def read(obj):
        return np.asarray(obj.profile, dtype=float)

    def S(name, make, controls, grid=GRIDS[0]):
        return ProfileScenario(name, make, controls, init, read, default_grid=grid)

    out = []
    tv = [800.0, 1500.0, 2100.5]
    out.append(S('iso:fit', lambda kw: C['iso'](**kw), [('fit', 'T', 'T', tv), ('grid', 'grid', None, GRIDS)]))
    out.append(S('iso:prop', lambda kw: C['iso'](**kw), [('prop', 'isoTemperature', 'T', tv), ('grid', 'grid', None, GRIDS)]))

    # ---- NPoint: one interior node, slope limit 1000 K/decade
    def np1(kw):
        return C['npoint'](T_surface=kw.get('T_surface', 1500.0), T_top=kw.get('T_top', 500.0),
                           temperature_points=[kw.get('T1', 1200.0)], pressure_points=[kw.get('P1', 1e3)],
                           P_surface=kw.get('P_surface'), P_top=kw.get('P_top'), limit_slope=1000.0, smoothing_window=kw.get('sw', 10))
    t1 = [1200.0, 700.0, 9000.0]                  # the last one is too steep
    p1 = [1e3, 1e1, 1e7]                          # the last one lies above the surface (inverted)
    out.append(S('npoint1:nodes', np1, [('fit', 'T_point1', 'T1', t1), ('fit', 'P_point1', 'P1', p1), ('grid', 'grid', None, GRIDS)]))
    out.append(S('npoint1:ends:fit', np1, [('fit', 'T_surface', 'T_surface', [1500.0, 1000.0, 8000.0]),
                                           ('fit', 'T_top', 'T_top', [500.0, 1100.0, 1200.0]),
                                           ('fit', 'P_point1', 'P1', [1e3, 1e-1, 1e-3])]))
    out.append(S('npoint1:ends:prop', np1, [('prop', 'temperatureSurface', 'T_surface', [1500.0, 1000.0, 8000.0]),
                                            ('prop', 'temperatureTop', 'T_top', [500.0, 1100.0, 1200.0]),
                                            ('grid', 'grid', None, GRIDS)]))
    out.append(S('npoint1:pends:fit', np1, [('fit', 'P_surface', 'P_surface', [1e6, 1e5, 1e2]),
                                            ('fit', 'P_top', 'P_top', [1e-2, 1e0, 1e4]),
                                            ('fit', 'T_point1', 'T1', t1)]))
    out.append(S('npoint1:pends:prop', np1, [('prop', 'pressureSurface', 'P_surface', [1e6, 1e5, 1e2]),
                                             ('prop', 'pressureTop', 'P_top', [1e-2, 1e0, 1e4]),
                                             ('grid', 'grid', None, GRIDS)]))

    # ---- NPoint: three interior nodes, every intermediate node written through its own parameter
    def np3(kw):
        T = [kw.get('T1', 1300.0), kw.get('T2', 900.0), kw.get('T3', 700.0)]
        Pn = [kw.get('P1', 1e4), kw.get('P2', 1e2), kw.get('P3', 1e0)]
        return C['npoint'](T_surface=1500.0, T_top=500.0, temperature_points=T, pressure_points=Pn, limit_slope=1000.0,
                           smoothing_window=kw.get('sw', 25))
    out.append(S('npoint3:T', np3, [('fit', 'T_point1', 'T1', [1300.0, 1450.0, -4000.0]), ('fit', 'T_point2', 'T2', [900.0, 1000.0, 6000.0]),
                                    ('fit', 'T_point3', 'T3', [700.0, 650.0, 3100.0])]))
    out.append(S('npoint3:P', np3, [('fit', 'P_point1', 'P1', [1e4, 1e5, 1e1]), ('fit', 'P_point2', 'P2', [1e2, 1e3, 1e-1]),
                                    ('fit', 'P_point3', 'P3', [1e0, 1e1, 1e-3])]))
    out.append(S('npoint3:mixed', np3, [('fit', 'P_point2', 'P2', [1e2, 1e3, 1e5]), ('fit', 'T_point3', 'T3', [700.0, 650.0, 3100.0]),
                                        ('grid', 'grid', None, GRIDS)]))

    # ---- Rodgers (default covariance): one control per layer
    def rod(kw):
        T = [1800.0, 1500.0, 1300.0, 1000.0, 800.0, 600.0]
        for k, v in kw.items():
            if k.startswith('T'):
                T[int(k[1:])] = v
        return C['rodgers'](temperature_layers=T, correlation_length=kw.get('h', 5.0))
    hs = [5.0, 1.5, 0.7]
    out.append(S('rodgers:layers', rod, [('fit', 'T_1', 'T0', [1800.0, 2500.0, 300.0]), ('fit', 'T_4', 'T3', [1000.0, 400.0, 2900.0]),
                                         ('fit', 'T_6', 'T5', [600.0, 100.0, 1000.0])], grid=GRIDS_SAME_N[0]))
    out.append(S('rodgers:length:fit', rod, [('fit', 'correlation_length', 'h', hs), ('grid', 'grid', None, GRIDS_SAME_N),
                                             ('fit', 'T_3', 'T2', [1300.0, 1310.0, 200.0])], grid=GRIDS_SAME_N[0]))
    out.append(S('rodgers:length:prop', rod, [('prop', 'correlationLength', 'h', hs), ('grid', 'grid', None, GRIDS_SAME_N)],
                 grid=GRIDS_SAME_N[0]))

    # ---- Guillot: physical values and listed non-physical ones (zero opacity, negative temperature)
    def gui(kw):
        kw.setdefault('kappa_v2', 0.0008)      # two different visible streams, so that alpha matters
        return C['guillot'](**kw)
    out.append(S('guillot:a:fit', gui, [('fit', 'T_irr', 'T_irr', [1500.0, 2200.0, -100.0]), ('fit', 'kappa_irr', 'kappa_irr', [0.01, 0.05, 0.0]),
                                        ('fit', 'alpha', 'alpha', [0.5, 0.2, 0.9])]))
    out.append(S('guillot:b:fit', gui, [('fit', 'kappa_v1', 'kappa_v1', [0.005, 0.02, 0.0]), ('fit', 'kappa_v2', 'kappa_v2', [0.005, 0.001, 0.0]),
                                        ('fit', 'T_int_guillot', 'T_int', [100.0, 300.0, -5.0])]))
    out.append(S('guillot:grid', gui, [('fit', 'T_irr', 'T_irr', [1500.0, 2200.0, 900.0]), ('grid', 'grid', None, GRIDS),
                                       ('fit', 'kappa_v1', 'kappa_v1', [0.005, 0.02, 0.0])]))
    out.append(S('guillot:prop', gui, [('prop', 'equilTemperature', 'T_irr', [1500.0, 2200.0, -100.0]),
                                       ('prop', 'meanInfraOpacity', 'kappa_irr', [0.01, 0.05, 0.0]),
                                       ('prop', 'opticalRatio', 'alpha', [0.5, 0.2, 0.9])]))
    out.append(S('guillot:prop2', gui, [('prop', 'meanOpticalOpacity1', 'kappa_v1', [0.005, 0.02, 0.0]),
                                        ('prop', 'meanOpticalOpacity2', 'kappa_v2', [0.005, 0.001, 0.0]),
                                        ('prop', 'internalTemperature', 'T_int', [100.0, 300.0, -5.0])]))

    # ---- array / file: no writable control, the grid is the only setting
    arr = [1900.0, 1500.0, 1450.0, 900.0, 400.0]
    out.append(S('array', lambda kw: C['array'](tp_array=list(arr)), [('grid', 'grid', None, [(9, 6, -2), (5, 6, -2), (5, 4, 0)])]))
    out.append(S('array:pp', lambda kw: C['array'](tp_array=list(arr), p_points=[1e5, 1e4, 1e2, 1e0, 1e-1]), [('grid', 'grid', None, GRIDS)]))
    path = os.path.join(tmpdir, 'history_tp.dat')
    with open(path, 'w') as fh:
        fh.write('P[bar] T[kK]\n' + '\n'.join('%r %r' % (p / 1e5, t / 1e3) for p, t in zip([1e5, 1e4, 1e2, 1e0, 1e-1], arr)) + '\n')
    out.append(S('file:pp', lambda kw: C['file'](filename=path, skiprows=1, press_col=0, temp_col=1, press_units='bar', temp_units='kK'),
                 [('grid', 'grid', None, GRIDS)]))
    return out


def explicit_end_nodes(ctx, scs):
    """NPoint with its surface / top node given explicitly (constructor keyword): for every combination of the
    scenario's values the outcome is decided by the documented rule alone -- node pressures strictly decreasing from
    the explicit surface node to the explicit top node and every slope below the limit, else an invalid model; a
    valid one stays inside its control temperatures.  Ties (equal pressures, slope at the limit) are not judged."""
    import itertools
    from ..fx_profiles import pgrid
    for sc in scs:
        if not sc.name.startswith('npoint1:pends'):
            continue
        for vals in itertools.product(*sc.dims):
            kw = sc._kwargs(list(vals))
            g = sc._grid(list(vals))
            n, P, _ = pgrid(g)
            ps = kw.get('P_surface'); pt = kw.get('P_top')
            Pn = [P[0] if ps is None else ps, 1e3, P[-1] if pt is None else pt]
            Tn = [1500.0, kw.get('T1', 1200.0), 500.0]
            lim = 1000.0
            inverted = any(a < b for a, b in zip(Pn, Pn[1:]))
            tie = any(a == b for a, b in zip(Pn, Pn[1:]))
            slopes = [abs((Tn[i + 1] - Tn[i]) / (np.log10(Pn[i + 1]) - np.log10(Pn[i]))) for i in range(2)] if not (inverted or tie) else []
            steep = any(s_ > lim * (1 + 1e-9) for s_ in slopes)
            tie = tie or any(abs(s_ - lim) <= lim * 1e-9 for s_ in slopes)
            if tie and not inverted:
                continue
            h = sc.fresh(list(vals))
            try:
                prof, exc = np.asarray(sc.observe(h), dtype=float), None
            except Exception as e:
                prof, exc = None, type(e).__name__
            cls = '%s:explicit-ends:%s' % (sc.name, 'inverted' if inverted else 'steep' if steep else 'valid')
            vec = dict(kind_='explicit_ends', scenario=sc.name, vals=list(vals))
            d = 'nodes P %r T %r limit %r on grid %r: implementation %s' % (Pn, Tn, lim, g, exc or 'returned a profile')
            if inverted or steep:
                ctx.verdict('nonphysical_rejected', exc is not None and 'Invalid' in exc, cls=cls, detail=d, vector=vec)
            else:
                if ctx.verdict('physical_not_rejected', exc is None, cls=cls, detail=d, vector=vec):
                    ctx.verdict('finite_positive', prof.shape == (n,) and bool(np.all(np.isfinite(prof)) and np.all(prof > 0)), cls=cls, detail=d, vector=vec)
                    ctx.verdict('within_control_range', bool(np.all(prof >= min(Tn) * (1 - RTOL)) and np.all(prof <= max(Tn) * (1 + RTOL))),
                                cls=cls, detail=d + ' profile %r' % prof, vector=vec)


def run_histories(ctx, nwalks):
    import tempfile, shutil
    from .. import history
    from ..fx_profiles import check_setters_took_effect
    tmp = tempfile.mkdtemp(prefix='c12hist_')
    try:
        scs = history_scenarios(tmp)
        dead = check_setters_took_effect(scs)
        explicit_end_nodes(ctx, scs)
        if dead and not ctx.has_violations():
            # a vacuity guard of the walks, not a clause: when the implementation under test already violates a clause
            # (e.g. it ignores an explicit end node, caught by explicit_end_nodes above) the verdicts stand
            raise Machinery('history scenarios with a control that changes nothing on a fresh object: %r' % dead)
        nt = history.run_history(ctx, scs, nwalks)
        ctx.note('history walks: %d traces over %d long-lived profile objects (controls via fitting parameters, property setters, re-initialisation)' % (nt, len(scs)))
    finally:
        shutil.rmtree(tmp, ignore_errors=True)


# ----------------------------------------------------------------------------
# profiles owned by forward models (spec/ProfileOwner.tla, harness/fx_c12owner.py)
# ----------------------------------------------------------------------------

def owner_imports():
    from taurex.model import TransmissionModel, EmissionModel
    from taurex.data import Planet
    from taurex.data.stellar import BlackbodyStar
    from taurex.data.profiles.chemistry import TaurexChemistry
    return dict(C=classes(), TransmissionModel=TransmissionModel, EmissionModel=EmissionModel, Planet=Planet,
                BlackbodyStar=BlackbodyStar, TaurexChemistry=TaurexChemistry)


def run_owners(ctx, nwalks):
    """Planet, layer count and pressure grid of a profile belong to the forward model that hands them over at
    every evaluation: design-level check of the hand-over (with the as-built variants that expose a stale planet
    refuted), then TLC-generated walks over the models' own fitting parameters on real models."""
    from ..fx_c12owner import run_owner
    q = ctx.tier == 'quick'
    ctx.check_spec('exhaustive-owner', 'ProfileOwner', 'MC_ProfileOwner_%s.cfg' % ctx.tier,
                   need_actions=('SetOwn', 'SetCtl', 'Rebuild', 'Evaluate'), workers=1 if q else 16)
    ctx.expect_refuted('refute-owner-frozen-and-skipped', 'ProfileOwner', 'RF_ProfileOwner_frozen_skip.cfg', 'ObservedIsCurrent', workers=1)
    if not q:
        ctx.check_spec('exhaustive-owner-frozen-only', 'ProfileOwner', 'MC_ProfileOwner_frozen_only.cfg')
        ctx.check_spec('exhaustive-owner-skip-only', 'ProfileOwner', 'MC_ProfileOwner_skip_only.cfg')
        ctx.expect_refuted('refute-owner-skip-keyed-on-grid', 'ProfileOwner', 'RF_ProfileOwner_grid_skip.cfg', 'ObservedIsCurrent')
    nt, nev, nfresh = run_owner(ctx, owner_imports(), guillot_indep, nwalks)
    ctx.note('owner walks: %d traces on forward models sharing one profile object (planet_radius, planet_mass, atm_max/min_pressure, '
             'profile control through the model, rebuilds), %d evaluations against %d freshly built models and the absolute clauses' % (nt, nev, nfresh))


# ----------------------------------------------------------------------------
# binding B: recipes -> events
# ----------------------------------------------------------------------------

def lat(k):
    """pressure on the 1/100-decade lattice"""
    return 10.0 ** (k / 100.0)


def range_event(r):
    kind, n = r['kind'], r['n']
    P = np.logspace(r['pa'] / 100.0, r['pb'] / 100.0, n)
    e = dict(ev='range', kind=kind, n=n, S=ST, tol=1, tn=[], pn=[], sg=[], lim=[1, 1])
    if kind == 'iso':
        kw, controls = dict(T=float(r['T'][0])), r['T'][:1]
    elif kind == 'npoint':
        tn, pn = r['T'], r['pn']
        sg = r.get('sg') or [1] * len(pn)
        kw = dict(T_surface=float(tn[0]), T_top=float(tn[-1]), temperature_points=[float(t) for t in tn[1:-1]],
                  pressure_points=[float(s_) * lat(k) for s_, k in zip(sg[1:-1], pn[1:-1])], smoothing_window=r['sw'])
        e['sg'] = list(sg)
        if r['ps'] is not None:
            kw['P_surface'] = lat(r['ps'])
        if r['pt'] is not None:
            kw['P_top'] = lat(r['pt'])
        if r['lim'] is not None:
            kw['limit_slope'] = r['lim'][0] / r['lim'][1]
            e['lim'] = [r['lim'][0], r['lim'][1] * 100]
        else:
            e['lim'] = [99999, 1]       # default 9999999 K/decade; same decisions for |dT| <= 3000 K, avoids 32-bit overflow
        e['tn'] = list(tn)
        e['pn'] = [r['pa'] if r['ps'] is None else r['ps']] + list(pn[1:-1]) + [r['pb'] if r['pt'] is None else r['pt']]
        controls = tn
    elif kind == 'array':
        kw = dict(tp_array=[float(t) for t in r['T']])
        if r.get('pp'):
            kw['p_points'] = [lat(k) for k in r['pp']]
        if r.get('reverse'):
            kw['reverse'] = True
        controls = r['T']
    elif kind == 'rodgers':
        kw = dict(temperature_layers=[float(t) for t in r['T']], correlation_length=r['h'])
        controls = r['T']
    else:
        raise Machinery('kind ' + kind)
    outcome, prof, detail = evaluate(kind, kw, n, P, route=r.get('route', 'ctor'))
    lo, hi = float(min(controls)), float(max(controls))
    e.update(outcome=outcome, lo=int(round(lo * ST)), hi=int(round(hi * ST)), len=-1, v=[], nonfinite=0, nonpos=0, below=0,
             above=0, constbad=0)
    if outcome == 'ok':
        if prof.ndim != 1:
            e['outcome'] = 'error'
            return e, 'profile is not a vector'
        fin = np.isfinite(prof)
        e.update(len=int(prof.shape[0]), v=[int(round(x * ST)) if f and abs(x) < 1e7 else -1 for x, f in zip(prof, fin)],
                 nonfinite=int((~fin).sum()), nonpos=int((prof[fin] <= 0).sum()),
                 below=int((prof[fin] < lo * (1 - RTOL)).sum()), above=int((prof[fin] > hi * (1 + RTOL)).sum()),
                 constbad=int((np.abs(prof[fin] - lo) > RTOL * lo).sum()) if lo == hi else 0)
        detail = 'min %r max %r controls [%r, %r]' % (float(np.nanmin(prof)), float(np.nanmax(prof)), lo, hi)
    return e, '%s %s' % (outcome, detail)


def npoint_event(r):
    """logspace grid pa..pb (whole decades), nodes on whole decades, T in units of 100 K."""
    n = r['n']
    P = np.logspace(r['pa'], r['pb'], n)
    tn, pd = r['T'], r['pd']
    kw = dict(T_surface=100.0 * tn[0], T_top=100.0 * tn[-1], temperature_points=[100.0 * t for t in tn[1:-1]],
              pressure_points=[10.0 ** k for k in pd[1:-1]], smoothing_window=r['sw'])
    outcome, prof, detail = evaluate('npoint', kw, n, P)
    e = dict(ev='npoint', n=n, pa=r['pa'], pb=r['pb'], tn=list(tn), pd=list(pd), sw=r['sw'], S=1000, tol=1, outcome=outcome, v=[])
    if outcome == 'ok' and prof.shape == (n,) and np.all(np.isfinite(prof)) and np.all(np.abs(prof) < 1e5):
        e['v'] = [int(round(x / 100.0 * 1000)) for x in prof]
    return e, '%s %s' % (outcome, detail)


def guillot_category(p):
    if p['kir'] == 0 or p['kv1'] == 0 or p['kv2'] == 0 or p['tirr'] < 0 or p['tint'] < 0:
        return 'listed'
    if p['kir'] > 0 and p['kv1'] > 0 and p['kv2'] > 0 and 0 <= p['alpha'] <= 1 and (p['tirr'] > 0 or p['tint'] > 0):
        return 'physical'
    return 'other'


def guillot_event(r):
    n, p = r['n'], r['p']
    P = np.logspace(r['pa'] / 100.0, r['pb'] / 100.0, n)
    cat = guillot_category(p)
    kw = dict(T_irr=p['tirr'], kappa_irr=p['kir'], kappa_v1=p['kv1'], kappa_v2=p['kv2'], alpha=p['alpha'], T_int=p['tint'])
    outcome, prof, detail = evaluate('guillot', kw, n, P)
    e = dict(ev='guillot', n=n, cat=cat, outcome=outcome if outcome != 'error' else 'bad', how=outcome, len=-1, nonfinite=0, nonpos=0,
             closedbad=0, assembled=False, S=SQ, y=[], a=[], w=0, e1=[], e2=[], an=0, ad=1, qtol=0)
    if outcome != 'ok':
        return e, '%s %s' % (outcome, detail)
    if prof.ndim != 1:
        e['outcome'] = 'bad'
        e['how'] = 'not-a-vector'
        return e, 'not a vector'
    fin = np.isfinite(prof)
    e.update(len=int(prof.shape[0]), nonfinite=int((~fin).sum()), nonpos=int((prof[fin] <= 0).sum()))
    if e['nonfinite'] or e['nonpos']:
        e['outcome'] = 'bad'
        e['how'] = 'nan-or-nonpositive'
        return e, 'profile %r' % prof[:6]
    detail = 'T[0]=%r T[-1]=%r' % (float(prof[0]), float(prof[-1]))
    # the closed form is linear in alpha: outside [0, 1] it is still the published expression wherever it is positive
    extrap = (cat == 'other' and min(p['kir'], p['kv1'], p['kv2']) > 0 and p['tirr'] >= 0 and p['tint'] >= 0
              and (p['tirr'] > 0 or p['tint'] > 0))
    if extrap and prof.shape == (n,):
        T4x, _ = guillot_indep(p, P, float(planet().gravity))
        extrap = min(T4x) > 1e-6 * max(T4x)
    if (cat == 'physical' or extrap) and prof.shape == (n,):
        T4, parts = guillot_indep(p, P, float(planet().gravity))
        if r.get('conditioned'):
            Texp = np.array(T4) ** 0.25
            bad = np.abs(prof - Texp) > 1e-8 * Texp
            e['closedbad'] = int(bad.sum())
            if bad.any():
                i = int(np.argmax(bad))
                detail = 'layer %d: T=%r closed form %r' % (i, float(prof[i]), float(Texp[i]))
        if r.get('assemble') and cat == 'physical':
            U = max(T4)
            an, ad = Fraction(p['alpha']).limit_denominator(64).numerator, Fraction(p['alpha']).limit_denominator(64).denominator
            if Fraction(an, ad) == Fraction(p['alpha']) and ad <= 8:
                y = [int(round(t ** 4 / U * SQ)) for t in prof]
                a = [int(round(q[0] / U * SQ)) for q in parts]
                w = int(round(parts[0][1] / U * SQ))
                e1 = [int(round(q[2] * SQ)) for q in parts]
                e2 = [int(round(q[3] * SQ)) for q in parts]
                big = max([abs(v) for v in y + a + e1 + e2] + [abs(w)])
                comb = max((ad - an) * x1 + an * x2 for x1, x2 in zip(e1, e2))
                if big < 2 ** 20 and w * comb < 2 ** 30 and big * SQ * ad < 2 ** 30:
                    e.update(assembled=True, y=y, a=a, w=w, e1=e1, e2=e2, an=an, ad=ad,
                             qtol=int(SQ * ad + 0.5 * comb + 0.5 * w * ad) + 2)
    return e, detail


def make_event(r):
    return dict(range=range_event, npoint=npoint_event, guillot=guillot_event)[r['ev']](r)


# ----------------------------------------------------------------------------
# recipe generators
# ----------------------------------------------------------------------------

SWS = [10, 10, 0, 1, 5, 25, 50, 99, 100, 101, 150, 300]


def rgrid100(rng):
    return dict(pa=rng.randint(300, 800), pb=rng.randint(-500, 100))


def range_recipes(rng, n):
    out = []
    g = rgrid100(rng)
    out.append(dict(g, ev='range', kind='iso', n=n, T=[rng.randint(1, 5000)]))
    for _ in range(3):
        g = rgrid100(rng)
        k = rng.randint(0, 4)
        mode = rng.random()
        span = g['pa'] - g['pb']
        mids = sorted(rng.sample(range(g['pb'] + 1, g['pa']), k), reverse=True)
        ps = pt = None
        if mode < 0.15 and k >= 1:
            mids[rng.randrange(k)] = rng.choice([g['pa'], g['pb'], g['pa'] + 50, g['pb'] - 50] + mids)   # inverted or equal nodes
        elif mode < 0.3:
            ps = g['pa'] + rng.randint(-span // 4, 100)
            pt = g['pb'] + rng.randint(-100, span // 4)
        if g['pa'] in mids or g['pb'] in mids:      # ties with an end node: give the end nodes explicitly (same pow)
            ps, pt = g['pa'], g['pb']
        sg = [1] * (k + 2)
        if k >= 1 and rng.random() < 0.12:          # a node pressure is any float: zero or negative, of any magnitude
            sg[1 + rng.randrange(k)] = rng.choice([-1, -1, 0])
        same = rng.random() < 0.15
        T = [rng.randint(100, 3000)] * (k + 2) if same else [rng.randint(100, 3000) for _ in range(k + 2)]
        lim = None
        if rng.random() < 0.3:
            lim = [rng.choice([2001, 1001, 601, 20001]), 2]
        out.append(dict(g, ev='range', kind='npoint', n=n, T=T, pn=[None] + mids + [None], ps=ps, pt=pt, lim=lim,
                        sw=rng.choice(SWS + [rng.randint(0, 300)]), sg=sg, route=rng.choice(ROUTES)))
    for _ in range(2):
        g = rgrid100(rng)
        m = rng.choice([1, 2, 3, 5, n, n + 1, 2 * n])
        same = rng.random() < 0.15
        T = [rng.randint(100, 3000)] * m if same else [rng.randint(100, 3000) for _ in range(m)]
        r = dict(g, ev='range', kind='array', n=n, T=T)
        if m >= 2 and rng.random() < 0.5:
            lo_, hi_ = g['pb'] - 100, g['pa'] + 100
            r['pp'] = sorted(rng.sample(range(lo_, hi_), m), reverse=True)
            if rng.random() < 0.3:
                r['reverse'] = True
                r['pp'] = r['pp'][::-1]
        out.append(r)
    g = rgrid100(rng)
    same = rng.random() < 0.15
    T = [rng.randint(100, 3000)] * n if same else [rng.randint(100, 3000) for _ in range(n)]
    out.append(dict(g, ev='range', kind='rodgers', n=n, T=T, h=rng.choice([5.0, 1.5, 7.0, 0.5, rng.uniform(0.3, 10)])))
    return out


def npoint_recipes(rng, n):
    out = []
    for _ in range(2):
        k = 0 if n > 30 else rng.randint(0, 3)
        gaps = [rng.choice([1, 2, 3, 4, 6]) for _ in range(k + 1)]
        pb = rng.randint(-3, 1)
        pd = [pb + sum(gaps)]
        for g_ in gaps:
            pd.append(pd[-1] - g_)
        sw = rng.choice([10, 10, 0, 5, 20, 34, 50, 100, rng.randint(0, 100)])
        out.append(dict(ev='npoint', n=n, pa=pd[0], pb=pb, pd=pd, T=[rng.randint(1, 25) for _ in range(k + 2)], sw=sw))
    return out


def guillot_recipes(rng, n):
    out = []
    g = rgrid100(rng)
    # physical and well conditioned: closed form compared at 1e-8 and assembled by TLC
    p = dict(tirr=float(rng.randint(0, 3000)), tint=float(rng.randint(0, 1000)), kir=10.0 ** rng.uniform(-4, 0),
             alpha=rng.randint(0, 8) / 8.0)
    p['kv1'] = p['kir'] * 2.0 ** rng.uniform(-6, 6)
    p['kv2'] = p['kir'] * 2.0 ** rng.uniform(-6, 6)
    if p['tirr'] == 0 and p['tint'] == 0:
        p['tint'] = 100.0
    out.append(dict(g, ev='guillot', n=n, p=p, conditioned=True, assemble=True))
    # anywhere inside and outside the documented bounds
    g = rgrid100(rng)
    def kappa():
        u = rng.random()
        return 0.0 if u < 0.08 else (-(10.0 ** rng.uniform(-10, 0)) if u < 0.3 else 10.0 ** rng.uniform(-10, 0))
    def temp(hi):
        u = rng.random()
        return 0.0 if u < 0.15 else (-float(rng.randint(1, hi)) if u < 0.25 else float(rng.randint(1, hi)))
    p = dict(tirr=temp(3000), tint=temp(1000), kir=kappa(), kv1=kappa(), kv2=kappa(),
             alpha=rng.choice([0.0, 1.0, 0.5, rng.uniform(0, 1), rng.uniform(-2, 3), -0.25, 1.5]))
    g1 = abs(p['kv1'] / p['kir']) if p['kir'] else 0
    g2 = abs(p['kv2'] / p['kir']) if p['kir'] else 0
    cond = all(1e-3 <= x <= 1e3 for x in (g1, g2))
    out.append(dict(g, ev='guillot', n=n, p=p, conditioned=cond, assemble=False))
    # alpha outside its documented bounds with two different visible streams: still the closed form (checked where positive)
    g = rgrid100(rng)
    p = dict(tirr=float(rng.randint(100, 3000)), tint=float(rng.randint(0, 1000)), kir=10.0 ** rng.uniform(-4, 0),
             alpha=rng.choice([-0.25, 1.2, 1.5, -1.0, 2.0, rng.uniform(-2, 0), rng.uniform(1, 3), 1.0 + 2.0 ** -rng.randint(1, 20)]))
    p['kv1'] = p['kir'] * 2.0 ** rng.uniform(-6, 6)
    p['kv2'] = p['kv1'] * 2.0 ** (rng.choice([-1, 1]) * rng.uniform(0.5, 5))
    out.append(dict(g, ev='guillot', n=n, p=p, conditioned=all(1e-3 <= x / p['kir'] <= 1e3 for x in (p['kv1'], p['kv2'])), assemble=False))
    return out


# ----------------------------------------------------------------------------
# trace validation
# ----------------------------------------------------------------------------

def event_cls(r, e):
    if r['ev'] == 'range':
        if r['kind'] == 'npoint':
            w = int(r['n'] * (r['sw'] / 100.0))
            w += 1 if w % 2 == 0 else 0
            sgn = node_signs(r.get('sg') or [1, 1])
            return 'range:npoint:%s:%s:%s%s' % ('window>n' if w > r['n'] else 'window<=n', e['outcome'], r.get('route', 'ctor'),
                                                '' if sgn == 'pos' else ':nodes-' + sgn)
        return 'range:%s%s' % (r['kind'], ':pp' if r.get('pp') else '')
    if r['ev'] == 'npoint':
        return 'npoint-exact:k%d' % (len(r['T']) - 2)
    p = r['p']
    why = []
    if e['cat'] == 'other':
        if min(p['kir'], p['kv1'], p['kv2']) < 0:
            why.append('negative-opacity')
        if not 0 <= p['alpha'] <= 1:
            why.append('alpha-outside-0-1')
        if p['tirr'] == 0 and p['tint'] == 0:
            why.append('zero-temperatures')
    return 'guillot:%s%s:%s' % (e['cat'], ':' + '+'.join(why) if why else '', e['how'] if e['outcome'] == 'bad' else e['outcome'])


def validate(ctx, recipes, label, canary=True):
    events, details = [], []
    for i, r in enumerate(recipes):
        e, d = make_event(r)
        e['id'] = i
        events.append(e)
        details.append(d)
    accepted, bad, res = validate_trace('Trace_Temperature', 'Trace_Temperature.cfg', events, timeout=1500, env=JVM)
    ctx.add_tlc('trace-' + label, res, counts=False)
    if res.postcondition_false and not bad:
        raise Machinery('trace spec did not consume the whole trace:\n' + res.out[-1500:])
    if res.distinct < len(events):
        raise Machinery('trace spec stopped early (%d of %d):\n%s' % (res.distinct, len(events), res.out[-1500:]))
    badids = {b['id'] for b in bad}
    ctx.traces += len(events)
    names = dict(range='trace_profile_clauses', npoint='trace_npoint_exact', guillot='trace_guillot')
    for i, (r, e) in enumerate(zip(recipes, events)):
        ctx.verdict(names[r['ev']], i not in badids, cls=event_cls(r, e), detail='TLC rejected n=%d: %s' % (r['n'], details[i]),
                    vector=dict(kind_='recipe', recipe=r))
    if events:
        ctx.add_sample(dict(trace_event={k: (v if not isinstance(v, list) else v[:6]) for k, v in events[0].items()}))
    if canary:
        cl = []
        for want in ('range', 'npoint', 'guillot'):
            for e in events:
                if e['id'] in badids or e['ev'] != want or e['outcome'] != 'ok':
                    continue
                c = dict(e)
                if want == 'guillot':
                    if not e['assembled']:
                        continue
                    c['y'] = list(e['y'])
                    c['y'][0] += 3 * (e['qtol'] // (e['S'] * e['ad']) + 1) + 5
                elif e['v']:
                    c['v'] = list(e['v'])
                    j = len(c['v']) // 2
                    c['v'][j] = (c['hi'] + 30) if want == 'range' else c['v'][j] + 40
                else:
                    continue
                cl.append(c)
                break
        if not cl:
            if badids:       # every candidate was rejected already: TLC demonstrably rejects, nothing to corrupt
                return len(events)
            raise Machinery('no event available for the canary (%s)' % label)
        for k, c in enumerate(cl):
            c['id'] = k
        ok2, bad2, _ = validate_trace('Trace_Temperature', 'Trace_Temperature.cfg', cl, env=JVM)
        if ok2 or len(bad2) != len(cl):
            raise Machinery('canary accepted: trace validation of %s is vacuous (%r of %d)' % (label, bad2, len(cl)))
    return len(events)


# ----------------------------------------------------------------------------
# entry points
# ----------------------------------------------------------------------------

def layer_counts(ctx):
    if ctx.tier == 'thorough':
        return list(range(2, 121))
    rng = random.Random(ctx.seed * 104729 + 12)
    return list(range(2, 31)) + sorted(rng.sample(range(31, 121), 24))


def dedupe(vecs):
    seen, out = set(), []
    for v in vecs:
        k = repr(sorted(v.items()))
        if k not in seen:
            seen.add(k)
            out.append(v)
    return out


def run(ctx):
    q = ctx.tier == 'quick'
    quiet()
    selfcheck_e2()
    ctx.bounds = dict(tier=ctx.tier,
                      exhaustive='layer counts 2..%d, <=3 nodes on/between/outside the layers (+4 nodes for <=4 layers in thorough), temperatures {1,2,4}, windows 0..300%%, slope limits {2,1000}; Rodgers 2-3 layers; Guillot sign/zero classes with an abstract eta table' % (6 if q else 8),
                      layer_counts='binding B: every n in 2..30%s' % (' + 24 seeded counts of 31..120' if q else ' and 31..120'),
                      guillot_closed_form='compared at 1e-8 where gamma1, gamma2 in [1e-3, 1e3] (the closed form loses digits outside)',
                      owners='two forward models (transmission, emission) sharing one profile object; 3 values each of planet_radius, planet_mass, atm_max_pressure, atm_min_pressure and one profile control, 2 layer counts per class; walks of 10 steps (+ an evaluation after every change)')
    ctx.assumptions = ['E2 evaluated by 20-point Gauss-Legendre on dyadic panels in plain Python (cross-checked against its series)',
                       'planet gravity is input data', 'float 10**k / log10 exact to 1e-12 on integer decades',
                       'TLC + CommunityModules Json/IOUtils']
    # ---- design level
    cfgs = ['MC_Temperature_quick.cfg'] if q else ['MC_Temperature_thorough.cfg', 'MC_Temperature_thorough2.cfg']
    for cfg in cfgs:
        ctx.check_spec('exhaustive-' + cfg, 'MC_Temperature', cfg, need_actions=('Eval',))
    ctx.exhaustive = True
    ctx.expect_refuted('refute-guillot-asbuilt', 'MC_Temperature', 'RF_Temperature_guillot.cfg', 'InvalidNeverNaN')
    ctx.expect_refuted('refute-npoint-asbuilt', 'MC_Temperature', 'RF_Temperature_npoint.cfg', 'InvalidNeverNaN')
    if not q:
        ctx.expect_refuted('refute-rodgers-columns', 'MC_Temperature', 'RF_Temperature_rodgers.cfg', 'WithinControlRange')
    # ---- binding A
    res = ctx.check_spec('export', 'MC_Temperature', 'EX_Temperature_%s.cfg' % ctx.tier, workers=1)
    vecs = dedupe(res.tagged('VEC'))
    if len(vecs) < 2000:
        raise Machinery('only %d vectors exported' % len(vecs))
    stats = {}
    for v in vecs:
        run_vector(ctx, v, stats)
    ctx.note('vectors replayed: %d; resampled arrays returned mirrored (top value first): %d' % (len(vecs), stats.get('array_mirrored', 0)))
    # ---- node pressures anywhere on the real line (zero, negative), through every public route to the nodes
    ctx.expect_refuted('refute-npoint-order-judged-on-logarithms', 'MC_Temperature', 'RF_Temperature_npoint_logorder.cfg', 'InvalidNeverNaN')
    res = ctx.check_spec('export-signed-nodes', 'MC_Temperature', 'EX_Temperature_signed_%s.cfg' % ctx.tier, need_actions=('Eval',), workers=1)
    svecs = dedupe(res.tagged('VEC'))
    if len(svecs) < 1000 or not all(v['strict'] for v in svecs) or {node_signs(v['sg']) for v in svecs} != {'neg', 'zero'}:
        raise Machinery('signed-node export: %d vectors, classes %r' % (len(svecs), sorted({node_signs(v['sg']) for v in svecs})))
    for v in svecs:
        for route in ROUTES:
            run_vector(ctx, v, stats, route=route)
    ctx.note('node sets with a zero or negative intermediate node pressure: %d, each through %s' % (len(svecs), ' / '.join(ROUTES)))
    # ---- file-based profile over its documented options (units, columns, header lines, delimiter, row order)
    ctx.check_spec('exhaustive-file', 'MC_TempFile', 'MC_TempFile_%s.cfg' % ctx.tier, need_actions=('Eval',))
    ctx.expect_refuted('refute-file-punit-on-both', 'MC_TempFile', 'RF_TempFile_punit.cfg', 'WithinControlRange')
    ctx.expect_refuted('refute-file-columns-swapped', 'MC_TempFile', 'RF_TempFile_columns.cfg', 'FileTransparent')
    if not q:
        ctx.expect_refuted('refute-file-tunit-ignored', 'MC_TempFile', 'RF_TempFile_tunit.cfg', 'WithinControlRange')
    res = ctx.check_spec('export-file', 'MC_TempFile', 'EX_TempFile_%s.cfg' % ctx.tier, workers=1)
    fvecs = dedupe(res.tagged('VEC'))
    if len(fvecs) < 300:
        raise Machinery('only %d file vectors exported' % len(fvecs))
    need = {(v['pmode'], v['fmt']['pu'], v['fmt']['tu']) for v in fvecs}
    if not any(pm == 'pp' and pu != 0 for pm, pu, _ in need) or not any(tu != 1 for _, _, tu in need):
        raise Machinery('file vectors do not cover non-default units')
    run_file_vectors(ctx, fvecs)
    ctx.note('file vectors replayed: %d (pressure units %s, temperature units %s, %d layouts)' %
             (len(fvecs), sorted({v['fmt']['pu'] for v in fvecs}), sorted({v['fmt']['tu'] for v in fvecs}),
              len({tuple(v['layout']) for v in fvecs})))
    # ---- binding B
    rng = random.Random(ctx.seed * 7919 + 12)
    ns = layer_counts(ctx)
    reps = 1 if q else 4
    recipes = []
    for n in ns:
        for _ in range(reps):
            recipes += range_recipes(rng, n)
    nr = validate(ctx, recipes, 'range')
    recipes = []
    for n in ns:
        for _ in range(reps):
            recipes += npoint_recipes(rng, n)
    nn = validate(ctx, recipes, 'npoint')
    recipes = []
    for n in ns:
        for _ in range(reps):
            recipes += guillot_recipes(rng, n)
    ng = validate(ctx, recipes, 'guillot')
    ctx.note('trace events: %d range (layer counts %d..%d, %d distinct), %d exact npoint, %d guillot' % (nr, ns[0], ns[-1], len(ns), nn, ng))
    # ---- history independence of long-lived objects
    run_histories(ctx, 12 if q else 120)
    # ---- the same inside forward models: planet and grid are the model's, changed through its parameters
    run_owners(ctx, 12 if q else 100)


def replay(ctx, violations):
    quiet()
    stats = {}
    for viol in violations:
        v = viol['vector']
        if v.get('kind_') == 'recipe':
            validate(ctx, [v['recipe']], 'replay', canary=False)
        elif v.get('kind_') == 'vector':
            run_vector(ctx, {k: w for k, w in v.items() if k not in ('kind_', 'route')}, stats, route=v.get('route'))
        elif v.get('kind_') == 'filevector':
            import tempfile, shutil
            tmp = tempfile.mkdtemp(prefix='c12files_')
            try:
                run_file_vector(ctx, {k: w for k, w in v.items() if k not in ('kind_', 'idx')}, tmp, v.get('idx', 0))
            finally:
                shutil.rmtree(tmp, ignore_errors=True)
        elif v.get('kind_') == 'explicit_ends':
            import tempfile, shutil
            tmp = tempfile.mkdtemp(prefix='c12hist_')
            try:
                scs = [s_ for s_ in history_scenarios(tmp) if s_.name == v['scenario']]
                for s_ in scs:
                    s_.dims = [[x if not isinstance(x, list) else tuple(x)] for x in v['vals']]
                explicit_end_nodes(ctx, scs)
            finally:
                shutil.rmtree(tmp, ignore_errors=True)
        elif 'owner' in v:
            from ..fx_c12owner import replay_owner
            replay_owner(ctx, owner_imports(), guillot_indep, v)
        elif 'history' in v:
            import tempfile, shutil
            from ..fx_profiles import replay_trail
            tmp = tempfile.mkdtemp(prefix='c12hist_')
            try:
                replay_trail(ctx, history_scenarios(tmp), v)
            finally:
                shutil.rmtree(tmp, ignore_errors=True)
